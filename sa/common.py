"""Shared analyses used by several properties' rules."""
import ast
from collections import deque

from .prog import norm, walk_local, Func, AnalysisError
from .cfg import cfg_of, node_exprs, walk_expr, node_defs, reaching_defs
from .calls import calls_of
from .report import site


def calls_at(calls, func, node):
    """[(ast.Call, [Target])] evaluated at CFG node."""
    out = []
    for e in node_exprs(node):
        for sub in walk_expr(e):
            if isinstance(sub, ast.Call):
                out.append((sub, calls.callee(func, sub)))
    return out


def node_calls_func(calls, func, node, target_func):
    for call, tg in calls_at(calls, func, node):
        for t in tg:
            if t.kind == "func" and t.func is target_func:
                return call
    return None


def simple_truth(e):
    """(name, polarity) if e is `name` or `not name`, else None."""
    if isinstance(e, ast.Name):
        return (e.id, True)
    if isinstance(e, ast.UnaryOp) and isinstance(e.op, ast.Not) and isinstance(e.operand, ast.Name):
        return (e.operand.id, False)
    return None


def pairing(cfg, is_push, is_pop, start=None):
    """Typestate: every path from entry to any exit executes equally many pushes and pops.
    State = (depth, facts) where facts are truth values of plain names tested on the way (so that
    `if scope: push ... finally: if scope: pop` is recognised, and nothing else is).
    Returns list of violations: dict(exit=Node, depth=int, path=[(label,node)...], push=node)."""
    entry = cfg.entry
    init = (0, frozenset())
    seen = {(entry.id, init): None}
    q = deque([(entry, init)])
    bad = []
    reported = set()
    while q:
        n, st = q.popleft()
        depth, facts = st
        if n.kind == "exit":
            if depth != 0 and (n.id, depth) not in reported:
                reported.add((n.id, depth))
                path = []
                cur = (n.id, st)
                while cur is not None:
                    prev = seen[cur]
                    if prev is None:
                        break
                    (pid, pst, label) = prev
                    path.append((label, cfg.nodes[cur[0]]))
                    cur = (pid, pst)
                bad.append({"exit": n, "depth": depth, "path": list(reversed(path))})
            continue
        push = is_push(n)
        pop = is_pop(n)
        killed = set(node_defs(n))
        base_facts = frozenset(f for f in facts if f[0] not in killed)
        tr = simple_truth(n.ast) if n.kind == "test" else None
        for (label, t) in n.succ:
            nd, nf = depth, base_facts
            if label == "exc" or label == "close":
                # the node's own operation did not complete
                if pop and label == "exc":
                    continue  # popping a non-empty stack does not fail
            else:
                if push:
                    nd += 1
                if pop:
                    nd -= 1
            if tr is not None and label in ("true", "false"):
                val = (label == "true") == tr[1]
                if (tr[0], not val) in nf:
                    continue  # infeasible: same unmodified name tested with the other outcome
                nf = nf | {(tr[0], val)}
            if abs(nd) > 3:
                continue
            key = (t.id, (nd, nf))
            if key not in seen:
                seen[key] = (n.id, st, label)
                q.append((t, (nd, nf)))
    return bad


def fmt_path(path, limit=14):
    parts = []
    for (label, n) in path[-limit:]:
        parts.append("--%s--> %s@%d" % (label, n.text[:50], n.line))
    return " ".join(parts)


def guarded_uses(cfg, is_guard_true_edge, is_use):
    """Nodes n with is_use(n) reachable from entry along a path that never takes a guard's true edge.
    is_guard_true_edge(node,label) -> bool says that the edge (node,label) establishes the guard."""
    seen = set()
    todo = [cfg.entry]
    bad = []
    while todo:
        n = todo.pop()
        if n.id in seen:
            continue
        seen.add(n.id)
        if is_use(n):
            bad.append(n)
            continue
        for (label, t) in n.succ:
            if is_guard_true_edge(n, label):
                continue
            if label in ("exc", "close"):
                # leaving through an exception is not a use of the instance
                if t.kind in ("exit", "dispatch", "finally", "with_exit", "except"):
                    pass
            todo.append(t)
    return bad


def names_in(e):
    return {n.id for n in walk_expr(e) if isinstance(n, ast.Name)}


def const_of(e):
    return e.value if isinstance(e, ast.Constant) else None


def find_method(prog, clsqual, name):
    c = prog.cls(clsqual)
    if name not in c.methods:
        if name.startswith("_") and not name.startswith("__"):
            m = prog._by_role("%s.%s" % (clsqual, name))      # a private method may have been renamed: found by what it does
            if m is not None:
                return m
        raise AnalysisError("method vanished: %s.%s" % (clsqual, name))
    return c.methods[name]


def stamper(prog):
    """_Error._set (whatever it is called): the method with which the dispatcher stamps an error; None if there is none"""
    try:
        return find_method(prog, "exceptions._Error", "_set")
    except AnalysisError:
        return None


def dispatcher(prog):
    V = prog.tables.validator_cls
    if "iter_errors" not in V.methods:
        raise AnalysisError("dispatcher iter_errors vanished")
    return V.methods["iter_errors"]
