"""E3: statement-level control-flow graph with short-circuit lowering, exception
edges, per-continuation copies of `finally` bodies and generator close edges.
Also E7's reaching definitions, dominators and path queries.
"""
import ast

from .prog import AnalysisError, norm, walk_local

CATCH_ALL = {"Exception", "BaseException"}
CLOSE_CATCHERS = {"BaseException", "GeneratorExit"}


class Node:
    __slots__ = ("id", "kind", "ast", "succ", "pred", "trys", "loops", "line", "info", "withs")

    def __init__(self, nid, kind, a=None, info=None):
        self.id = nid
        self.kind = kind
        self.ast = a
        self.succ = []   # (label, Node)
        self.pred = []   # (label, Node)
        self.trys = ()   # tuple of (ast.Try, where) enclosing, outermost first; where in body/handler/else/finally
        self.loops = ()  # tuple of loop header Nodes enclosing
        self.withs = ()
        self.line = getattr(a, "lineno", 0) if a is not None else 0
        self.info = info

    def out(self, *labels):
        return [n for (l, n) in self.succ if not labels or l in labels]

    def inn(self, *labels):
        return [n for (l, n) in self.pred if not labels or l in labels]

    @property
    def text(self):
        if self.ast is None:
            return self.kind + (":" + str(self.info) if self.info else "")
        t = norm(self.ast)
        t = t.split("\n")[0]
        return t if len(t) < 100 else t[:97] + "..."

    def __repr__(self):
        return "<%d %s %s@%d>" % (self.id, self.kind, self.text, self.line)


import itertools
_serial = itertools.count()


class LoopFrame:
    def __init__(self, header, after):
        self.header = header
        self.after = after
        self.uid = next(_serial)


class TryFrame:
    def __init__(self, node, where, handler_entries=()):
        self.node = node            # ast.Try
        self.where = where          # 'body' | 'handler' | 'else'
        self.handler_entries = handler_entries
        self.uid = next(_serial)


class WithFrame:
    def __init__(self, node, item_index):
        self.node = node
        self.uid = next(_serial)


def handler_names(h):
    """Names of exception classes a handler lists; None for bare except."""
    if h.type is None:
        return None
    elts = h.type.elts if isinstance(h.type, ast.Tuple) else [h.type]
    out = []
    for e in elts:
        if isinstance(e, ast.Name):
            out.append(e.id)
        elif isinstance(e, ast.Attribute):
            out.append(e.attr)
        else:
            out.append(norm(e))
    return out


def simple_pure(e):
    """Expression that cannot raise (names, constants, is-comparisons, bool ops of those, self.attr)."""
    if e is None:
        return True
    if isinstance(e, (ast.Name, ast.Constant)):
        return True
    if isinstance(e, ast.Attribute):
        return isinstance(e.value, ast.Name) and e.value.id in ("self", "cls")
    if isinstance(e, ast.UnaryOp) and isinstance(e.op, ast.Not):
        return simple_pure(e.operand)
    if isinstance(e, ast.BoolOp):
        return all(simple_pure(v) for v in e.values)
    if isinstance(e, ast.Compare):
        return all(isinstance(o, (ast.Is, ast.IsNot)) for o in e.ops) and simple_pure(e.left) and all(
            simple_pure(c) for c in e.comparators)
    if isinstance(e, (ast.Tuple, ast.List)):
        return all(simple_pure(x) for x in e.elts)
    if isinstance(e, ast.Lambda):
        return True
    return False


def contains_yield(node):
    if isinstance(node, (ast.Yield, ast.YieldFrom)):
        return True
    for n in walk_local(node):
        if isinstance(n, (ast.Yield, ast.YieldFrom)):
            return True
    return False


class CFG:
    def __init__(self, func):
        self.func = func
        self.nodes = []
        self.entry = self._new("entry")
        self.exits = {k: self._new("exit", info=k) for k in ("return", "raise", "close", "fall")}
        self._memo = {}
        self._ctx_trys = ()
        self._ctx_loops = ()
        self._ctx_withs = ()
        self.is_generator = func.is_generator
        pend = self._block(func.body, [], [(self.entry, "next")])
        self._connect(pend, self.exits["fall"])
        self._prune()

    # ------------------------------------------------------------- primitives
    def _new(self, kind, a=None, info=None):
        n = Node(len(self.nodes), kind, a, info)
        n.trys = getattr(self, "_ctx_trys", ())
        n.loops = getattr(self, "_ctx_loops", ())
        n.withs = getattr(self, "_ctx_withs", ())
        self.nodes.append(n)
        return n

    def _edge(self, a, label, b):
        if (label, b) not in a.succ:
            a.succ.append((label, b))
            b.pred.append((label, a))

    def _connect(self, pending, node):
        for (n, l) in pending:
            self._edge(n, l, node)

    # ------------------------------------------------------------ continuations
    def _cont(self, kind, frames):
        """Node that continues a jump of `kind` (return/exc/close/break/continue) out of `frames`."""
        if not frames:
            return self.exits["raise" if kind == "exc" else kind]
        fr = frames[-1]
        outer = frames[:-1]
        key = (kind, len(frames), fr.uid)
        if key in self._memo:
            return self._memo[key]
        if isinstance(fr, LoopFrame):
            if kind == "break":
                return fr.after
            if kind == "continue":
                return fr.header
            return self._cont(kind, outer)
        saved = (self._ctx_trys, self._ctx_loops, self._ctx_withs)
        try:
            if isinstance(fr, TryFrame):
                t = fr.node
                if kind in ("exc", "close") and fr.where == "body" and fr.handler_entries:
                    d = self._new("dispatch", info=kind)
                    self._memo[key] = d
                    caught_all = False
                    for h, entry in fr.handler_entries:
                        names = handler_names(h)
                        if kind == "exc":
                            self._edge(d, "exc", entry)
                            if names is None or any(x in CATCH_ALL for x in names):
                                caught_all = True
                        else:
                            # GeneratorExit is a BaseException: the first clause that catches it takes the close, for certain
                            if not caught_all and (names is None or any(x in CLOSE_CATCHERS for x in names)):
                                self._edge(d, "close", entry)
                                caught_all = True
                    if not caught_all:
                        self._edge(d, kind, self._after_finally(kind, fr, outer))
                    return d
                n = self._after_finally(kind, fr, outer)
                self._memo[key] = n
                return n
            if isinstance(fr, WithFrame):
                self._ctx_trys, self._ctx_loops, self._ctx_withs = self._outer_ctx(outer)
                x = self._new("with_exit", fr.node, info=kind)
                self._memo[key] = x
                self._edge(x, "resume", self._cont(kind, outer))
                return x
        finally:
            self._ctx_trys, self._ctx_loops, self._ctx_withs = saved
        raise AnalysisError("unknown frame")

    def _after_finally(self, kind, fr, outer):
        t = fr.node
        if not t.finalbody:
            return self._cont(kind, outer)
        key = ("fin", kind, len(outer), fr.uid, tuple(f.uid for f in outer))
        if key in self._memo:
            return self._memo[key]
        saved = (self._ctx_trys, self._ctx_loops, self._ctx_withs)
        tr, lo, wi = self._outer_ctx(outer)
        self._ctx_trys, self._ctx_loops, self._ctx_withs = tr + ((t, "finally"),), lo, wi
        try:
            head = self._new("finally", t, info=kind)
            self._memo[key] = head
            pend = self._block(t.finalbody, outer, [(head, "next")])
            self._ctx_trys, self._ctx_loops, self._ctx_withs = tr, lo, wi
            self._connect([(n, "resume" if l == "next" else l) for (n, l) in pend],
                          self._cont(kind, outer))
        finally:
            self._ctx_trys, self._ctx_loops, self._ctx_withs = saved
        return head

    def _outer_ctx(self, frames):
        trys, loops, withs = [], [], []
        for f in frames:
            if isinstance(f, TryFrame):
                trys.append((f.node, f.where))
            elif isinstance(f, LoopFrame):
                loops.append(f.header)
            elif isinstance(f, WithFrame):
                withs.append(f.node)
        return tuple(trys), tuple(loops), tuple(withs)

    def _raise_edges(self, node, frames, expr_nodes):
        """Add exceptional (and for yields, close) edges from `node`."""
        may = any(not simple_pure(e) for e in expr_nodes if e is not None)
        has_y = any(contains_yield(e) for e in expr_nodes if e is not None)
        if may or has_y:
            self._edge(node, "exc", self._cont("exc", frames))
        if has_y:
            self._edge(node, "close", self._cont("close", frames))

    # --------------------------------------------------------------- conditions
    def _cond(self, e, frames, pending):
        """Lower a condition; returns (true_pending, false_pending)."""
        if isinstance(e, ast.BoolOp):
            if isinstance(e.op, ast.And):
                falses = []
                cur = pending
                for v in e.values:
                    t, f = self._cond(v, frames, cur)
                    falses += f
                    cur = t
                return cur, falses
            trues = []
            cur = pending
            for v in e.values:
                t, f = self._cond(v, frames, cur)
                trues += t
                cur = f
            return trues, cur
        if isinstance(e, ast.UnaryOp) and isinstance(e.op, ast.Not):
            t, f = self._cond(e.operand, frames, pending)
            return f, t
        n = self._new("test", e)
        self._connect(pending, n)
        self._raise_edges(n, frames, [e])
        return [(n, "true")], [(n, "false")]

    # ---------------------------------------------------------------- statements
    def _block(self, stmts, frames, pending):
        saved = (self._ctx_trys, self._ctx_loops, self._ctx_withs)
        self._ctx_trys, self._ctx_loops, self._ctx_withs = self._merge_ctx(saved, frames)
        try:
            for st in stmts:
                pending = self._stmt(st, frames, pending)
            return pending
        finally:
            self._ctx_trys, self._ctx_loops, self._ctx_withs = saved

    def _merge_ctx(self, saved, frames):
        tr, lo, wi = self._outer_ctx(frames)
        # when building a finally copy, saved[0] carries the (t,'finally') marker: keep it
        extra = tuple(x for x in saved[0] if x[1] == "finally" and x not in tr)
        return tr + extra, lo, wi

    def _stmt(self, st, frames, pending):
        if isinstance(st, ast.If):
            t, f = self._cond(st.test, frames, pending)
            a = self._block(st.body, frames, t)
            b = self._block(st.orelse, frames, f) if st.orelse else f
            return a + b
        if isinstance(st, ast.While):
            head = self._new("join", info="while")
            after = self._new("join", info="after-while")
            self._connect(pending, head)
            lf = LoopFrame(head, after)
            t, f = self._cond(st.test, frames, [(head, "next")])
            for (n, _l) in t + f:
                n.info = "while"
            body = self._block(st.body, frames + [lf], t)
            self._connect(body, head)
            orelse = self._block(st.orelse, frames, f) if st.orelse else f
            self._connect(orelse, after)
            return [(after, "next")]
        if isinstance(st, (ast.For, ast.AsyncFor)):
            head = self._new("for", st)
            after = self._new("join", info="after-for")
            self._connect(pending, head)
            self._raise_edges(head, frames, [ast.Call(func=ast.Name(id="iter", ctx=ast.Load()), args=[st.iter], keywords=[])])
            lf = LoopFrame(head, after)
            body = self._block(st.body, frames + [lf], [(head, "iter")])
            self._connect(body, head)
            orelse = self._block(st.orelse, frames, [(head, "done")]) if st.orelse else [(head, "done")]
            self._connect(orelse, after)
            return [(after, "next")]
        if isinstance(st, ast.Try):
            return self._try(st, frames, pending)
        if isinstance(st, (ast.With, ast.AsyncWith)):
            enter = self._new("with_enter", st)
            self._connect(pending, enter)
            self._raise_edges(enter, frames, [i.context_expr for i in st.items])
            wf = WithFrame(st, 0)
            body = self._block(st.body, frames + [wf], [(enter, "next")])
            x = self._new("with_exit", st, info="normal")
            self._connect(body, x)
            return [(x, "next")]
        if isinstance(st, ast.Return):
            n = self._new("return", st)
            self._connect(pending, n)
            self._raise_edges(n, frames, [st.value])
            self._edge(n, "return", self._cont("return", frames))
            return []
        if isinstance(st, ast.Raise):
            n = self._new("raise", st)
            self._connect(pending, n)
            self._edge(n, "exc", self._cont("exc", frames))
            return []
        if isinstance(st, ast.Break):
            n = self._new("break", st)
            self._connect(pending, n)
            self._edge(n, "break", self._cont("break", frames))
            return []
        if isinstance(st, ast.Continue):
            n = self._new("continue", st)
            self._connect(pending, n)
            self._edge(n, "continue", self._cont("continue", frames))
            return []
        if isinstance(st, ast.Assert):
            t, f = self._cond(st.test, frames, pending)
            r = self._new("raise", st, info="assert")
            self._connect(f, r)
            self._edge(r, "exc", self._cont("exc", frames))
            return t
        if isinstance(st, (ast.FunctionDef, ast.AsyncFunctionDef, ast.ClassDef)):
            n = self._new("def", st)
            self._connect(pending, n)
            return [(n, "next")]
        if isinstance(st, ast.Expr) and isinstance(st.value, (ast.Yield, ast.YieldFrom)):
            n = self._new("yield", st)
            self._connect(pending, n)
            self._raise_edges(n, frames, [st.value])
            return [(n, "next")]
        if isinstance(st, ast.Match):
            raise AnalysisError("match statement not modelled (%s)" % self.func.qual)
        # simple statement
        n = self._new("stmt", st)
        self._connect(pending, n)
        exprs = [c for c in ast.iter_child_nodes(st) if isinstance(c, ast.expr)]
        if isinstance(st, (ast.Import, ast.ImportFrom)):
            self._edge(n, "exc", self._cont("exc", frames))
        elif isinstance(st, ast.Delete):
            self._edge(n, "exc", self._cont("exc", frames))
        else:
            # a store to a subscript/attribute target may raise too
            tg = []
            if isinstance(st, ast.Assign):
                tg = st.targets
            elif isinstance(st, (ast.AugAssign, ast.AnnAssign)):
                tg = [st.target]
            store_raises = any(isinstance(t, ast.Subscript) or (
                isinstance(t, ast.Attribute) and not simple_pure(t)) or isinstance(t, (ast.Tuple, ast.List)) for t in tg)
            if isinstance(st, ast.AugAssign):
                store_raises = True
            only_vals = [e for e in exprs if e not in tg]
            if store_raises:
                self._edge(n, "exc", self._cont("exc", frames))
                if any(contains_yield(e) for e in exprs):
                    self._edge(n, "close", self._cont("close", frames))
            else:
                self._raise_edges(n, frames, only_vals)
        return [(n, "next")]

    def _try(self, st, frames, pending):
        # handler entries first, so body nodes can point at them
        saved = (self._ctx_trys, self._ctx_loops, self._ctx_withs)
        entries = []
        for h in st.handlers:
            self._ctx_trys = saved[0] + ((st, "handler"),)
            e = self._new("except", h)
            entries.append((h, e))
        self._ctx_trys = saved[0]
        body_frames = frames + [TryFrame(st, "body", entries)]
        body = self._block(st.body, body_frames, pending)
        if st.orelse:
            body = self._block(st.orelse, frames + [TryFrame(st, "else")], body)
        outs = list(body)
        for h, e in entries:
            hb = self._block(h.body, frames + [TryFrame(st, "handler")], [(e, "next")])
            outs += hb
        if st.finalbody:
            tr, lo, wi = self._outer_ctx(frames)
            self._ctx_trys = tr + ((st, "finally"),)
            head = self._new("finally", st, info="normal")
            self._connect(outs, head)
            outs = self._block(st.finalbody, frames, [(head, "next")])
            self._ctx_trys = saved[0]
        return outs

    def _prune(self):
        """Drop nodes unreachable from entry (unused finally copies etc.)."""
        seen = {self.entry.id}
        todo = [self.entry]
        while todo:
            n = todo.pop()
            for _l, s in n.succ:
                if s.id not in seen:
                    seen.add(s.id)
                    todo.append(s)
        for n in self.nodes:
            n.pred = [(l, p) for (l, p) in n.pred if p.id in seen]
        self.live = [n for n in self.nodes if n.id in seen]

    # ------------------------------------------------------------------ queries
    def find(self, pred):
        return [n for n in self.live if pred(n)]

    def calls(self, match=None):
        """(node, ast.Call) for every call in every live node's own expression."""
        out = []
        for n in self.live:
            for c in node_exprs(n):
                for sub in walk_expr(c):
                    if isinstance(sub, ast.Call) and (match is None or match(sub)):
                        out.append((n, sub))
        return out

    def reachable(self, start, avoid=(), labels=None, skip_labels=(), forward=True):
        """Set of node ids reachable from start nodes (list of nodes or (node,label) out-edges)."""
        avoid_ids = {n.id for n in avoid}
        seen = set()
        todo = []
        for s in start:
            if isinstance(s, tuple):
                n, lab = s
                for (l, t) in n.succ:
                    if l == lab and t.id not in avoid_ids:
                        todo.append(t)
            else:
                todo.append(s)
        while todo:
            n = todo.pop()
            if n.id in seen or n.id in avoid_ids:
                continue
            seen.add(n.id)
            edges = n.succ if forward else n.pred
            for (l, t) in edges:
                if labels is not None and l not in labels:
                    continue
                if l in skip_labels:
                    continue
                todo.append(t)
        return seen

    def path(self, start_edges, goal, avoid=(), skip_labels=()):
        """A shortest path (list of (label,node)) from the given out-edges to a goal predicate, or None."""
        avoid_ids = {n.id for n in avoid}
        from collections import deque
        q = deque()
        prev = {}
        for (n, lab) in start_edges:
            for (l, t) in n.succ:
                if (lab is None or l == lab) and l not in skip_labels and t.id not in avoid_ids and t.id not in prev:
                    prev[t.id] = (None, l, t)
                    q.append(t)
        while q:
            n = q.popleft()
            if goal(n):
                out = []
                cur = n.id
                while cur is not None:
                    p, l, node = prev[cur]
                    out.append((l, node))
                    cur = p
                return list(reversed(out))
            for (l, t) in n.succ:
                if l in skip_labels or t.id in avoid_ids or t.id in prev:
                    continue
                prev[t.id] = (n.id, l, t)
                q.append(t)
        return None

    def dominators(self):
        """dom[n.id] = set of node ids dominating n (over all edge kinds)."""
        live = self.live
        ids = [n.id for n in live]
        allset = set(ids)
        dom = {i: set(allset) for i in ids}
        dom[self.entry.id] = {self.entry.id}
        changed = True
        order = live
        while changed:
            changed = False
            for n in order:
                if n is self.entry:
                    continue
                preds = [p.id for (_l, p) in n.pred]
                if preds:
                    new = set.intersection(*(dom[p] for p in preds)) | {n.id}
                else:
                    new = {n.id}
                if new != dom[n.id]:
                    dom[n.id] = new
                    changed = True
        return dom

    def dump(self):
        out = []
        for n in self.live:
            out.append("%3d %-10s %-60s -> %s" % (
                n.id, n.kind, n.text[:60], ", ".join("%s:%d" % (l, t.id) for l, t in n.succ)))
        return "\n".join(out)


def node_exprs(n):
    """Expressions evaluated *at* node n (not those of nested statements)."""
    a = n.ast
    if a is None:
        return []
    k = n.kind
    if k == "test":
        return [a]
    if k == "for":
        return [a.iter]
    if k == "with_enter":
        return [i.context_expr for i in a.items]
    if k in ("with_exit", "finally", "def", "dispatch", "join"):
        return []
    if k == "except":
        return [a.type] if a.type is not None else []
    if k == "raise":
        if isinstance(a, ast.Assert):
            return [a.msg] if a.msg else []
        return [x for x in (a.exc, a.cause) if x is not None]
    if k in ("stmt", "return", "yield", "break", "continue"):
        return [c for c in ast.iter_child_nodes(a) if isinstance(c, ast.expr)]
    return []


def walk_expr(e):
    """Walk an expression including comprehensions but not nested lambdas' bodies."""
    yield e
    for n in walk_local(e):
        yield n


def node_defs(n):
    """Names (re)bound at node n."""
    a = n.ast
    out = []
    if a is None:
        return out
    k = n.kind
    if k == "stmt":
        if isinstance(a, ast.Assign):
            for t in a.targets:
                out += _names(t)
        elif isinstance(a, (ast.AugAssign, ast.AnnAssign)):
            out += _names(a.target)
        elif isinstance(a, (ast.Import, ast.ImportFrom)):
            for al in a.names:
                out.append((al.asname or al.name).split(".")[0])
        # walrus
        for sub in walk_local(a):
            if isinstance(sub, ast.NamedExpr):
                out += _names(sub.target)
    elif k == "for":
        out += _names(a.target)
    elif k == "with_enter":
        for i in a.items:
            if i.optional_vars is not None:
                out += _names(i.optional_vars)
    elif k == "except":
        if a.name:
            out.append(a.name)
    elif k == "def":
        out.append(a.name)
    elif k in ("test", "return", "yield"):
        for sub in walk_expr(a):
            if isinstance(sub, ast.NamedExpr):
                out += _names(sub.target)
    return out


def _names(t):
    if isinstance(t, ast.Name):
        return [t.id]
    if isinstance(t, (ast.Tuple, ast.List)):
        out = []
        for e in t.elts:
            out += _names(e)
        return out
    if isinstance(t, ast.Starred):
        return _names(t.value)
    return []


def reaching_defs(cfg):
    """rd[node.id] = {name: frozenset(def node ids)} holding at entry of node.
    Parameters are defined at the entry node.  A node's own definitions do not hold on its exceptional
    (exc/close) out-edges: the assignment did not happen."""
    params = cfg.func.all_params
    IN = {n.id: {} for n in cfg.live}
    OUT = {n.id: {} for n in cfg.live}
    OUT[cfg.entry.id] = {p: frozenset([cfg.entry.id]) for p in params}
    work = list(cfg.live)
    inwork = {n.id for n in work}
    while work:
        n = work.pop(0)
        inwork.discard(n.id)
        if n is not cfg.entry:
            merged = {}
            for (l, p) in n.pred:
                src = IN[p.id] if (l in ("exc", "close") and p is not cfg.entry and p.kind != "except") else OUT[p.id]
                for k, v in src.items():
                    merged[k] = merged.get(k, frozenset()) | v
            changed_in = merged != IN[n.id]
            IN[n.id] = merged
            out = dict(merged)
            for d in node_defs(n):
                out[d] = frozenset([n.id])
        else:
            out = OUT[n.id]
            changed_in = True
        if out != OUT[n.id] or changed_in:
            OUT[n.id] = out
            for (_l, s) in n.succ:
                if s.id not in inwork:
                    work.append(s)
                    inwork.add(s.id)
    return IN


_cfg_cache = {}


def cfg_of(func):
    key = id(func)
    if key not in _cfg_cache:
        _cfg_cache[key] = CFG(func)
    return _cfg_cache[key]
