"""E5 part 2: the kind interpreter with exception effects.

A monotone abstract interpretation over the AST (structured: statements executed on abstract states, joins at merges, loops to a
bounded fixpoint, a few disjuncts kept apart when they differ in which names are bound or which iterators are exhausted).
Nothing from the repository is executed.  Every operation carries the precondition of the operation model (DESIGN Appendix C);
a violated precondition becomes an exception effect that flows to enclosing handlers by class and otherwise escapes.
"""
import ast

from .prog import Func, Cls, norm, walk_body, AnalysisError
from .kinds import AV, ANY, BOTTOM, JSON_KINDS, NUM, join, join_all, meet, const_av, Shapes
from .calls import calls_of, BUILTINS
from .model import is_subclass, covered, base_name, CALLEE_RAISES_ON_STR
from . import spec

ITERABLE = frozenset(["str", "list", "dict", "set", "tuple", "gen"])
HASHABLE = frozenset(["null", "bool", "int", "float", "str", "tuple", "sentinel", "func", "opaque"])
MAX_DEPTH = 7


class Raised:
    __slots__ = ("exc", "func", "node", "op", "operand", "chain")

    def __init__(self, exc, func, node, op, operand="", chain=()):
        self.exc = exc
        self.func = func
        self.node = node
        self.op = op
        self.operand = operand
        self.chain = chain

    def cat(self):
        """Position- and name-independent category of the operation (stable part of the description)."""
        return self.op.split(":")[0].split("(")[0].strip()

    def attributed(self):
        """The function a finding is filed under: where the operation sits, unless that is a private helper (`_name`) -- then the
        nearest non-private caller on the call chain.  A step of `resolve` split out as `_relative_to_scope` stays resolve's."""
        q = self.func.qual if self.func else "?"
        def private(qual):
            last = qual.split(".")[-1].split("[")[0]
            return last.startswith("_") and not last.startswith("__")
        if self.cat() == "text of an integer of unbounded size" and self.chain:
            # F-18 is a finding about an entry point (a keyword's message on an instance holding a huge integer): whether the text
            # is put together in the keyword function or in a shared helper it calls is the same finding
            return self.chain[0]
        if not private(q):
            return q
        for c in reversed([c for c in self.chain if c != q]):
            if not private(c):
                return c
        return q

    def key(self):
        return "%s|%s|%s" % (self.attributed(), self.exc, self.cat())

    def __repr__(self):
        return "<%s %s in %s>" % (self.exc, self.op, self.func.qual if self.func else "?")


class State:
    __slots__ = ("env", "present", "sib", "exhausted", "maybe_unbound")

    def __init__(self):
        self.env = {}
        self.present = set()      # (dictvar, keyrepr)
        self.sib = {}             # (schemavar, key) -> (AV or None, presence 'yes'|'no'|'maybe')
        self.exhausted = set()
        self.maybe_unbound = set()

    def copy(self):
        s = State()
        s.env = dict(self.env)
        s.present = set(self.present)
        s.sib = dict(self.sib)
        s.exhausted = set(self.exhausted)
        s.maybe_unbound = set(self.maybe_unbound)
        return s

    def signature(self):
        return (frozenset(self.env), frozenset(self.exhausted), frozenset(self.maybe_unbound))


def join_states(a, b):
    if a is None:
        return b
    if b is None:
        return a
    s = State()
    for k in set(a.env) | set(b.env):
        if k in a.env and k in b.env:
            s.env[k] = join(a.env[k], b.env[k])
        else:
            s.env[k] = a.env.get(k) or b.env.get(k)
            s.maybe_unbound.add(k)
    s.maybe_unbound |= a.maybe_unbound | b.maybe_unbound
    s.present = a.present & b.present
    for k in set(a.sib) & set(b.sib):
        (va, pa), (vb, pb) = a.sib[k], b.sib[k]
        v = join(va, vb) if (va is not None and vb is not None) else (va or vb)
        s.sib[k] = (v, pa if pa == pb else "maybe")
    s.exhausted = a.exhausted & b.exhausted
    return s


def merge_states(states, limit=6):
    """Merge states with the same signature; keep a few disjuncts apart."""
    by = {}
    for st in states:
        if st is None:
            continue
        sig = st.signature()
        by[sig] = join_states(by.get(sig), st) if sig in by else st
    out = list(by.values())
    while len(out) > limit:
        a = out.pop()
        out[-1] = join_states(out[-1], a)
    return out


class Flow:
    """Outcome of executing a block."""

    def __init__(self):
        self.next = []          # states falling through
        self.ret = []           # (state, AV)
        self.brk = []
        self.cont = []
        self.yields = []        # AVs


def obj(t):
    return AV(["obj:" + t])


def is_obj(av, t=None):
    for k in av.kinds:
        if k.startswith("obj:") and (t is None or k == "obj:" + t):
            return True
    return False


def obj_types(av):
    return [k[4:] for k in av.kinds if k.startswith("obj:")]


EMPTY_LIST = ("empty",)


class Interp:
    def __init__(self, prog, draft, assume_descend_raises=None):
        self.prog = prog
        self.calls = calls_of(prog)
        self.draft = draft
        self.dr = prog.tables.drafts[draft]
        self.shapes = Shapes(draft, self.dr.meta)
        self.schema_av = self.shapes.schema_av()
        self.allowed = {"RefResolutionError"} | ({"UnknownType"} if draft == "draft3" else set())
        self.stack = []                 # call stack of Funcs
        self.collectors = [[]]          # exception effect collectors (innermost last)
        self.memo = {}
        self.unmodelled = []            # operations outside the model (listed in evidence)
        self.obligations = 0
        self.notes = []
        self.type_truth = self._type_truth()
        self.cur_func = None
        self.schema_truthiness = []

    # ------------------------------------------------------------------ type predicates
    def _type_truth(self):
        from .rules.c01 import eval_type_fn
        out = {}
        for nm, fn in self.dr.types.items():
            t = {}
            for c in spec.CLASSES:
                t[c] = eval_type_fn(self.prog, fn, c)
            out[nm] = t
        return out

    def refine_by_type(self, av, tname, truth):
        """Restrict av to the value classes on which is_type(., tname) is `truth`."""
        tt = self.type_truth.get(tname)
        if tt is None:
            return av
        keep = set()
        cls_kind = {"null": "null", "bool": "bool", "int": "int", "intfloat": "float", "float": "float", "str": "str", "list": "list", "dict": "dict"}
        for c, v in tt.items():
            if v is None or v == truth:
                keep.add(cls_kind[c])
        internal = av.kinds - JSON_KINDS
        out = av.only((av.kinds & keep) | (internal if not truth else frozenset()))
        if truth and tname == "integer" and "float" in out.kinds:
            out = out.copy(integral_float=True)
        return out

    # ------------------------------------------------------------------ effects
    def raise_(self, exc, node, op, operand=""):
        self.collectors[-1].append(Raised(exc, self.cur_func, node, op, operand, tuple(f.qual for f in self.stack)))

    def need(self, cond, exc, node, op, operand=""):
        self.obligations += 1
        if not cond:
            self.raise_(exc, node, op, operand)

    # ------------------------------------------------------------------ calls
    def call_func(self, f, args, kwargs=None, node=None, self_av=None, present=frozenset(), sib=None, closure_env=None):
        """Analyse package function f on abstract arguments. Returns AV (for generators: a 'gen' of yielded values)."""
        kwargs = kwargs or {}
        if len(self.stack) >= MAX_DEPTH or self.stack.count(f) >= 2:
            self.unmodelled.append("recursion/inlining bound at %s" % f.qual)
            return AV(["opaque"])
        # is this call made for some inputs only (inside an if / loop / handler of the caller, or of a caller further up)?
        cstack = self.__dict__.setdefault("_cond_ctx", [])
        try:
            called_conditionally = node is not None and self.cur_func is not None and not isinstance(self.cur_func.node, ast.Lambda) and (
                self._always_reports(self.cur_func, node) or bool(cstack and cstack[-1]))
        except Exception:
            called_conditionally = True
        # a helper whose result flows into the caller's report: the caller's call site decides
        called_conditionally = bool(called_conditionally)
        key = (f.qual, tuple(a.describe() for a in args), tuple(sorted((k, v.describe()) for k, v in kwargs.items())), tuple(sorted(present, key=repr)),
               tuple(sorted(((k, (v[0].describe() if v[0] is not None else None, v[1])) for k, v in (sib or {}).items()), key=repr)), called_conditionally,
               tuple(sorted((k, v.describe()) for k, v in (closure_env or {}).items())) if closure_env else None)
        if key in self.memo:
            ret, effects, exit_facts = self.memo[key]
            self.collectors[-1].extend(effects)
            self.last_exit_facts = exit_facts
            return ret
        st = State()
        st.present |= set(present)
        st.sib.update(sib or {})
        params = f.params
        a = f.node.args
        defaults = dict(zip([x.arg for x in (a.posonlyargs + a.args)][-len(a.defaults):], a.defaults)) if a.defaults else {}
        for kwn, kwd in zip(a.kwonlyargs, a.kw_defaults):
            if kwd is not None:
                defaults[kwn.arg] = kwd
        i = 0
        bound = {}
        for p in params:
            if i < len(args):
                bound[p] = args[i]
                i += 1
        for k, v in kwargs.items():
            bound[k] = v
        saved_func = self.cur_func
        self.stack.append(f)
        self.cur_func = f
        self.collectors.append([])
        cstack.append(called_conditionally)
        if closure_env:
            for k, v in closure_env.items():
                st.env.setdefault(k, v)
        try:
            for p in params + [x.arg for x in a.kwonlyargs]:
                if p in bound:
                    st.env[p] = bound[p]
                elif p in defaults:
                    st.env[p] = self.eval(defaults[p], st)
                else:
                    st.env[p] = AV(["opaque"])
            if a.vararg:
                st.env[a.vararg.arg] = AV(["tuple"], elem=join_all(args[len(params):]) if len(args) > len(params) else BOTTOM)
            if a.kwarg:
                st.env[a.kwarg.arg] = AV(["dict"], vals=join_all([v for k, v in kwargs.items() if k not in params]) or BOTTOM)
            exit_facts = frozenset()
            fl = self.exec_block(f.body, [st])
            rets = [v for (_s, v) in fl.ret]
            # what every normal exit of the function knows about parsed URLs (see call_ext): handed back to the caller
            exits = [x for (x, _v) in fl.ret] + list(fl.next)
            if exits and not f.is_generator:
                common = None
                for x in exits:
                    mine = {ft for ft in x.present if ft[0] == "__url_ok__" or ft[0].endswith(".__url_ok_if_nonempty__")}
                    common = mine if common is None else (common & mine)
                exit_facts = frozenset(common or ())
            if f.is_generator:
                ret = AV(["gen"], elem=join_all(fl.yields) if fl.yields else BOTTOM)
            elif isinstance(f.node, ast.Lambda):
                ret = join_all(rets) if rets else AV(["null"])
            else:
                if fl.next:
                    rets.append(AV(["null"]))
                ret = join_all(rets) if rets else BOTTOM
        finally:
            effects = self.collectors.pop()
            self.stack.pop()
            self.cur_func = saved_func
            cstack.pop()
        # contextmanager generators behave like functions returning a context manager
        self.memo[key] = (ret, effects, exit_facts)
        self.collectors[-1].extend(effects)
        self.last_exit_facts = exit_facts
        return ret

    # ------------------------------------------------------------------ statements
    def exec_block(self, stmts, states):
        fl = Flow()
        cur = list(states)
        for st in stmts:
            if not cur:
                break
            nxt = []
            for s in cur:
                sub = self.exec_stmt(st, s)
                nxt += sub.next
                fl.ret += sub.ret
                fl.brk += sub.brk
                fl.cont += sub.cont
                fl.yields += sub.yields
            cur = merge_states(nxt)
        fl.next = cur
        return fl

    def exec_stmt(self, st, s):
        fl = Flow()
        if isinstance(st, ast.Expr):
            v = self.eval(st.value, s)
            if isinstance(st.value, ast.Yield):
                fl.yields.append(self._yield_value)
            elif isinstance(st.value, ast.YieldFrom):
                fl.yields.append(self._yield_value)
            fl.next = [s]
            return fl
        if isinstance(st, ast.Assign):
            v = self.eval(st.value, s)
            for t in st.targets:
                self.assign(t, v, s, st.value)
            fl.next = [s]
            return fl
        if isinstance(st, ast.AugAssign):
            cur = self.eval(st.target if isinstance(st.target, ast.Name) else st.target, s)
            v = self.binop(st.op, cur, self.eval(st.value, s), st, s)
            self.assign(st.target, v, s, None)
            fl.next = [s]
            return fl
        if isinstance(st, ast.AnnAssign):
            if st.value is not None:
                self.assign(st.target, self.eval(st.value, s), s, st.value)
            fl.next = [s]
            return fl
        if isinstance(st, ast.Return):
            v = self.eval(st.value, s) if st.value is not None else AV(["null"])
            fl.ret.append((s, v))
            return fl
        if isinstance(st, ast.Pass):
            fl.next = [s]
            return fl
        if isinstance(st, ast.Break):
            fl.brk.append(s)
            return fl
        if isinstance(st, ast.Continue):
            fl.cont.append(s)
            return fl
        if isinstance(st, ast.If):
            for (ts, truth) in self.branch(st.test, s):
                sub = self.exec_block(st.body if truth else st.orelse, [ts])
                self._merge(fl, sub)
            fl.next = merge_states(fl.next)
            return fl
        if isinstance(st, ast.For):
            return self.exec_for(st, s)
        if isinstance(st, ast.While):
            # bounded: treat like a loop whose body may run 0..n times
            states = [s]
            for _ in range(3):
                new = []
                for x in states:
                    for (ts, truth) in self.branch(st.test, x.copy()):
                        if truth:
                            sub = self.exec_block(st.body, [ts])
                            new += sub.next + sub.cont
                            fl.ret += sub.ret
                            fl.yields += sub.yields
                            fl.next += sub.brk
                        else:
                            fl.next.append(ts)
                states = merge_states(new)
                if not states:
                    break
            fl.next = merge_states(fl.next + states)
            return fl
        if isinstance(st, ast.Try):
            return self.exec_try(st, s)
        if isinstance(st, ast.With):
            for item in st.items:
                cm = self.eval(item.context_expr, s)
                if item.optional_vars is not None:
                    # a generator-based context manager yields its value
                    v = cm.elem_av() if "gen" in cm.kinds else (AV(["opaque"]) if not cm.kinds & JSON_KINDS else cm)
                    self.assign(item.optional_vars, v, s, None)
            sub = self.exec_block(st.body, [s])
            return sub
        if isinstance(st, ast.Raise):
            if st.exc is None:
                self.raise_("reraise", st, "raise")
            else:
                e = st.exc
                # evaluate constructor arguments for their own effects
                if isinstance(e, ast.Call):
                    for a in e.args:
                        self.eval(a, s)
                    for k in e.keywords:
                        self.eval(k.value, s)
                    name = base_name(norm(e.func))
                elif isinstance(e, ast.Name):
                    av = s.env.get(e.id)
                    name = "AnyException" if av is not None else base_name(e.id)
                    if av is not None and av.const and av.const[0] == "exc":
                        name = av.const[1]
                    elif av is not None and av.kinds and av.kinds <= frozenset(["err", "null"]):
                        name = "ValidationError"     # an error object produced by validation
                else:
                    name = base_name(norm(e))
                self.raise_(name, st, "raise %s" % name)
            return fl
        if isinstance(st, (ast.FunctionDef, ast.ClassDef)):
            nested = self.cur_func.nested.get(st.name) if (self.cur_func is not None and isinstance(st, ast.FunctionDef)) else None
            if isinstance(nested, Func) and nested.node is st:
                # a local function: calling it (directly, or through reduce/map) analyses its body; the enclosing function's
                # variables it reads are unknown there (opaque), which can only add effects
                s.env[st.name] = AV(["func"], const=("func", nested))
            else:
                s.env[st.name] = AV(["func"])
            fl.next = [s]
            return fl
        if isinstance(st, (ast.Import, ast.ImportFrom)):
            for al in st.names:
                s.env[(al.asname or al.name).split(".")[0]] = AV(["module"])
            self.raise_("ImportError", st, "import")
            fl.next = [s]
            return fl
        if isinstance(st, ast.Assert):
            for (ts, truth) in self.branch(st.test, s):
                if truth:
                    fl.next.append(ts)
                else:
                    self.raise_("AssertionError", st, "assert")
            return fl
        if isinstance(st, ast.Delete):
            for t in st.targets:
                if isinstance(t, ast.Subscript):
                    self.eval(ast.Subscript(value=t.value, slice=t.slice, ctx=ast.Load()), s)
            fl.next = [s]
            return fl
        if isinstance(st, (ast.Global, ast.Nonlocal)):
            fl.next = [s]
            return fl
        self.unmodelled.append("statement %s in %s" % (type(st).__name__, self.cur_func.qual))
        fl.next = [s]
        return fl

    def _merge(self, fl, sub):
        fl.next += sub.next
        fl.ret += sub.ret
        fl.brk += sub.brk
        fl.cont += sub.cont
        fl.yields += sub.yields

    def exec_for(self, st, s):
        fl = Flow()
        it_av = self.iterable(st.iter, s)
        itname = st.iter.id if isinstance(st.iter, ast.Name) else None
        exhausted_before = itname is not None and itname in s.exhausted
        elem = self.iter_elem(st.iter, it_av, s)
        known_empty = exhausted_before or (it_av.const == EMPTY_LIST) or elem.empty
        entry = s
        loop_states = []
        if not known_empty:
            cur = [s.copy()]
            seen_sigs = set()
            for _round in range(4):
                body_in = []
                for x in cur:
                    x = x.copy()
                    self.assign(st.target, elem, x, None, loopvar_of=st.iter)
                    body_in.append(x)
                sub = self.exec_block(st.body, body_in)
                fl.ret += sub.ret
                fl.yields += sub.yields
                fl.brk += sub.brk
                after = merge_states(sub.next + sub.cont)
                loop_states += after
                # next round starts from the join of what we have seen
                nxt = merge_states(after)
                sig = tuple(sorted((tuple(sorted(x.env)), tuple(sorted((k, v.describe()) for k, v in x.env.items()))) for x in nxt))
                if sig in seen_sigs or not nxt:
                    break
                seen_sigs.add(sig)
                cur = nxt
        # exhaustion: zero iterations (entry) or after some iterations
        ex_states = []
        zero_possible = not (it_av.nonempty and not exhausted_before) or known_empty
        if zero_possible or known_empty:
            ex_states.append(entry.copy())
        ex_states += [x.copy() for x in loop_states]
        for x in ex_states:
            if itname is not None and ("gen" in it_av.kinds):
                x.exhausted.add(itname)
        ex_states = merge_states(ex_states)
        if st.orelse:
            sub = self.exec_block(st.orelse, ex_states)
            self._merge(fl, sub)
        else:
            fl.next += ex_states
        fl.next += fl.brk
        fl.brk = []
        fl.next = merge_states(fl.next)
        return fl

    def exec_try(self, st, s):
        fl = Flow()
        before = s.copy()
        self.collectors.append([])
        sub = self.exec_block(st.body, [s])
        effects = self.collectors.pop()
        body_next = sub.next
        if st.orelse and body_next:
            sub2 = self.exec_block(st.orelse, body_next)
            body_next = sub2.next
            fl.ret += sub2.ret
            fl.yields += sub2.yields
            fl.brk += sub2.brk
            fl.cont += sub2.cont
        fl.ret += sub.ret
        fl.yields += sub.yields
        fl.brk += sub.brk
        fl.cont += sub.cont
        outs = list(body_next)
        # distribute effects over handlers
        remaining = list(effects)
        for h in st.handlers:
            names = self._handler_names(h, before)
            caught = [e for e in remaining if self._catches(e.exc, names)]
            remaining = [e for e in remaining if e not in caught]
            if not caught:
                continue
            hs = join_states(before.copy(), merge_to_one(sub.next + [x for (x, _v) in sub.ret])) or before.copy()
            hs = before.copy() if hs is None else hs
            # names assigned in the body may or may not be bound when the handler runs
            if h.name:
                excs = sorted({e.exc for e in caught})
                hs.env[h.name] = AV(["err"], const=("exc", excs[0] if len(excs) == 1 else "AnyException"))
            self._caught_ctx = caught
            subh = self.exec_block(h.body, [hs])
            # a bare `raise` inside the handler re-raises what was caught
            self._merge(fl, Flow())
            outs += subh.next
            fl.ret += subh.ret
            fl.yields += subh.yields
            fl.brk += subh.brk
            fl.cont += subh.cont
            # translate 'reraise' effects produced inside the handler
            col = self.collectors[-1]
            for e in list(col):
                if e.exc == "reraise" and e.node in list(ast.walk(h)):
                    col.remove(e)
                    for c in caught:
                        col.append(c)
        self.collectors[-1].extend(remaining)
        if st.finalbody:
            fin_in = merge_states(outs) or []
            # the finally body also runs on the exceptional/return paths: analyse it once more on the entry state for effects
            subf = self.exec_block(st.finalbody, fin_in if fin_in else [before.copy()])
            outs = subf.next if fin_in else []
            fl.ret += subf.ret
            if fin_in and (remaining or fl.ret):
                self.exec_block(st.finalbody, [before.copy()])
        fl.next = merge_states(outs)
        return fl

    def _handler_names(self, h, s):
        if h.type is None:
            return ["BaseException"]
        elts = h.type.elts if isinstance(h.type, ast.Tuple) else [h.type]
        out = []
        for e in elts:
            if isinstance(e, ast.Name) and e.id in s.env and "opaque" in s.env[e.id].kinds:
                out.append("<dynamic:%s>" % e.id)
            else:
                out.append(base_name(norm(e)))
        return out

    def _catches(self, exc, names):
        if exc == "reraise":
            return False
        for n in names:
            if n.startswith("<dynamic:"):
                # `except raises as e` in FormatChecker.check: by contract catches what the checker lists; what it does not list
                # propagates by design (C12) and is outside C03
                if exc == "CheckerRaises":
                    return True
                continue
            if is_subclass(exc, n):
                return True
        return False

    # ------------------------------------------------------------------ assignment
    def assign(self, target, v, s, value_expr, loopvar_of=None):
        if isinstance(target, ast.Name):
            s.env[target.id] = v
            s.maybe_unbound.discard(target.id)
            s.exhausted.discard(target.id)
            # facts about the old binding die
            s.present = {(d, k) for (d, k) in s.present if d != target.id and not d.startswith(target.id + ".") and k != ("n", target.id)}
            s.sib = {k: val for k, val in s.sib.items() if k[0] != target.id}
            return
        if isinstance(target, (ast.Tuple, ast.List)):
            if v.empty:
                for t in target.elts:
                    self.assign(t, BOTTOM, s, None)
                return
            if v.items is not None and len(v.items) == len(target.elts) and v.kinds == frozenset(["tuple"]):
                for t, x in zip(target.elts, v.items):
                    self.assign(t, x, s, None)
            else:
                self.need(bool(v.kinds) and v.kinds <= ITERABLE | frozenset(["opaque"]), "TypeError", target, "unpack", v.describe())
                if isinstance(value_expr, ast.Call) and isinstance(value_expr.func, ast.Attribute) and value_expr.func.attr in ("split", "rsplit", "splitlines") \
                        and not any(isinstance(t, ast.Starred) for t in target.elts):
                    # `a, b = text.split("#")`: as many parts as the data has separators -- one '#' too many, or none, and the unpacking fails
                    self.need(False, "ValueError", target, "unpacking the parts of a str.split into a fixed number of names", norm(value_expr)[:50])
                e = v.elem_av() if v.kinds & ITERABLE else AV(["opaque"])
                for t in target.elts:
                    self.assign(t, e, s, None)
            return
        if isinstance(target, ast.Subscript):
            base = self.eval(target.value, s)
            self.eval(target.slice, s)
            if base.kinds & frozenset(["null", "bool", "int", "float", "str"]):
                self.need(False, "TypeError", target, "item assignment", base.describe())
            return
        if isinstance(target, ast.Attribute):
            self.eval(target.value, s)
            return
        if isinstance(target, ast.Starred):
            self.assign(target.value, AV(["list"], elem=v), s, None)

    # ------------------------------------------------------------------ branching
    def truthiness(self, av):
        """(may_be_true, may_be_false)"""
        if av.empty:
            return (False, False)
        if av.const is not None:
            if av.const == EMPTY_LIST:
                return (False, True)
            if av.const[0] == "c":
                return (bool(av.const[1]), not bool(av.const[1]))
        t = f = False
        for k in av.kinds:
            if k == "null":
                f = True
            elif k in ("bool", "int", "float"):
                t = True
                if not (av.pos and k != "bool"):
                    f = True
            elif k in ("str", "list", "dict", "set", "tuple"):
                t = True
                if not av.nonempty:
                    f = True
            else:
                t = True
                if k in ("opaque",):
                    f = True
        return (t, f)

    def branch(self, test, s):
        """[(state, truth)] for the feasible outcomes of a condition."""
        if isinstance(test, ast.BoolOp):
            if isinstance(test.op, ast.And):
                outs = []
                cur = [s]
                for v in test.values:
                    nxt = []
                    for x in cur:
                        for (ts, truth) in self.branch(v, x):
                            if truth:
                                nxt.append(ts)
                            else:
                                outs.append((ts, False))
                    cur = nxt
                outs += [(x, True) for x in cur]
                return outs
            outs = []
            cur = [s]
            for v in test.values:
                nxt = []
                for x in cur:
                    for (ts, truth) in self.branch(v, x):
                        if truth:
                            outs.append((ts, True))
                        else:
                            nxt.append(ts)
                cur = nxt
            outs += [(x, False) for x in cur]
            return outs
        if isinstance(test, ast.UnaryOp) and isinstance(test.op, ast.Not):
            return [(ts, not truth) for (ts, truth) in self.branch(test.operand, s)]
        # <regex>.fullmatch(x) is not None  ==  the match object is truthy
        if isinstance(test, ast.Compare) and len(test.ops) == 1 and isinstance(test.ops[0], (ast.Is, ast.IsNot)) \
                and isinstance(test.comparators[0], ast.Constant) and test.comparators[0].value is None \
                and isinstance(test.left, ast.Call) and isinstance(test.left.func, ast.Attribute) and test.left.func.attr in ("fullmatch", "match", "search"):
            outs = self.branch(test.left, s)
            return outs if isinstance(test.ops[0], ast.IsNot) else [(ts, not truth) for (ts, truth) in outs]
        # a package predicate `def p(a, b): [if c: return K]* return E` called on plain arguments: what its answer tells about the
        # arguments is what c and E tell, with the parameters replaced by the arguments
        inl = self._inline_predicate(test, s)
        if inl is not None:
            self.eval(test, s)          # the call itself, for its effects
            guards, final = inl
            outs, cur = [], [s]
            for (c, k) in guards:
                nxt = []
                for x in cur:
                    for (ts, truth) in self.branch(c, x):
                        if truth:
                            outs.append((ts, bool(k)))
                        else:
                            nxt.append(ts)
                cur = nxt
            for x in cur:
                outs += self.branch(final, x)
            return outs
        # atomic
        v = self.eval(test, s)
        outs = []
        for truth in (True, False):
            ts = self.refine(test, v, truth, s.copy())
            if ts is not None:
                tag = getattr(v, "norm_tag", None)
                if not truth and isinstance(tag, str) and tag.startswith("checker-result:") and self.checkers_pass_non_strings():
                    # the answer of a registered format function is falsy only for strings: every built-in one returns True for
                    # anything else before it looks at the value (R12.5 decides that; custom checkers are outside the package)
                    arg = tag.split(":", 1)[1]
                    cur = ts.env.get(arg)
                    if cur is not None and cur.kinds - frozenset(["str"]):
                        only = cur.only(["str"])
                        if only.empty:
                            continue
                        ts.env[arg] = only
                outs.append((ts, truth))
        return outs

    def checkers_pass_non_strings(self):
        if not hasattr(self.prog, "_checkers_guard"):
            ok = False
            try:
                from .formats import format_registry
                from .rules.c12 import string_guard_verdict
                from .rules.fmtsem import guard_eval
                ok = True
                seen = set()
                for ent in format_registry(self.prog):
                    if ent.func in seen or not ent.present:
                        continue
                    seen.add(ent.func)
                    if string_guard_verdict(ent.func) is not None and guard_eval(self.prog, ent.func) is not None:
                        ok = False
            except Exception:
                ok = False
            self.prog._checkers_guard = ok
        return self.prog._checkers_guard

    def _inline_predicate(self, test, s, _depth=[0]):
        if not isinstance(test, ast.Call) or test.keywords or _depth[0] > 2:
            return None
        if not all(isinstance(a, (ast.Name, ast.Constant)) or (isinstance(a, ast.Attribute) and isinstance(a.value, ast.Name)) for a in test.args):
            return None
        try:
            tg = self.calls.callee(self.cur_func, test)
        except Exception:
            return None
        gs = [t.func for t in tg if t.kind == "func" and t.func is not None]
        if len(gs) != 1 or len(tg) != 1:
            return None
        g = gs[0]
        if g.cls is not None or g.is_generator or isinstance(g.node, ast.Lambda) or len(g.params) != len(test.args):
            return None
        body = [st for st in g.body if not (isinstance(st, ast.Expr) and isinstance(st.value, ast.Constant))]
        if not body or not isinstance(body[-1], ast.Return) or body[-1].value is None:
            return None
        guards = []
        for st in body[:-1]:
            if isinstance(st, ast.If) and not st.orelse and len(st.body) == 1 and isinstance(st.body[0], ast.Return) \
                    and isinstance(st.body[0].value, ast.Constant) and isinstance(st.body[0].value.value, bool):
                guards.append((st.test, st.body[0].value.value))
            else:
                return None
        binding = dict(zip(g.params, test.args))
        # every other name the predicate uses must mean the same at the call site (module-level names of the same module)
        if g.mod is not self.cur_func.mod:
            return None

        class Sub(ast.NodeTransformer):
            def visit_Name(self, n):
                if n.id in binding and isinstance(n.ctx, ast.Load):
                    return ast.copy_location(copy.deepcopy(binding[n.id]), n)
                return n
        import copy
        local_names = {n.id for st in body for n in ast.walk(st) if isinstance(n, ast.Name) and isinstance(n.ctx, ast.Store)}
        if local_names:
            return None
        out_g = [(ast.fix_missing_locations(Sub().visit(copy.deepcopy(c))), k) for (c, k) in guards]
        final = ast.fix_missing_locations(Sub().visit(copy.deepcopy(body[-1].value)))
        return out_g, final

    def refine(self, test, v, truth, s):
        """Refine state s under `test` being `truth`; None if infeasible."""
        mt, mf = self.truthiness(v)
        if truth and not mt:
            return None
        if not truth and not mf:
            return None
        # `name.startswith("<non-empty text>")` holding: name is not empty (turns "the URL was parsed unless name is empty" into a fact)
        if truth and isinstance(test, ast.Call) and isinstance(test.func, ast.Attribute) and test.func.attr == "startswith" \
                and isinstance(test.func.value, ast.Name) and len(test.args) == 1 and isinstance(test.args[0], ast.Constant) \
                and isinstance(test.args[0].value, str) and test.args[0].value:
            for (d, k) in list(s.present):
                if d == test.func.value.id + ".__url_ok_if_nonempty__":
                    s.present.add(("__url_ok__", k[1]))
        # type(x) is T / is not T / == T: exact class test on a JSON value
        if isinstance(test, ast.Compare) and len(test.ops) == 1 and isinstance(test.ops[0], (ast.Is, ast.IsNot, ast.Eq, ast.NotEq)):
            l, r = test.left, test.comparators[0]

            def type_call(x):
                # `type(v)` itself, or a local bound once to it (kind = type(element); if kind is list: ...)
                if isinstance(x, ast.Name) and self.cur_func is not None and x.id not in ("bool", "int", "float", "str", "list", "dict"):
                    defs = [n.value for n in walk_body(self.cur_func) if isinstance(n, ast.Assign) and len(n.targets) == 1
                            and isinstance(n.targets[0], ast.Name) and n.targets[0].id == x.id]
                    if len(defs) == 1:
                        return defs[0]
                return x
            l, r = type_call(l), type_call(r)
            for a, b in ((l, r), (r, l)):
                if isinstance(a, ast.Call) and isinstance(a.func, ast.Name) and a.func.id == "type" and len(a.args) == 1 and isinstance(b, ast.Name) \
                        and b.id in ("bool", "int", "float", "str", "list", "dict"):
                    cur = self.peek(a.args[0], s)
                    if cur is not None:
                        eq = truth == isinstance(test.ops[0], (ast.Is, ast.Eq))
                        new = cur.only([b.id]) if eq else cur.without([b.id])
                        if new.empty:
                            return None
                        self.poke(a.args[0], new, s)
                    return s
        # is / is not a module-level marker object (`_MISSING = object()`; `x = d.get(k, _MISSING); if x is _MISSING: ...`)
        if isinstance(test, ast.Compare) and len(test.ops) == 1 and isinstance(test.ops[0], (ast.Is, ast.IsNot)) and isinstance(test.comparators[0], ast.Name) \
                and self.cur_func is not None and test.comparators[0].id not in s.env:
            rr = self.prog.resolve_name(self.cur_func.mod, test.comparators[0].id, self.cur_func)
            if isinstance(rr, tuple) and rr[0] == "expr" and self.module_value(rr[1], test.comparators[0].id, rr[2]).kinds == frozenset(["sentinel"]):
                cur = self.peek(test.left, s)
                if cur is not None:
                    eq = truth == isinstance(test.ops[0], ast.Is)
                    new = cur.only(["sentinel"]) if eq else cur.without(["sentinel"])
                    if new.empty:
                        return None
                    self.poke(test.left, new, s)
                return s
        # is / is not with constants
        if isinstance(test, ast.Compare) and len(test.ops) == 1:
            op, l, r = test.ops[0], test.left, test.comparators[0]
            if isinstance(op, (ast.Is, ast.IsNot)) and isinstance(r, ast.Constant):
                eq = truth == isinstance(op, ast.Is)
                cv = r.value
                cur = self.peek(l, s)
                if cur is not None:
                    kind = "null" if cv is None else ("bool" if cv in (True, False) else None)
                    if kind:
                        if eq:
                            new = cur.only([kind])
                            if new.empty:
                                return None
                            if cv is not None:
                                if cv not in cur.bools:
                                    return None
                                new = new.copy(const=("c", cv))
                                new.bools = frozenset([cv])
                        else:
                            if kind == "null":
                                new = cur.without(["null"])
                            else:
                                left = cur.bools - {cv}
                                if "bool" in cur.kinds and not left:
                                    new = cur.without(["bool"])
                                else:
                                    new = cur.copy(const=None if cur.const == ("c", cv) else cur.const)
                                    new.bools = left or cur.bools
                                    if new.kinds == frozenset(["bool"]) and len(new.bools) == 1:
                                        new = new.copy(const=("c", list(new.bools)[0]))
                            if new.empty:
                                return None
                        self.poke(l, new, s)
                return s
            if isinstance(op, (ast.In, ast.NotIn)):
                present = truth == isinstance(op, ast.In)
                # the test completed without raising: the right operand is not a scalar
                rc = self.peek(r, s)
                if rc is not None and (rc.kinds & frozenset(["null", "bool", "int", "float"])):
                    nr = rc.without(["null", "bool", "int", "float"])
                    if nr.empty:
                        return None
                    self.poke(r, nr, s)
                if isinstance(r, (ast.Name, ast.Attribute)):
                    kr = self.keyrepr(l)
                    cname = norm(r)
                    if kr is not None:
                        if present:
                            s.present.add((cname, kr))
                            if isinstance(l, ast.Name) and l.id in s.env and "str" in s.env[l.id].kinds:
                                s.env[l.id] = s.env[l.id].copy(keys_of=s.env[l.id].keys_of | {cname})
                        # sibling presence on a schema variable
                        rv = s.env.get(r.id) if isinstance(r, ast.Name) else None
                        if rv is not None and rv.schema and isinstance(l, ast.Constant):
                            cur = s.sib.get((r.id, l.value), (None, "maybe"))
                            s.sib[(r.id, l.value)] = (cur[0], "yes" if present else "no")
                return s
            if isinstance(op, (ast.Eq, ast.NotEq)):
                return s
        if isinstance(test, ast.Call):
            f = test.func
            # validator.is_type(x, "T")
            tname = None
            if isinstance(f, ast.Attribute) and f.attr == "is_type" and len(test.args) == 2:
                if isinstance(test.args[1], ast.Constant):
                    tname = test.args[1].value
                else:
                    # a type name passed down as a parameter (helper(validator, instance, "array", ...)): one known string
                    tv = self.peek(test.args[1], s)
                    if tv is not None and tv.kinds == frozenset(["str"]) and tv.strs is not None and len(tv.strs) == 1:
                        tname = next(iter(tv.strs))
            if tname is not None:
                recv = self.eval_quiet(f.value, s)
                if is_obj(recv, "Validator"):
                    cur = self.peek(test.args[0], s)
                    if cur is not None:
                        new = self.refine_by_type(cur, tname, truth)
                        if new.empty:
                            return None
                        self.poke(test.args[0], new, s)
                    return s
            if isinstance(f, ast.Name) and f.id == "isinstance" and len(test.args) == 2:
                cur = self.peek(test.args[0], s)
                kinds = self.isinstance_kinds(test.args[1])
                if cur is not None and kinds is not None:
                    if truth:
                        new = cur.only(kinds | (cur.kinds - JSON_KINDS if not (cur.kinds & JSON_KINDS) else frozenset()))
                        if "Sequence" in norm(test.args[1]):
                            new = cur.only(frozenset(["list", "str", "tuple"]))
                    else:
                        exact = self.isinstance_exact(test.args[1])
                        new = cur.without(kinds) if exact else cur
                        if "Sequence" in norm(test.args[1]):
                            new = cur.without(["list", "str", "tuple"])
                    if new.empty:
                        return None
                    self.poke(test.args[0], new, s)
                return s
            if isinstance(f, ast.Name) and f.id == "any" or isinstance(f, ast.Name) and f.id == "all":
                return s
            # <compiled digits-only regex>.fullmatch(x) holds: x is a string of ASCII digits
            if isinstance(f, ast.Attribute) and f.attr == "fullmatch" and len(test.args) == 1 and truth:
                pat = self.regex_literal(f.value)
                cur = self.peek(test.args[0], s)
                if pat is not None and cur is not None and digits_only_regex(pat):
                    new = cur.only(["str"]).copy(nonempty=True)
                    if new.empty:
                        return None
                    new.norm_tag = "digits"
                    self.poke(test.args[0], new, s)
                return s
        # plain truthiness of a name / sibling read
        cur = self.peek(test, s)
        if cur is not None and cur.schema and "bool" in cur.kinds and "dict" in cur.kinds:
            # a (sub)schema used as a condition: the boolean schema `false` and the empty schema are falsy, yet both are schemas
            self.schema_truthiness.append((self.cur_func, test, cur.describe()))
        if cur is not None:
            new = self.refine_truth(cur, truth)
            if new is None or new.empty:
                return None
            self.poke(test, new, s)
            pl = self.sibling_place(test, s)
            if pl is not None and truth:
                var, key, dflt = pl
                if dflt is not None and self.truthiness(dflt) == (False, True):
                    val, _p = s.sib.get((var, key), (None, "maybe"))
                    s.sib[(var, key)] = (val, "yes")
        return s

    def refine_truth(self, av, truth):
        if truth:
            out = av.without(["null"])
            if out.const is not None and out.const[0] == "c" and not out.const[1]:
                return None
            if out.const == EMPTY_LIST:
                return None
            cont = out.kinds & frozenset(["str", "list", "dict", "set", "tuple"])
            nonc = out.kinds - cont
            # a truthy value: containers non-empty, numbers non-zero, booleans True
            if out.kinds == frozenset(["bool"]):
                out = out.copy(const=("c", True))
            if cont and not (nonc - frozenset(["bool", "int", "float"])):
                out = out.copy(nonempty=True)
            return out
        else:
            keep = set()
            for k in av.kinds:
                if k in ("null", "bool", "int", "float", "opaque"):
                    keep.add(k)
                elif k in ("str", "list", "dict", "set", "tuple") and not av.nonempty:
                    keep.add(k)
            out = av.only(keep)
            if out.kinds == frozenset(["bool"]):
                out = out.copy(const=("c", False))
            if out.kinds and out.kinds <= frozenset(["list"]):
                out = out.copy(const=EMPTY_LIST, elem=BOTTOM)
            return out

    def regex_literal(self, e):
        """The pattern text if e names a module-level re.compile(<constant>)."""
        r = self.prog.resolve_expr(self.cur_func.mod, e, self.cur_func)
        if isinstance(r, tuple) and r[0] == "expr" and isinstance(r[2], ast.Call) and norm(r[2].func) in ("re.compile", "compile") \
                and r[2].args and isinstance(r[2].args[0], ast.Constant) and isinstance(r[2].args[0].value, str):
            return r[2].args[0].value
        return None

    def isinstance_kinds(self, t):
        names = [norm(x).split(".")[-1] for x in (t.elts if isinstance(t, ast.Tuple) else [t])]
        m = {"str": {"str"}, "bool": {"bool"}, "int": {"int", "bool"}, "float": {"float"}, "list": {"list"}, "dict": {"dict"},
             "Number": {"int", "float", "bool"}, "tuple": {"tuple"}, "Sequence": {"list", "str", "tuple"}, "Mapping": {"dict"},
             "NoneType": {"null"}, "set": {"set"}}
        out = set()
        for n in names:
            if n not in m:
                return None
            out |= m[n]
        return frozenset(out)

    def isinstance_exact(self, t):
        return True

    def keyrepr(self, e):
        if isinstance(e, ast.Constant):
            return ("c", e.value)
        if isinstance(e, ast.Name):
            return ("n", e.id)
        return None

    # peek/poke: read and write the abstract value of a *refinable place* (a local name or a sibling read on a schema variable)
    def attr_place(self, e, s):
        """`name.attr` on a typed object variable: refinable like a local."""
        if isinstance(e, ast.Attribute) and isinstance(e.value, ast.Name) and e.value.id in s.env and \
                any(k.startswith("obj:") or k == "err" for k in s.env[e.value.id].kinds):
            return (e.value.id, "." + e.attr)
        return None

    def peek(self, e, s):
        if isinstance(e, ast.Name):
            return s.env.get(e.id)
        ap = self.attr_place(e, s)
        if ap is not None:
            if ap in s.sib and s.sib[ap][0] is not None:
                return s.sib[ap][0]
            return self.eval_quiet(e, s)
        pl = self.sibling_place(e, s)
        if pl is not None:
            var, key, dflt = pl
            val, pres = self.sib_value(var, key, s)
            parts = []
            if pres != "no":
                parts.append(val)
            if pres != "yes" and dflt is not None:
                parts.append(dflt)
            return join_all(parts) if parts else BOTTOM
        return None

    def poke(self, e, new, s):
        if isinstance(e, ast.Name):
            s.env[e.id] = new
            return
        ap = self.attr_place(e, s)
        if ap is not None:
            s.sib[ap] = (new, "yes")
            return
        pl = self.sibling_place(e, s)
        if pl is not None:
            var, key, dflt = pl
            val, pres = self.sib_value(var, key, s)
            if isinstance(key, tuple) and key and key[0] == "var":
                return
            nv = val.only(new.kinds) if val is not None else new
            if new.nonempty and not nv.empty:
                nv = nv.copy(nonempty=True)
            npres = pres
            if dflt is not None and not (dflt.kinds & new.kinds):
                npres = "yes"
            elif dflt is not None and dflt.kinds & new.kinds and dflt.const == EMPTY_LIST and new.nonempty:
                npres = "yes"
            if nv.empty and pres != "yes":
                npres = "no"
            s.sib[(var, key)] = (nv, npres)

    def sibling_place(self, e, s):
        """(schema var, key, default AV or None) if e is schema.get("K"[, D]) / schema["K"] on a schema-shaped variable."""
        if isinstance(e, ast.Call) and isinstance(e.func, ast.Attribute) and e.func.attr == "get" and isinstance(e.func.value, ast.Name) \
                and e.args and isinstance(e.args[0], ast.Constant):
            var = e.func.value.id
            v = s.env.get(var)
            if v is not None and v.schema:
                d = self.eval_quiet(e.args[1], s) if len(e.args) > 1 else AV(["null"])
                return (var, e.args[0].value, d)
        if isinstance(e, ast.Call) and isinstance(e.func, ast.Attribute) and e.func.attr == "get" and isinstance(e.func.value, ast.Name) \
                and e.args and isinstance(e.args[0], ast.Name):
            var = e.func.value.id
            v = s.env.get(var)
            kv = s.env.get(e.args[0].id)
            if v is not None and v.schema and kv is not None and kv.strs is not None and kv.kinds <= frozenset(["str"]):
                d = self.eval_quiet(e.args[1], s) if len(e.args) > 1 else AV(["null"])
                return (var, ("var", e.args[0].id, tuple(sorted(kv.strs))), d)
        if isinstance(e, ast.Subscript) and isinstance(e.value, ast.Name) and isinstance(e.slice, ast.Constant):
            var = e.value.id
            v = s.env.get(var)
            if v is not None and v.schema:
                return (var, e.slice.value, None)
        if isinstance(e, ast.Subscript) and isinstance(e.value, ast.Name) and isinstance(e.slice, ast.Name):
            # schema[<local that only holds a few constant names>]
            var = e.value.id
            v = s.env.get(var)
            kv = s.env.get(e.slice.id)
            if v is not None and v.schema and kv is not None and kv.strs is not None and kv.kinds <= frozenset(["str"]):
                return (var, ("var", e.slice.id, tuple(sorted(kv.strs))), None)
        return None

    def sib_value(self, var, key, s):
        if isinstance(key, tuple) and key and key[0] == "var":
            _tag, kname, values = key
            pres = "yes" if (var, ("n", kname)) in s.present else "maybe"
            return (join_all([self.shapes.keyword(k) for k in values]), pres)
        if (var, key) in s.sib and s.sib[(var, key)][0] is not None:
            return s.sib[(var, key)]
        pres = s.sib.get((var, key), (None, "maybe"))[1]
        if ("%s" % var, ("c", key)) in s.present:
            pres = "yes"
        v = s.env.get(var)
        shapes = self.shapes if (v is None or v.schema == self.draft) else self.shapes
        return (shapes.keyword(key), pres)

    def eval_quiet(self, e, s):
        """Evaluate without recording effects (used for re-evaluation during refinement)."""
        self.collectors.append([])
        saved = self.obligations
        try:
            return self.eval(e, s)
        finally:
            self.collectors.pop()
            self.obligations = saved

    # ------------------------------------------------------------------ iteration
    def iterable(self, e, s):
        v = self.eval(e, s)
        bad = v.kinds - ITERABLE - frozenset(["opaque"]) - frozenset(k for k in v.kinds if k.startswith("obj:"))
        self.need(not bad, "TypeError", e, "iterate: %s" % norm(e)[:40], v.describe())
        return v

    def iter_elem(self, e, v, s):
        """Element AV when iterating expression e with value v (adds key-of facts)."""
        if isinstance(e, ast.Name) and e.id in s.exhausted:
            return BOTTOM
        el = v.elem_av()
        if isinstance(e, ast.Name) and "dict" in v.kinds:
            # iterating a dict variable yields its keys
            k = AV(["str"], keys_of=[e.id])
            others = v.without(["dict"])
            el = join(k, others.elem_av()) if others.kinds & ITERABLE else k
        return el

    # ------------------------------------------------------------------ expressions
    def eval(self, e, s):
        m = getattr(self, "ev_" + type(e).__name__, None)
        if m is None:
            self.unmodelled.append("expression %s in %s" % (type(e).__name__, self.cur_func.qual if self.cur_func else "?"))
            return AV(["opaque"])
        return m(e, s)

    def ev_Constant(self, e, s):
        return const_av(e.value)

    def ev_Name(self, e, s):
        if e.id in s.env:
            if e.id in s.maybe_unbound:
                self.need(False, "UnboundLocalError", e, "read of possibly unbound local: %s" % e.id)
            return s.env[e.id]
        # closure / module level
        f = self.cur_func
        o = f.outer if f else None
        r = self.prog.resolve_name(f.mod, e.id, f) if f else None
        if isinstance(r, Func):
            return AV(["func"], const=("func", r))
        if isinstance(r, Cls):
            tag = self.calls.cls_type.get(r.qual)
            return AV(["cls:" + (tag or r.name)], const=("cls", r))
        if isinstance(r, tuple):
            if r[0] in ("module", "ext"):
                return AV(["module"], const=("ext", r[1]))
            if r[0] == "expr":
                return self.module_value(r[1], e.id, r[2])
        if e.id in ("True", "False", "None"):
            return const_av({"True": True, "False": False, "None": None}[e.id])
        if e.id in BUILTINS or e.id in ("Exception", "ValueError", "TypeError", "KeyError", "IndexError", "LookupError", "OverflowError",
                                        "NotImplementedError", "AttributeError", "DeprecationWarning", "UnicodeError", "UnicodeDecodeError", "IOError", "OSError", "ImportError"):
            return AV(["func"], const=("builtin", e.id))
        # closure variables of enclosing functions (create()'s parameters)
        while o is not None:
            if e.id in o.all_params:
                if e.id == "id_of":
                    return AV(["func"], const=("id_of",))
                return AV(["opaque"])
            o = o.outer
        self.unmodelled.append("name %s in %s" % (e.id, f.qual if f else "?"))
        return AV(["opaque"])

    def module_value(self, mod, name, expr):
        """Abstract value of a module-level binding."""
        if name == "meta_schemas":
            return AV(["obj:URIDict"], vals=AV(["cls:Validator"]))
        if name == "validators":
            return AV(["dict"], vals=AV(["cls:Validator"]))
        if name == "_unset" or (isinstance(expr, ast.Call) and norm(expr.func) == "object" and not expr.args and not expr.keywords):
            return AV(["sentinel"])          # a private marker object: equal and identical only to itself
        if name in ("WEAK_MATCHES", "STRONG_MATCHES"):
            return AV(["set"], elem=AV(["str"]))
        if name == "_LATEST_VERSION" or (isinstance(expr, ast.Call) and norm(expr.func) == "create"):
            return AV(["cls:Validator"])
        if isinstance(expr, ast.Call) and norm(expr.func).startswith("re.compile"):
            return AV(["obj:Pattern"])
        if isinstance(expr, ast.Call) and norm(expr.func) == "FormatChecker":
            return obj("FormatChecker")
        if isinstance(expr, (ast.Constant,)):
            return const_av(expr.value)
        if isinstance(expr, ast.Dict) and expr.keys and all(isinstance(k, ast.Constant) for k in expr.keys):
            # a module-level table with literal keys: its key set and (joined) values
            vals = join_all([self._module_expr(mod, v) for v in expr.values])
            return AV(["dict"], vals=vals, nonempty=True, const=("keys", frozenset(k.value for k in expr.keys)))
        if isinstance(expr, ast.Dict) or (isinstance(expr, ast.Call) and norm(expr.func) == "dict"):
            return AV(["dict"], vals=AV(["opaque"]))
        if isinstance(expr, ast.Call):
            # NAME = factory(...): a package function whose every return hands back its one nested def (relevance = by_relevance())
            F = self.prog.resolve_expr(mod, expr.func)
            if isinstance(F, Func):
                inner = [x for x in F.nested.values() if isinstance(x, Func)]
                rets = [n for n in walk_body(F) if isinstance(n, ast.Return)]
                if len(inner) == 1 and rets and all(isinstance(x.value, ast.Name) and x.value.id == inner[0].name for x in rets):
                    return AV(["func"], const=("func", inner[0]))
        if isinstance(expr, ast.Call) and norm(expr.func).endswith("by_relevance"):
            return AV(["func"])
        if isinstance(expr, ast.Attribute):
            return AV(["func"], const=("ext", norm(expr)))
        return AV(["opaque"])

    def _module_expr(self, mod, expr):
        """a value written inside a module-level table literal"""
        if isinstance(expr, ast.Constant):
            return const_av(expr.value)
        if isinstance(expr, ast.Tuple):
            items = tuple(self._module_expr(mod, x) for x in expr.elts)
            return AV(["tuple"], items=items, elem=join_all(items) if items else BOTTOM, nonempty=bool(items))
        if isinstance(expr, ast.Attribute) and isinstance(expr.value, ast.Name):
            r = self.prog.resolve_name(mod, expr.value.id, None)
            if isinstance(r, tuple) and r[0] in ("module", "ext"):
                return AV(["func"], const=("ext", "%s.%s" % (r[1], expr.attr)))
        if isinstance(expr, ast.Name):
            r = self.prog.resolve_name(mod, expr.id, None)
            if isinstance(r, Func):
                return AV(["func"], const=("func", r))
        return AV(["opaque"])

    def ev_Tuple(self, e, s):
        items = tuple(self.eval(x, s) for x in e.elts)
        return AV(["tuple"], items=items, elem=join_all(items) if items else BOTTOM, nonempty=bool(items))

    def ev_List(self, e, s):
        items = [self.eval(x, s) for x in e.elts]
        if not items:
            return AV(["list"], elem=BOTTOM, const=EMPTY_LIST)
        return AV(["list"], elem=join_all(items), nonempty=True)

    def ev_Set(self, e, s):
        items = [self.eval(x, s) for x in e.elts]
        for x, it in zip(e.elts, items):
            self.need(it.kinds <= HASHABLE | JSON_KINDS - frozenset(["list", "dict"]) or not (it.kinds & frozenset(["list", "dict"])), "TypeError", x, "set element", it.describe())
        return AV(["set"], elem=join_all(items) if items else BOTTOM, nonempty=bool(items))

    def ev_Dict(self, e, s):
        vals = []
        for k, v in zip(e.keys, e.values):
            if k is not None:
                self.eval(k, s)
                vals.append(self.eval(v, s))
            else:
                inner = self.eval(v, s)
                vals.append(inner.vals_av())
        if not vals:
            return AV(["dict"], vals=BOTTOM)
        # {"type": [d]} built by disallow: a schema literal of this draft
        av = AV(["dict"], vals=join_all(vals), nonempty=True)
        if all(isinstance(k, ast.Constant) and isinstance(k.value, str) for k in e.keys):
            av = av.copy(schema=self.draft)
            av.norm_tag = "literal-schema"
        return av

    def ev_JoinedStr(self, e, s):
        for v in e.values:
            if isinstance(v, ast.FormattedValue):
                self.to_text(self.eval(v.value, s), e, "f-string")
        return AV(["str"])

    def ev_IfExp(self, e, s):
        outs = []
        for (ts, truth) in self.branch(e.test, s.copy()):
            outs.append(self.eval(e.body if truth else e.orelse, ts))
        return join_all(outs) if outs else BOTTOM

    def ev_BoolOp(self, e, s):
        # value of `a or b` / `a and b`
        outs = []
        cur = [s.copy()]
        for i, v in enumerate(e.values):
            last = i == len(e.values) - 1
            nxt = []
            for x in cur:
                val = self.eval(v, x)
                if last:
                    outs.append(val)
                    continue
                mt, mf = self.truthiness(val)
                if isinstance(e.op, ast.Or):
                    if mt:
                        outs.append(self.refine_truth(val, True) or val)
                    if mf:
                        y = self.refine(v, val, False, x.copy())
                        if y is not None:
                            nxt.append(y)
                else:
                    if mf:
                        outs.append(self.refine_truth(val, False) or val)
                    if mt:
                        y = self.refine(v, val, True, x.copy())
                        if y is not None:
                            nxt.append(y)
            cur = nxt
            if not cur:
                break
        return join_all(outs) if outs else BOTTOM

    def ev_UnaryOp(self, e, s):
        v = self.eval(e.operand, s)
        if isinstance(e.op, ast.Not):
            mt, mf = self.truthiness(v)
            if mt and not mf:
                return const_av(False)
            if mf and not mt:
                return const_av(True)
            return AV(["bool"])
        self.need(v.kinds <= frozenset(["int", "float", "bool"]), "TypeError", e, "unary %s" % type(e.op).__name__, v.describe())
        if isinstance(e.op, ast.USub) and v.const is not None and v.const[0] == "c" and isinstance(v.const[1], (int, float)) and not isinstance(v.const[1], bool):
            return const_av(-v.const[1])
        return v.copy(pos=False, const=None)

    def ev_BinOp(self, e, s):
        l = self.eval(e.left, s)
        r = self.eval(e.right, s)
        return self.binop(e.op, l, r, e, s)

    def may_hold_big_int(self, av, depth=0):
        """can the text of this value contain an integer of unbounded size (itself, or somewhere inside an array/object)?"""
        if av is None or depth > 3:
            return depth > 3
        if "int" in av.kinds and av.big and not (av.const is not None and av.const[0] == "c"):
            return True
        if av.kinds & frozenset(["list", "set", "gen", "tuple"]):
            if av.items is not None:
                if any(self.may_hold_big_int(x, depth + 1) for x in av.items):
                    return True
            elif av.elem is None or self.may_hold_big_int(av.elem, depth + 1):
                return True
        if "dict" in av.kinds and (av.vals is None or self.may_hold_big_int(av.vals, depth + 1)):
            return True
        return False

    def _always_reports(self, f, astnode):
        """Does every path from the statement that holds `astnode` to a normal exit of f pass a `yield` or a `raise` (the statement
        itself included)?  Text built there is part of reporting something; text built on a path that can end without a report is
        built for instances there is nothing to say about."""
        from .cfg import cfg_of, node_exprs, walk_expr
        cache = self.__dict__.setdefault("_reports", {})
        if f not in cache:
            cfg = cfg_of(f)
            node_of = {}
            for n in cfg.live:
                for e in node_exprs(n):
                    for sub in walk_expr(e):
                        node_of.setdefault(id(sub), n)
                if n.ast is not None:
                    for sub in ast.walk(n.ast) if n.kind in ("stmt", "yield", "raise", "return") else [n.ast]:
                        node_of.setdefault(id(sub), n)
            cache[f] = (cfg, node_of, {})
        cfg, node_of, memo = cache[f]
        start = node_of.get(id(astnode))
        if start is None:
            return False
        if start.id not in memo:
            ok, seen, todo = True, set(), [start]
            while todo and ok:
                n = todo.pop()
                if n.id in seen:
                    continue
                seen.add(n.id)
                if n.kind in ("yield", "raise"):
                    continue
                if n.kind == "exit":
                    if n.info in ("return", "fall"):
                        ok = False
                    continue
                if n.kind == "return":
                    ok = False
                    continue
                todo.extend(y for (l, y) in n.succ if l != "exc")
            memo[start.id] = ok
        return memo[start.id]

    def _conditional_nodes(self, f):
        """ids of the nodes of f that sit inside the body of an if / loop / handler / conditional expression (run for some inputs only)"""
        cache = self.__dict__.setdefault("_cond_nodes", {})
        if f not in cache:
            out = set()
            def mark(nodes):
                for n in nodes:
                    for x in ast.walk(n):
                        out.add(id(x))
            for n in ast.walk(f.node):
                if isinstance(n, (ast.If, ast.While)):
                    mark(n.body)
                    mark(n.orelse)
                elif isinstance(n, (ast.For, ast.AsyncFor)):
                    mark(n.body)
                    mark(n.orelse)
                elif isinstance(n, ast.Try):
                    for h in n.handlers:
                        mark(h.body)
                    mark(n.orelse)
                elif isinstance(n, ast.IfExp):
                    mark([n.body, n.orelse])
                elif isinstance(n, ast.BoolOp):
                    mark(n.values[1:])
            cache[f] = out
        return cache[f]

    def to_text(self, av, node, how):
        """str()/repr()/%r/%s/format of a value: since Python 3.11 converting an int of more than sys.int_max_str_digits (4300)
        digits to decimal text raises ValueError -- also from inside the repr of a list or dict that holds one."""
        try:
            conditional = self.cur_func is not None and not isinstance(self.cur_func.node, ast.Lambda) and self._always_reports(self.cur_func, node)
        except Exception:
            conditional = True      # no CFG for this function: no claim
        # inside a helper the text flows back to the caller: then the caller's call site decides
        conditional = conditional or bool(self.__dict__.get("_cond_ctx") and self._cond_ctx[-1])
        if av is not None and conditional and self.cur_func.qual == "_format.FormatChecker.check" and self.checkers_pass_non_strings():
            # FormatChecker.check words its message only after the registered function answered falsy or raised, which every
            # built-in one does for strings only (each returns True for a non-string before looking at it: R12.5, re-derived here);
            # a custom function rejecting numbers is the caller's, outside the package
            av = av.only(["str"]) if "str" in av.kinds else av
        if av is not None:
            # the pinned tree words its messages only where an error is reported (F-18, known); text built for *every* instance --
            # before the verdict is known -- makes valid instances raise as well and is filed under its own category
            what = "text of an integer of unbounded size" if conditional or self.cur_func is None else \
                "text of an integer of unbounded size built whether or not there is anything to report"
            self.need(not self.may_hold_big_int(av), "ValueError", node,
                      "%s (%s: int -> str conversion refuses more than 4300 digits)" % (what, how), av.describe())

    def binop(self, op, l, r, node, s):
        num = frozenset(["int", "float", "bool"])
        if isinstance(op, ast.Mod) and l.kinds <= frozenset(["str"]):
            # "fmt" % value : effect-free for JSON values (none is a tuple) and for tuples written out with the right arity
            if isinstance(node, ast.BinOp) and isinstance(node.left, ast.Constant) and isinstance(node.right, ast.Tuple):
                want = node.left.value.replace("%%", "").count("%")
                self.need(want == len(node.right.elts), "TypeError", node, "string formatting arity")
            if isinstance(node, ast.BinOp) and isinstance(node.left, ast.Constant) and isinstance(node.left.value, str):
                # numeric conversions convert their argument: %e %f %g go through a C double (OverflowError for an integer beyond
                # 1.8e308), %d %i %x %o %c need a finite number (OverflowError/ValueError for inf/nan, TypeError for a non-number)
                import re as _re
                specs = _re.findall(r"%(?:\([^)]*\))?[-#0 +]*(?:\*|\d+)?(?:\.(?:\*|\d+))?[hlL]?([diouxXeEfFgGcrsa%])", node.left.value)
                specs = [c for c in specs if c != "%"]
                args = node.right.elts if isinstance(node.right, ast.Tuple) else [node.right]
                for c, a in zip(specs, args):
                    av = self.eval_quiet(a, s) if hasattr(self, "eval_quiet") else None
                    if av is None:
                        continue
                    if c in "eEfFgG":
                        self.need(av.kinds <= frozenset(["int", "float", "bool"]), "TypeError", node, "%%%s of a non-number" % c, av.describe())
                        self.need(not ("int" in av.kinds and av.big), "OverflowError", node, "%%%s converts an integer of unbounded size to a float" % c, av.describe())
                    elif c in "diouxXc":
                        self.need(av.kinds <= frozenset(["int", "float", "bool"]), "TypeError", node, "%%%s of a non-number" % c, av.describe())
                        if c in "diu":
                            self.to_text(av, node, "%%%s" % c)
                    elif c in "rsa":
                        self.to_text(av, node, "%%%s" % c)
            elif "tuple" in r.kinds and r.items is None:
                pass
            return AV(["str"])
        if isinstance(op, ast.Add) and l.kinds <= frozenset(["str"]) and r.kinds <= frozenset(["str"]):
            return AV(["str"])
        if isinstance(op, ast.Add) and l.kinds <= frozenset(["list"]) and r.kinds <= frozenset(["list"]):
            return AV(["list"], elem=join(l.elem_av(), r.elem_av()))
        if isinstance(op, (ast.BitOr, ast.BitAnd)) and (l.kinds | r.kinds) <= frozenset(["bool", "int"]):
            return AV(["int", "bool"], big=False)
        if isinstance(op, (ast.Add, ast.Sub, ast.Mult, ast.Div, ast.Mod, ast.FloorDiv, ast.Pow)):
            okl, okr = l.kinds <= num | frozenset(["obj:Fraction"]), r.kinds <= num | frozenset(["obj:Fraction"])
            self.need(okl and okr, "TypeError", node, "arithmetic %s" % type(op).__name__, "%s, %s" % (l.describe(), r.describe()))
            if "obj:Fraction" in (l.kinds | r.kinds):
                if isinstance(op, (ast.Div, ast.Mod, ast.FloorDiv)):
                    self.need(r.pos, "ZeroDivisionError", node, "Fraction division", r.describe())
                return AV(["obj:Fraction"])
            if isinstance(op, (ast.Div, ast.Mod, ast.FloorDiv)):
                self.need(r.pos, "ZeroDivisionError", node, "%s by a value not known positive" % type(op).__name__, r.describe())
            # int/float mixing with unbounded ints
            mixes = (("int" in l.kinds and l.big and "float" in r.kinds) or ("int" in r.kinds and r.big and "float" in l.kinds))
            int_int_div = isinstance(op, ast.Div) and "int" in l.kinds and "int" in r.kinds and (l.big or r.big)
            if isinstance(op, (ast.Div, ast.Mod, ast.Mult, ast.Add, ast.Sub, ast.FloorDiv)) and (mixes or int_int_div):
                self.need(False, "OverflowError", node,
                          "%s mixing an integer of unbounded size with a float (int too large to convert to float)" % {
                              ast.Div: "/", ast.Mod: "%", ast.Mult: "*", ast.Add: "+", ast.Sub: "-", ast.FloorDiv: "//"}[type(op)],
                          "%s %s %s" % (l.describe(), type(op).__name__, r.describe()))
            res_kinds = set()
            if isinstance(op, ast.Div):
                res_kinds = {"float"}
            else:
                if "float" in (l.kinds | r.kinds):
                    res_kinds.add("float")
                if (l.kinds & {"int", "bool"}) and (r.kinds & {"int", "bool"}):
                    res_kinds.add("int")
            out = AV(res_kinds or ["float"], big=l.big or r.big)
            if isinstance(op, ast.Div):
                out.norm_tag = "float-quotient"   # may be +-inf
            return out
        self.unmodelled.append("binary %s on %s,%s in %s" % (type(op).__name__, l.describe(), r.describe(), self.cur_func.qual))
        return AV(["opaque"])

    def ev_Compare(self, e, s):
        left = self.eval(e.left, s)
        for op, c in zip(e.ops, e.comparators):
            right = self.eval(c, s)
            if isinstance(op, (ast.Lt, ast.LtE, ast.Gt, ast.GtE)):
                num = frozenset(["int", "float", "bool", "obj:Fraction"])
                ok = (left.kinds <= num and right.kinds <= num) or (left.kinds <= frozenset(["str"]) and right.kinds <= frozenset(["str"])) \
                    or (left.kinds <= frozenset(["tuple"]) and right.kinds <= frozenset(["tuple"])) \
                    or (left.kinds <= frozenset(["opaque"]) and right.kinds <= frozenset(["opaque"]))     # two results of a caller-supplied callable (a sort key): nothing known, nothing claimed
                self.need(ok, "TypeError", e, "ordering comparison between values that may not be comparable: %s" % norm(e)[:50], "%s vs %s" % (left.describe(), right.describe()))
            elif isinstance(op, (ast.In, ast.NotIn)):
                k = right.kinds
                bad_container = k & frozenset(["null", "bool", "int", "float"])
                self.need(not bad_container, "TypeError", e, "membership test in a scalar: %s" % norm(c)[:40], right.describe())
                if "dict" in k or "set" in k:
                    self.need(not (left.kinds & frozenset(["list", "dict", "set"])), "TypeError", e,
                              "unhashable key in membership test: %s" % norm(e)[:50], left.describe())
                if "str" in k:
                    self.need(left.kinds <= frozenset(["str"]), "TypeError", e, "`x in <str>` with non-string x: %s" % norm(e)[:50],
                              "%s in %s" % (left.describe(), right.describe()))
            left = right
        return AV(["bool"])

    def ev_Subscript(self, e, s):
        base = self.eval(e.value, s)
        if isinstance(e.slice, ast.Slice):
            for x in (e.slice.lower, e.slice.upper, e.slice.step):
                if x is not None:
                    v = self.eval(x, s)
                    self.need(v.kinds <= frozenset(["int", "null", "bool"]), "TypeError", e, "slice index: %s" % norm(x), v.describe())
            self.need(base.kinds <= frozenset(["str", "list", "tuple", "opaque"]), "TypeError", e, "slice of a non-sequence: %s" % norm(e.value)[:40], base.describe())
            return base.copy(nonempty=False, const=None)
        idx = self.eval(e.slice, s)
        # sibling reads on a schema variable
        pl = self.sibling_place(e, s)
        if pl is not None:
            var, key, _d = pl
            val, pres = self.sib_value(var, key, s)
            self.need(pres == "yes", "KeyError", e, "schema key lookup without a presence test: %s[%r]" % (var, key))
            bv = s.env.get(var)
            if bv is not None and "bool" in bv.kinds:
                self.need(False, "TypeError", e, "subscript of a boolean schema", bv.describe())
            return val
        out = []
        for t in obj_types(base):
            m = self.calls.method(t, "__getitem__")
            if m is not None:
                rv = self.call_func(m, [base, idx], node=e)
                # a URIDict whose values are known (the registry holds validator classes): same as its .get()
                out.append(base.vals if t == "URIDict" and base.vals is not None else rv)
            elif t in ("pmap", "Mapping"):
                keys = base.const[1] if base.const and base.const[0] == "keys" else None
                self.need(not (idx.kinds & frozenset(["list", "dict", "set"])), "TypeError", e, "unhashable key", idx.describe())
                known = keys is not None and idx.strs is not None and idx.strs <= keys and idx.kinds <= frozenset(["str"])
                self.need(known, "KeyError", e, "mapping lookup with a key not known to be present: %s" % norm(e)[:50], idx.describe())
                out.append(base.vals_av())
            else:
                out.append(AV(["opaque"]))
        bad = base.kinds & frozenset(["null", "bool", "int", "float", "set", "gen"])
        self.need(not bad, "TypeError", e, "subscript of a scalar: %s" % norm(e)[:50], base.describe())
        if "dict" in base.kinds:
            self.need(not (idx.kinds & frozenset(["list", "dict", "set"])), "TypeError", e, "unhashable dict key: %s" % norm(e)[:50], idx.describe())
            known = False
            if isinstance(e.value, (ast.Name, ast.Attribute)):
                kr = self.keyrepr(e.slice)
                cname = norm(e.value)
                if kr is not None and (cname, kr) in s.present:
                    known = True
                if cname in idx.keys_of and "str" in idx.kinds:
                    known = True
            if base.const and base.const[0] == "keys" and base.kinds <= frozenset(["dict"]):
                # a table with literal keys, indexed by a truth value (both present) or by one of a known set of strings
                if idx.kinds <= frozenset(["bool"]) and {True, False} <= set(k for k in base.const[1] if isinstance(k, bool)):
                    known = True
                if idx.kinds <= frozenset(["str"]) and idx.strs is not None and idx.strs <= base.const[1]:
                    known = True
            self.need(known, "KeyError", e, "dict lookup with a key not known to be present: %s" % norm(e)[:50], idx.describe())
            out.append(base.vals_av())
        if base.kinds & frozenset(["list", "tuple", "str"]):
            self.need(idx.kinds <= frozenset(["int", "bool"]), "TypeError", e, "sequence index that is not an integer: %s" % norm(e)[:50], idx.describe())
            inrange = base.kinds <= frozenset(["tuple"]) and base.items is not None and idx.const is not None
            if base.nonempty and idx.const is not None and idx.const[0] == "c" and idx.const[1] in (0, -1) and not ("str" in base.kinds and not base.nonempty):
                inrange = True
            if not inrange and (idx.kinds & frozenset(["int", "bool", "opaque"])):
                self.need(False, "IndexError", e, "sequence index may be out of range: %s" % norm(e)[:50], base.describe())
            if base.items is not None and idx.const is not None and idx.const[0] == "c" and isinstance(idx.const[1], int) and -len(base.items) <= idx.const[1] < len(base.items):
                out.append(base.items[idx.const[1]])
            else:
                out.append(base.only(frozenset(["list", "tuple", "str"])).elem_av())
        if "opaque" in base.kinds or "module" in base.kinds:
            out.append(AV(["opaque"]))
        return join_all(out) if out else BOTTOM

    def ev_Attribute(self, e, s):
        ap = self.attr_place(e, s)
        if ap is not None and ap in s.sib and s.sib[ap][0] is not None:
            return s.sib[ap][0]
        base = self.eval(e.value, s)
        return self.getattr_av(base, e.attr, e, s)

    def getattr_av(self, base, attr, node, s):
        outs = []
        for k in base.kinds:
            if k.startswith("obj:") or k.startswith("cls:"):
                t = k[4:]
                v = self.obj_attr(t, attr, base, node, s, is_cls=k.startswith("cls:"))
                outs.append(v)
            elif k == "module":
                ext = base.const[1] if base.const and base.const[0] == "ext" else "?"
                pm = ext if ext in self.prog.mods else None
                if pm:
                    r = self.prog.resolve_name(self.prog.mods[pm], attr)
                    if isinstance(r, Func):
                        outs.append(AV(["func"], const=("func", r)))
                    elif isinstance(r, Cls):
                        outs.append(AV(["cls:" + (self.calls.cls_type.get(r.qual) or r.name)], const=("cls", r)))
                    elif isinstance(r, tuple) and r[0] == "expr":
                        outs.append(self.module_value(r[1], attr, r[2]))
                    else:
                        outs.append(AV(["opaque"]))
                else:
                    outs.append(AV(["func"], const=("ext", ext + "." + attr)))
            elif k == "err":
                outs.append(self.obj_attr("Error", attr, base, node, s))
            elif k in ("func", "opaque", "sentinel", "match"):
                if base.const and base.const[0] == "ext":
                    outs.append(AV(["func"], const=("ext", base.const[1] + "." + attr)))
                else:
                    outs.append(AV(["opaque"]))
            elif k in JSON_KINDS or k in ("tuple", "set", "gen"):
                # bound method of a builtin container: resolved at the call; as a value it is just a function
                ok = attr in METHODS.get(k, ())
                if not ok:
                    self.need(False, "AttributeError", node, ".%s on %s" % (attr, k), base.describe())
                else:
                    outs.append(AV(["func"], const=("method", attr)))
        return join_all(outs) if outs else BOTTOM

    # attribute protocol of the package's own classes
    def obj_attr(self, t, attr, base, node, s, is_cls=False):
        tbl = {
            ("Validator", "resolver"): lambda: obj("RefResolver"),
            ("Validator", "format_checker"): lambda: join(obj("FormatChecker"), AV(["null"])),
            ("Validator", "schema"): lambda: self.schema_av,
            ("Validator", "TYPE_CHECKER"): lambda: obj("TypeChecker"),
            ("Validator", "VALIDATORS"): lambda: AV(["dict"], vals=AV(["func"], const=("kwfunc",))),
            ("Validator", "META_SCHEMA"): lambda: AV(["dict"], schema=self.draft),
            ("Validator", "ID_OF"): lambda: AV(["func"], const=("id_of",)),
            ("RefResolver", "_scopes_stack"): lambda: AV(["list"], elem=AV(["str"]), nonempty=True),
            ("RefResolver", "store"): lambda: obj("URIDict"),
            ("RefResolver", "handlers"): lambda: AV(["dict"], vals=AV(["func"], const=("handler",))),
            ("RefResolver", "cache_remote"): lambda: AV(["bool"]),
            ("RefResolver", "referrer"): lambda: ANY,
            ("RefResolver", "_urljoin_cache"): lambda: AV(["func"], const=("ext", "urllib.parse.urljoin")),
            ("RefResolver", "_remote_cache"): lambda: AV(["func"], const=("bound", self.calls.method("RefResolver", "resolve_from_url"), base)),
            ("URIDict", "store"): lambda: AV(["dict"], vals=ANY),
            ("FormatChecker", "checkers"): lambda: AV(["dict"], vals=AV(["tuple"], items=(AV(["func"], const=("checker",)), AV(["opaque"])))),
            ("TypeChecker", "_type_checkers"): lambda: AV(["obj:pmap"], vals=AV(["func"], const=("typefn",)), const=("keys", frozenset(self.dr.types))),
            ("Error", "path"): lambda: AV(["obj:deque"], elem=AV(["str", "int"])),
            ("Error", "schema_path"): lambda: AV(["obj:deque"], elem=AV(["str", "int"])),
            ("Error", "relative_path"): lambda: AV(["obj:deque"], elem=AV(["str", "int"])),
            ("Error", "relative_schema_path"): lambda: AV(["obj:deque"], elem=AV(["str", "int"])),
            ("Error", "message"): lambda: AV(["str"]),
            ("Error", "cause"): lambda: AV(["err", "null"]),
            ("Error", "context"): lambda: AV(["list"], elem=AV(["err"])),
            ("Error", "validator"): lambda: AV(["str", "null", "sentinel"]),
            ("Error", "validator_value"): lambda: join(ANY, AV(["sentinel"])),
            ("Error", "instance"): lambda: join(ANY, AV(["sentinel"])),
            ("Error", "schema"): lambda: join(ANY, AV(["sentinel"])),
            ("Error", "parent"): lambda: AV(["err", "null"]),
            ("ErrorTree", "errors"): lambda: AV(["dict"], vals=AV(["err"])),
            ("ErrorTree", "_contents"): lambda: AV(["obj:defaultdict"], vals=obj("ErrorTree")),
            ("ErrorTree", "_instance"): lambda: join(ANY, AV(["sentinel"])),
        }
        if (t, attr) in tbl:
            return tbl[(t, attr)]()
        m = self.calls.method(t, attr) if t in self.calls.type_cls else None
        if m is not None:
            if any(norm(d) == "property" for d in m.decorators):
                # "this URL has been parsed on this path" (see call_ext) holds inside the getter as well
                facts = set()
                recv = norm(node.value) if isinstance(node, ast.Attribute) else None
                for f in (s.present if s is not None else ()):
                    if f[0] == "__url_ok__" and recv is not None and m.params and f[1].startswith(recv + "."):
                        facts.add(("__url_ok__", m.params[0] + f[1][len(recv):]))
                return self.call_func(m, [base], node=node, present=frozenset(facts))
            return AV(["func"], const=("bound", m, base))
        if attr == "__class__":
            return AV(["cls:" + t])
        if t in ("deque", "defaultdict", "pmap", "Fraction", "Pattern", "Match"):
            return AV(["func"], const=("method", attr))
        if attr == "denominator" or attr == "numerator":
            return AV(["int"])
        return AV(["opaque"])

    def ev_Call(self, e, s):
        return self.call(e, s)

    def ev_Yield(self, e, s):
        self._yield_value = self.eval(e.value, s) if e.value is not None else AV(["null"])
        return AV(["null"])

    def ev_YieldFrom(self, e, s):
        v = self.iterable(e.value, s)
        self._yield_value = v.elem_av()
        return AV(["null"])

    def ev_Lambda(self, e, s):
        return AV(["func"])

    def ev_Starred(self, e, s):
        return self.eval(e.value, s)

    def ev_NamedExpr(self, e, s):
        v = self.eval(e.value, s)
        self.assign(e.target, v, s, e.value)
        return v

    def comp(self, e, s, elt_fn):
        """Evaluate a comprehension; returns (element AV, known_empty)."""
        st = s.copy()
        known_empty = False
        for g in e.generators:
            itv = self.iterable(g.iter, st)
            el = self.iter_elem(g.iter, itv, st)
            if el.empty or itv.const == EMPTY_LIST or (isinstance(g.iter, ast.Name) and g.iter.id in st.exhausted):
                known_empty = True
            self.assign(g.target, el if not el.empty else BOTTOM, st, None)
            for cond in g.ifs:
                if known_empty:
                    continue
                outs = [ts for (ts, truth) in self.branch(cond, st) if truth]
                st = merge_to_one(outs) or st
        if known_empty:
            return BOTTOM, True
        return elt_fn(st), False

    def ev_GeneratorExp(self, e, s):
        el, empty = self.comp(e, s, lambda st: self.eval(e.elt, st))
        return AV(["gen"], elem=el, const=EMPTY_LIST if empty else None)

    def ev_ListComp(self, e, s):
        el, empty = self.comp(e, s, lambda st: self.eval(e.elt, st))
        return AV(["list"], elem=el, const=EMPTY_LIST if empty else None)

    def ev_SetComp(self, e, s):
        el, empty = self.comp(e, s, lambda st: self.eval(e.elt, st))
        self.need(not (el.kinds & frozenset(["list", "dict", "set"])), "TypeError", e, "unhashable element in set comprehension", el.describe())
        return AV(["set"], elem=el)

    def ev_DictComp(self, e, s):
        def f(st):
            self.eval(e.key, st)
            return self.eval(e.value, st)
        el, empty = self.comp(e, s, f)
        return AV(["dict"], vals=el)

    # ------------------------------------------------------------------ calls
    def call(self, e, s):
        from .interp_calls import do_call
        return do_call(self, e, s)


def digits_only_regex(pat):
    """Every string fully matched by `pat` consists of ASCII digits only (and is non-empty)."""
    import re._parser as sp
    import re._constants as sc
    try:
        tree = sp.parse(pat)
    except Exception:
        return False

    def ok(seq):
        for op, av in seq:
            if op is sc.LITERAL:
                if not (48 <= av <= 57):
                    return False
            elif op is sc.IN:
                for (o2, a2) in av:
                    if o2 is sc.LITERAL and 48 <= a2 <= 57:
                        continue
                    if o2 is sc.RANGE and 48 <= a2[0] and a2[1] <= 57:
                        continue
                    return False
            elif op is sc.BRANCH:
                if not all(ok(b) for b in av[1]):
                    return False
            elif op in (sc.MAX_REPEAT, sc.MIN_REPEAT):
                if not ok(av[2]):
                    return False
            elif op is sc.SUBPATTERN:
                if not ok(av[3]):
                    return False
            else:
                return False
        return True
    return ok(tree) and tree.getwidth()[0] >= 1


METHODS = {
    "dict": {"items", "keys", "values", "get", "copy", "update", "pop", "setdefault", "clear", "popitem"},
    "list": {"append", "extend", "insert", "pop", "remove", "index", "count", "sort", "reverse", "copy", "clear"},
    "str": {"replace", "split", "rsplit", "lstrip", "rstrip", "strip", "startswith", "endswith", "format", "join", "lower", "upper", "title",
            "encode", "isdigit", "isascii", "find", "partition", "rpartition", "count", "index", "splitlines", "casefold", "zfill", "removeprefix",
            "removesuffix", "isalpha", "isalnum", "isnumeric", "isdecimal"},
    "float": {"is_integer", "as_integer_ratio", "hex"},
    "int": {"bit_length", "to_bytes", "as_integer_ratio", "is_integer"},
    "bool": {"bit_length"},
    "null": set(),
    "tuple": {"index", "count"},
    "set": {"add", "update", "discard", "remove", "union", "intersection", "difference", "pop", "clear", "copy", "issubset"},
    "gen": {"close", "send", "throw", "__next__"},
}


def merge_to_one(states):
    out = None
    for st in states:
        out = join_states(out, st) if out is not None else st
    return out
