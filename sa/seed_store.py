#!/venv/bin/python
"""Copy evaluated, confirmed seeded mutants from the sub-agents' scratch worktrees into /verif/seeded/<id>/.

usage: seed_store.py /tmp/seed      (expects <root>/C07/mutants/m1/{patch.diff,demo.py,meta.json,eval.json})
A mutant is kept only if its evaluation confirmed: demo PASS on the clean tree, patch applies, demo FAIL with the patch,
repository test-suite still passes.
"""
import json
import os
import shutil
import sys

VERIF = os.path.dirname(os.path.dirname(os.path.abspath(__file__)))


def main():
    root = sys.argv[1]
    tag = sys.argv[2] if len(sys.argv) > 2 else ""
    out = os.path.join(VERIF, "seeded")
    os.makedirs(out, exist_ok=True)
    kept, dropped = [], []
    for pid in sorted(os.listdir(root)):
        mdir = os.path.join(root, pid, "mutants")
        if not os.path.isdir(mdir):
            continue
        for m in sorted(os.listdir(mdir)):
            d = os.path.join(mdir, m)
            ev = os.path.join(d, "eval.json")
            if not (os.path.exists(ev) and os.path.exists(os.path.join(d, "patch.diff")) and os.path.exists(os.path.join(d, "demo.py"))):
                continue
            try:
                e = json.load(open(ev))
            except ValueError:
                continue
            ok = e.get("demo_clean") == "PASS" and e.get("applies") and e.get("demo_mutant") == "FAIL" and str(e.get("tests", "")).startswith("3210 passed")
            sid = "%s-%s%s" % (pid, tag, m)
            if not ok:
                dropped.append((sid, {k: e.get(k) for k in ("demo_clean", "applies", "demo_mutant", "tests")}))
                continue
            dst = os.path.join(out, sid)
            os.makedirs(dst, exist_ok=True)
            shutil.copy(os.path.join(d, "patch.diff"), os.path.join(dst, "patch.diff"))
            shutil.copy(os.path.join(d, "demo.py"), os.path.join(dst, "demo.py"))
            meta = {}
            try:
                meta = json.load(open(os.path.join(d, "meta.json")))
            except (ValueError, OSError):
                pass
            fired = e.get("checks_fired", {})
            meta.update({
                "id": sid,
                "property": pid,
                "origin": "sub-agent given only the property text and a scratch worktree of /repo",
                "confirmed": {
                    "demo_on_clean_tree": e.get("demo_clean"),
                    "patch_applies": e.get("applies"),
                    "demo_with_patch": e.get("demo_mutant"),
                    "repository_test_suite_with_patch": e.get("tests"),
                    "how": "sa/seed_eval.py: scratch git worktree of /repo HEAD, PYTHONPATH=<worktree> /venv/bin/python demo.py before and after "
                           "`git apply patch.diff`, then `/venv/bin/python -m pytest -q -p no:cacheprovider -n 8 jsonschema`, then all 20 "
                           "`sa/check.py <ID> --repo <worktree> --no-write`",
                },
                "caught_by": {k: v[:3] for k, v in fired.items()},
                "own_property_check_fires": pid in fired and not any(str(x).startswith("ANALYSIS-ERROR") for x in fired.get(pid, [])),
            })
            with open(os.path.join(dst, "meta.json"), "w") as f:
                json.dump(meta, f, indent=1)
            kept.append((sid, sorted(fired)))
    for sid, fired in kept:
        print("kept   ", sid, "caught by", fired or "NOTHING")
    for sid, why in dropped:
        print("dropped", sid, why)


if __name__ == "__main__":
    main()
