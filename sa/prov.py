"""E7: symbolic provenance terms for locals (loop targets, single-assignment temporaries).

Terms (tuples):
  ("param", name)            a parameter of the function (with role via calls.roles)
  ("idx", X)                 the running index into sequence X
  ("key", X)                 a key of mapping X (or: a member name drawn from X)
  ("elem", X, t)             X[t]
  ("const", v)
  ("len", X)
  ("opaque", text)           anything else
"""
import ast

from .prog import norm, walk_body, walk_local, Func


class Prov:
    def __init__(self, prog, calls, func):
        self.prog = prog
        self.calls = calls
        self.func = func
        self.parents = {}
        for st in func.body:
            self._index(st, None)
        self.assigns = {}
        for n in walk_body(func):
            if isinstance(n, ast.Assign):
                for t in n.targets:
                    if isinstance(t, ast.Name):
                        self.assigns.setdefault(t.id, []).append(n.value)
                    elif isinstance(t, (ast.Tuple, ast.List)):
                        for i, e in enumerate(t.elts):
                            if isinstance(e, ast.Name):
                                self.assigns.setdefault(e.id, []).append(("unpack", n.value, i, len(t.elts)))
            elif isinstance(n, ast.AugAssign) and isinstance(n.target, ast.Name):
                self.assigns.setdefault(n.target.id, []).append(("aug", n))

    def _index(self, node, parent):
        self.parents[id(node)] = parent
        for c in ast.iter_child_nodes(node):
            self._index(c, node)

    def enclosing_loops(self, node):
        out = []
        cur = self.parents.get(id(node))
        child = node
        while cur is not None:
            if isinstance(cur, (ast.For,)) and child is not cur.iter and child not in cur.orelse:
                out.append(cur)
            if isinstance(cur, (ast.ListComp, ast.SetComp, ast.GeneratorExp, ast.DictComp)):
                for g in cur.generators:
                    out.append(g)
            child = cur
            cur = self.parents.get(id(cur))
        return out   # innermost first

    # ------------------------------------------------------------------ loops
    def bind_target(self, target, it, env, depth=0):
        """Bind loop target names given the iterable expression; env: name -> term."""
        it_t = self.iter_terms(it, env, depth)
        self._bind(target, it_t, env)

    def _bind(self, target, t, env):
        if isinstance(target, ast.Name):
            env[target.id] = t if not (isinstance(t, tuple) and t and t[0] == "tuple") else ("opaque", "tuple")
        elif isinstance(target, (ast.Tuple, ast.List)):
            if isinstance(t, tuple) and t and t[0] == "tuple" and len(t[1]) == len(target.elts):
                for e, sub in zip(target.elts, t[1]):
                    self._bind(e, sub, env)
            else:
                for e in target.elts:
                    self._bind(e, ("opaque", "unpack"), env)

    def iter_terms(self, it, env, depth=0):
        """Term describing *one element* produced by iterating `it` (a ('tuple', [..]) for pair-producing iterables)."""
        if depth > 6:
            return ("opaque", "deep")
        if isinstance(it, ast.Name) and isinstance(env.get(it.id), tuple) and env[it.id] and env[it.id][0] == "iterable":
            # a parameter bound, at the call site under study, to an iterable whose elements are known (enumerate(anyOf))
            return env[it.id][1]
        if isinstance(it, (ast.GeneratorExp, ast.ListComp)) and len(it.generators) == 1:
            # ((k, v) for k, v in X.items() if cond): a filtered view; what one element is follows from the comprehension's own target
            g = it.generators[0]
            env2 = dict(env)
            self._bind(g.target, self.iter_terms(g.iter, env, depth + 1), env2)
            if isinstance(it.elt, ast.Tuple):
                return ("tuple", [self.term(e, env2, depth + 1) for e in it.elt.elts])
            return self.term(it.elt, env2, depth + 1)
        if isinstance(it, ast.Call):
            fn = it.func
            name = fn.id if isinstance(fn, ast.Name) else None
            if name == "enumerate" and it.args and isinstance(it.args[0], ast.Call) and isinstance(it.args[0].func, ast.Name) \
                    and it.args[0].func.id == "zip" and len(it.args) == 1 and not it.keywords and it.args[0].args:
                # enumerate(zip(A, B)): (running position, (A[pos], B[pos]))
                zargs = it.args[0].args
                X0 = self.term(zargs[0], env, depth + 1)
                idx = ("idx", X0)
                return ("tuple", [idx, ("tuple", [("elem", self.term(a, env, depth + 1), idx) for a in zargs])])
            if name == "enumerate" and it.args:
                inner = it.args[0]
                start = next((k.value for k in it.keywords if k.arg == "start"), it.args[1] if len(it.args) > 1 else None)
                base = inner
                shifted = False
                if isinstance(inner, ast.Subscript) and isinstance(inner.slice, ast.Slice):
                    lo = inner.slice.lower
                    if inner.slice.upper is None and inner.slice.step is None and lo is not None and start is not None \
                            and norm(lo) == norm(start):
                        base = inner.value
                    else:
                        shifted = True
                        base = inner.value
                elif start is not None and not (isinstance(start, ast.Constant) and start.value == 0):
                    shifted = True
                X = self.term(base, env, depth + 1)
                idx = ("idx", X) if not shifted else ("opaque", "counter-not-aligned-with-position:" + norm(it))
                el = ("elem", X, idx) if not shifted else ("elem", X, ("opaque", "true-position-in:" + norm(inner)))
                return ("tuple", [idx, el])
            if name == "zip" and len(it.args) >= 2:
                first = self.iter_terms(it.args[0], env, depth + 1)
                # index of the first operand's running position
                idx = None
                if isinstance(first, tuple) and first[0] == "tuple" and first[1] and first[1][0][0] == "idx":
                    idx = first[1][0]
                elif isinstance(first, tuple) and first[0] == "elem":
                    idx = first[2]
                outs = [first]
                for other in it.args[1:]:
                    o = self.iter_terms(other, env, depth + 1)
                    if idx is not None and isinstance(o, tuple) and o[0] == "elem" and o[2][0] == "idx":
                        o = ("elem", o[1], idx)      # aligned by zip: same running position
                    elif idx is not None and isinstance(o, tuple) and o[0] == "tuple":
                        pass
                    outs.append(o)
                return ("tuple", outs)
            if isinstance(fn, ast.Attribute) and fn.attr == "items" and not it.args:
                X = self.term(fn.value, env, depth + 1)
                k = ("key", X)
                return ("tuple", [k, ("elem", X, k)])
            if isinstance(fn, ast.Attribute) and fn.attr == "keys" and not it.args:
                return ("key", self.term(fn.value, env, depth + 1))
            if isinstance(fn, ast.Attribute) and fn.attr == "values" and not it.args:
                X = self.term(fn.value, env, depth + 1)
                return ("elem", X, ("opaque", "values()"))
            if name in ("set", "sorted", "list", "tuple", "iter", "reversed", "frozenset") and it.args:
                return self.iter_terms(it.args[0], env, depth + 1)
            # package generator: what does it yield?
            tg = self.calls.callee(self.func, it)
            for t in tg:
                if t.kind == "func" and t.func is not None and t.func.is_generator:
                    s = self.generator_summary(t.func, it, env, depth)
                    if s is not None:
                        return s
            return ("opaque", norm(it)[:40])
        if isinstance(it, ast.Name):
            # a local alias of an iterable expression
            if it.id in env:
                t = env[it.id]
                if isinstance(t, tuple) and t[0] == "iterof":
                    return t[1]
            vals = self.assigns.get(it.id, [])
            if len(vals) == 1 and not isinstance(vals[0], tuple) and it.id not in self.func.all_params:
                return self.iter_terms(vals[0], env, depth + 1)
            X = self.term(it, env, depth + 1)
            return self.plain_iteration(it, X)
        if isinstance(it, ast.Subscript) and isinstance(it.slice, ast.Slice):
            X = self.term(it.value, env, depth + 1)
            return ("elem", X, ("opaque", "slice:" + norm(it.slice)))
        X = self.term(it, env, depth + 1)
        return self.plain_iteration(it, X)

    def plain_iteration(self, expr, X):
        """`for x in X`: a mapping yields keys; a sequence yields elements at the running index."""
        kind = self.container_kind(expr, X)
        if kind == "mapping":
            return ("key", X)
        if kind == "sequence":
            return ("elem", X, ("idx", X))
        return ("member", X)

    def container_kind(self, expr, X):
        """Is X iterated here as a mapping (keys) or a sequence? Decided flow-sensitively from the is_type gates that
        dominate the iteration: true edge of is_type(X,"object") -> mapping, of is_type(X,"array") -> sequence,
        false edge of is_type(X,"object") with no array test -> sequence (the only other iterable JSON kind)."""
        if X[0] != "param":
            return None
        from .cfg import cfg_of, node_exprs, walk_expr
        cfg = cfg_of(self.func)
        here = None
        for n in cfg.live:
            for e in node_exprs(n):
                for sub in walk_expr(e):
                    if sub is expr:
                        here = n
        if here is None:
            # the expression is part of a bigger iterable (zip(...)): locate by containment
            for n in cfg.live:
                if n.kind == "for" and any(sub is expr for sub in ast.walk(n.ast.iter)):
                    here = n
        tests = {"object": [], "array": []}
        for n in cfg.live:
            if n.kind == "test" and isinstance(n.ast, ast.Call) and isinstance(n.ast.func, ast.Attribute) and n.ast.func.attr == "is_type" \
                    and len(n.ast.args) == 2 and isinstance(n.ast.args[0], ast.Name) and n.ast.args[0].id == X[1] \
                    and isinstance(n.ast.args[1], ast.Constant) and n.ast.args[1].value in tests:
                tests[n.ast.args[1].value].append(n)
        if here is None:
            return None

        def only_via(nodes, label):
            cut = {(t.id, label) for t in nodes}
            seen, todo = set(), [cfg.entry]
            while todo:
                x = todo.pop()
                if x.id in seen:
                    continue
                seen.add(x.id)
                if x is here:
                    return False
                for (l, y) in x.succ:
                    if (x.id, l) in cut:
                        continue
                    todo.append(y)
            return True
        if tests["object"] and only_via(tests["object"], "true"):
            return "mapping"
        if tests["array"] and only_via(tests["array"], "true"):
            return "sequence"
        if tests["object"] and only_via(tests["object"], "false"):
            return "sequence"
        if tests["array"] and only_via(tests["array"], "false"):
            return "mapping"
        return None

    def elem_of(self, base_expr, X, idx, env, depth):
        return ("elem", X, idx)

    def generator_summary(self, g, call, env, depth):
        """Term for one value yielded by package generator g called at `call` (params substituted)."""
        sub = Prov(self.prog, self.calls, g)
        ys = [n for n in walk_body(g) if isinstance(n, ast.Yield) and n.value is not None]
        if not ys:
            return None
        terms = set()
        for y in ys:
            e2 = sub.env_at(y)
            terms.add(sub.term(y.value, e2, depth + 1))
        if len(terms) != 1:
            return None
        t = terms.pop()
        # substitute callee params by caller terms
        binding = {}
        gp = g.params
        for i, a in enumerate(call.args):
            if i < len(gp):
                binding[gp[i]] = self.term(a, env, depth + 1)
        for k in call.keywords:
            if k.arg:
                binding[k.arg] = self.term(k.value, env, depth + 1)
        return subst(t, binding)

    # ------------------------------------------------------------------ terms
    def env_at(self, node, base=None):
        env = dict(base or {})
        loops = list(reversed(self.enclosing_loops(node)))   # outermost first
        for lp in loops:
            self.bind_target(lp.target, lp.iter, env)
        return env

    def term(self, e, env, depth=0):
        if depth > 8:
            return ("opaque", "deep")
        if isinstance(e, ast.Constant):
            return ("const", e.value)
        if isinstance(e, ast.Name):
            if e.id in env:
                return env[e.id]
            vals = self.assigns.get(e.id, [])
            if e.id in self.func.all_params:
                # reassigned parameter: still "the parameter" only if every reassignment is position-preserving
                # (types = ensure_list(types), xs = list(xs)); `extends = [extends]` makes index 0 address nothing.
                busy = getattr(self, "_busy", set())
                if e.id in busy or not vals:
                    return ("param", e.id)
                self._busy = busy | {e.id}
                try:
                    for v in vals:
                        if isinstance(v, tuple):
                            return ("opaque", "param-reassigned:" + e.id)
                        w = v
                        while isinstance(w, ast.Call) and isinstance(w.func, ast.Name) and w.func.id in ("list", "tuple") and len(w.args) == 1:
                            w = w.args[0]
                        if self.term(w, {}, depth + 1) != ("param", e.id):
                            return ("opaque", "param-reassigned:" + e.id)
                finally:
                    self._busy = busy
                return ("param", e.id)
            if len(vals) > 1 and all(isinstance(v, ast.Constant) for v in vals):
                # a local that only ever holds constants (branch = "then" / branch = "else"): one term for the local
                return ("constlocal", e.id, tuple(sorted(str(v.value) for v in vals)))
            if len(vals) == 1 and isinstance(vals[0], ast.IfExp) and all(isinstance(x, ast.Constant) for x in (vals[0].body, vals[0].orelse)):
                # branch = "then" if <cond> else "else": a local that holds one of two constants
                return ("constlocal", e.id, tuple(sorted(str(x.value) for x in (vals[0].body, vals[0].orelse))))
            if len(vals) == 1:
                v = vals[0]
                if isinstance(v, tuple) and v[0] == "unpack":
                    inner = self.term(v[1], env, depth + 1)
                    return ("unpack", inner, v[2])
                if isinstance(v, tuple):
                    return ("opaque", "aug:" + e.id)
                return self.term(v, env, depth + 1)
            return ("opaque", "local:" + e.id)
        if isinstance(e, ast.Subscript):
            if isinstance(e.slice, ast.Slice):
                return ("slice", self.term(e.value, env, depth + 1), norm(e.slice))
            return ("elem", self.term(e.value, env, depth + 1), self.term(e.slice, env, depth + 1))
        if isinstance(e, ast.Call):
            fn = e.func
            if isinstance(fn, ast.Name) and fn.id == "len" and len(e.args) == 1:
                return ("len", self.term(e.args[0], env, depth + 1))
            if isinstance(fn, ast.Attribute) and fn.attr == "get" and e.args:
                return ("elem", self.term(fn.value, env, depth + 1), self.term(e.args[0], env, depth + 1))
            tg = self.calls.callee(self.func, e)
            for t in tg:
                if t.kind == "func" and t.func is not None and len(e.args) == 1 and not e.keywords and _hands_containers_back(self.prog, t.func):
                    # ensure_list and its like: an array or object comes back as the very object given, so positions in the result
                    # are positions in the argument
                    return self.term(e.args[0], env, depth + 1)
            return ("opaque", norm(e)[:50])
        if isinstance(e, ast.BinOp):
            return ("opaque", "arith:" + norm(e)[:40])
        return ("opaque", norm(e)[:40])


_HCB = {}


def _hands_containers_back(prog, g):
    """g(x) is x for every list and dict x (evaluated by sa/tokeval.py); what it does to scalars is its own business."""
    key = (id(prog), g.qual)
    if key not in _HCB:
        ok = False
        if len(g.params) == 1 and g.cls is None:
            from .tokeval import Ev, Undecided, PyRaise
            try:
                ok = True
                for x in ([], [1, "a"], [[1]], {}, {"a": 1}):
                    if Ev(prog, fuel=2000).call_func(g, [x], {}) is not x:
                        ok = False
            except (Undecided, PyRaise, RecursionError):
                ok = False
        _HCB[key] = ok
    return _HCB[key]


def subst(t, binding):
    if not isinstance(t, tuple):
        return t
    if t and t[0] == "param" and t[1] in binding:
        return binding[t[1]]
    if t and t[0] == "tuple":
        return ("tuple", [subst(x, binding) for x in t[1]])
    return tuple(subst(x, binding) if isinstance(x, tuple) else x for x in t)


def show(t):
    if not isinstance(t, tuple) or not t:
        return str(t)
    k = t[0]
    if k == "param":
        return t[1]
    if k == "idx":
        return "index(%s)" % show(t[1])
    if k == "key":
        return "key(%s)" % show(t[1])
    if k == "member":
        return "member(%s)" % show(t[1])
    if k == "elem":
        return "%s[%s]" % (show(t[1]), show(t[2]))
    if k == "const":
        return repr(t[1])
    if k == "len":
        return "len(%s)" % show(t[1])
    if k == "tuple":
        return "(%s)" % ", ".join(show(x) for x in t[1])
    if k == "constlocal":
        return "%s in %s" % (t[1], list(t[2]))
    if k == "opaque":
        return "<%s>" % t[1]
    return str(t)
