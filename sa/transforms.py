"""Whole-module behaviour-preserving transformations for the self-test (DESIGN section 8, P1/P2/P6):
rename every local variable and positional parameter of keyword-style functions, reorder top-level definitions,
and re-emit the module through ast.unparse (which changes every line number and the layout)."""
import ast
import builtins


class LocalRenamer(ast.NodeTransformer):
    """Rename locals (assigned names, loop/with/except targets) and, for module-level functions whose parameters are never
    passed by keyword anywhere in the package, their parameters too."""

    def __init__(self, kw_used, prefix="zz_"):
        self.kw_used = kw_used      # parameter names that appear as keyword arguments somewhere in the package
        self.prefix = prefix

    def visit_FunctionDef(self, node):
        # do not touch functions that define nested functions/classes/lambdas (closures share names)
        for n in ast.walk(node):
            if n is not node and isinstance(n, (ast.FunctionDef, ast.ClassDef, ast.Lambda, ast.AsyncFunctionDef)):
                return node
            if isinstance(n, (ast.Global, ast.Nonlocal)):
                return node
        assigned = set()
        for n in ast.walk(node):
            if isinstance(n, ast.Name) and isinstance(n.ctx, (ast.Store, ast.Del)):
                assigned.add(n.id)
            if isinstance(n, ast.ExceptHandler) and n.name:
                assigned.add(n.name)
        params = [a.arg for a in node.args.posonlyargs + node.args.args]
        rename_params = [p for p in params if p not in ("self", "cls") and p not in self.kw_used
                         and not node.args.kwonlyargs and not node.args.vararg and not node.args.kwarg]
        # class methods: keep parameters (may be called by keyword from outside the package)
        if getattr(node, "_in_class", False):
            rename_params = []
        all_params = set(params) | {a.arg for a in node.args.kwonlyargs}
        if node.args.vararg:
            all_params.add(node.args.vararg.arg)
        if node.args.kwarg:
            all_params.add(node.args.kwarg.arg)
        imported = set()
        for n in ast.walk(node):
            if isinstance(n, (ast.Import, ast.ImportFrom)):
                for al in n.names:
                    imported.add((al.asname or al.name).split(".")[0])
        names = ((assigned - all_params - imported) | set(rename_params)) - set(dir(builtins))
        mapping = {n: self.prefix + n for n in names}

        class R(ast.NodeTransformer):
            def visit_Name(s, n):
                if n.id in mapping:
                    return ast.copy_location(ast.Name(id=mapping[n.id], ctx=n.ctx), n)
                return n

            def visit_arg(s, n):
                if n.arg in mapping:
                    n.arg = mapping[n.arg]
                return n

            def visit_ExceptHandler(s, n):
                if n.name in mapping:
                    n.name = mapping[n.name]
                s.generic_visit(n)
                return n
        return R().visit(node)

    def visit_ClassDef(self, node):
        for b in node.body:
            if isinstance(b, ast.FunctionDef):
                b._in_class = True
        self.generic_visit(node)
        return node


def keyword_names_used(trees):
    used = set()
    for t in trees:
        for n in ast.walk(t):
            if isinstance(n, ast.Call):
                for k in n.keywords:
                    if k.arg:
                        used.add(k.arg)
    return used


def rename_locals(sources):
    """sources: {relpath: text} of all package modules; returns new {relpath: text}."""
    trees = {p: ast.parse(s) for p, s in sources.items()}
    kw = keyword_names_used(trees.values())
    out = {}
    for p, t in trees.items():
        t2 = LocalRenamer(kw).visit(t)
        ast.fix_missing_locations(t2)
        out[p] = ast.unparse(t2) + "\n"
    return out


def reorder_functions(text):
    """Move every top-level function definition (with its decorators) that nothing at module level *calls* before
    the end of the module... kept simple: reverse the order of consecutive runs of plain (undecorated) top-level defs."""
    t = ast.parse(text)
    body = t.body
    out = []
    run = []
    for st in body:
        if isinstance(st, ast.FunctionDef) and not st.decorator_list:
            run.append(st)
        else:
            out += list(reversed(run))
            run = []
            out.append(st)
    out += list(reversed(run))
    t.body = out
    return ast.unparse(t) + "\n"
