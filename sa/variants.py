"""Variant corpus (DESIGN Appendix E). Each variant is a list of exact-once textual edits
(file relative to jsonschema/, old, new).  `expect` maps property id -> finding-key prefix that must appear.
A variant whose `old` text is absent from the tree under test is skipped."""

V = "validators.py"
KV = "_validators.py"
LV = "_legacy_validators.py"
U = "_utils.py"
F = "_format.py"
E = "exceptions.py"
T = "_types.py"
C = "cli.py"

VARIANTS = []


def brk(vid, desc, edits, expect):
    VARIANTS.append({"id": vid, "kind": "breaking", "desc": desc, "edits": edits, "expect": expect})


def keep(vid, desc, edits, pids=None):
    VARIANTS.append({"id": vid, "kind": "preserving", "desc": desc, "edits": edits, "pids": pids})


DISP_TRY = '''            if scope:
                self.resolver.push_scope(scope)
            try:

                for k, v in validators:
                    validator = self.VALIDATORS.get(k)
                    if validator is None:
                        continue

                    errors = validator(self, v, instance, _schema) or ()
                    for error in errors:
                        # set details if not already set by the called fn
                        error._set(
                            validator=k,
                            validator_value=v,
                            instance=instance,
                            schema=_schema,
                        )
                        if k not in {u"if", u"$ref"}:
                            error.schema_path.appendleft(k)
                        yield error
            finally:
                if scope:
                    self.resolver.pop_scope()
'''

brk("B01", "dispatcher: drop try/finally around the keyword loop", [(V, DISP_TRY, '''            if scope:
                self.resolver.push_scope(scope)
            if True:

                for k, v in validators:
                    validator = self.VALIDATORS.get(k)
                    if validator is None:
                        continue

                    errors = validator(self, v, instance, _schema) or ()
                    for error in errors:
                        # set details if not already set by the called fn
                        error._set(
                            validator=k,
                            validator_value=v,
                            instance=instance,
                            schema=_schema,
                        )
                        if k not in {u"if", u"$ref"}:
                            error.schema_path.appendleft(k)
                        yield error
            if scope:
                self.resolver.pop_scope()
''')], {"C02": "R2.2|", "C07": "R7.2|"})

REF_TRY = '''        try:
            for error in validator.descend(instance, resolved):
                yield error
        finally:
            validator.resolver.pop_scope()
'''
brk("B02", "ref: drop try/finally after push_scope", [(KV, REF_TRY, '''        for error in validator.descend(instance, resolved):
            yield error
        validator.resolver.pop_scope()
''')], {"C02": "R2.2|", "C07": "R7.2|"})

brk("B03", "ref: push the raw reference instead of the resolved URL", [(KV, "        validator.resolver.push_scope(scope)\n", "        validator.resolver.push_scope(ref)\n")],
    {"C02": "R2.3|"})

brk("B04", "dispatcher: iterate the schema's items even when $ref is present",
    [(V, '''                validators = [(u"$ref", ref)]''', '''                validators = _schema.items()''')],
    {"C02": "R2.1|", "C10": "R10.5a|"})

brk("B04b", "dispatcher: sibling id read before the $ref test (the pre-fix shape)",
    [(V, '''                scope = u""
                validators = [(u"$ref", ref)]''', '''                scope = id_of(_schema)
                validators = [(u"$ref", ref)]''')],
    {"C02": "R2.1b|", "C10": "R10.5b|"})

brk("B05", "resolve: join against the bottom of the scope stack",
    [(V, "        url = self._urljoin_cache(self.resolution_scope, ref)", "        url = self._urljoin_cache(self._scopes_stack[0], ref)")],
    {"C02": "R2.4|"})

brk("B05b", "resolving(): pop missing on the exception path",
    [(V, '''        url, resolved = self.resolve(ref)
        self.push_scope(url)
        try:
            yield resolved
        finally:
            self.pop_scope()''', '''        url, resolved = self.resolve(ref)
        self.push_scope(url)
        yield resolved
        self.pop_scope()''')],
    {"C02": "R2.2|", "C07": "R7.2|"})

brk("B12", "required: return after the first yield",
    [(KV, '''            yield ValidationError("%r is a required property" % property)
''', '''            yield ValidationError("%r is a required property" % property)
            return
''')], {"C05": "R5.2|"})

brk("B13", "dispatcher: break after the first keyword with errors",
    [(V, '''                        yield error
            finally:''', '''                        yield error
                    if errors:
                        break
            finally:''')], {"C05": "R5.1|"})

brk("B14", "properties: read schema.get('title') into control flow",
    [(KV, '''    for property, subschema in properties.items():
        if property in instance:
            for error in validator.descend(
                instance[property],
                subschema,
                path=property,
                schema_path=property,
            ):
                yield error


def required''', '''    for property, subschema in properties.items():
        if property in instance and schema.get("title") != "skip":
            for error in validator.descend(
                instance[property],
                subschema,
                path=property,
                schema_path=property,
            ):
                yield error


def required''')], {"C05": "R5.3|", "C10": "R10.1|"})

brk("B15", "a keyword function appends to a module-level list",
    [(KV, '''def minItems(validator, mI, instance, schema):
''', '''_SEEN = []


def minItems(validator, mI, instance, schema):
    _SEEN.append(mI)
''')], {"C05": "R5.4|"})

brk("B15b", "anyOf: break out of the subschema loop after collecting the first errors and yielding",
    [(KV, '''def allOf(validator, allOf, instance, schema):
    for index, subschema in enumerate(allOf):
        for error in validator.descend(instance, subschema, schema_path=index):
            yield error
''', '''def allOf(validator, allOf, instance, schema):
    for index, subschema in enumerate(allOf):
        for error in validator.descend(instance, subschema, schema_path=index):
            yield error
            break
''')], {"C05": "R5.2|"})

brk("B15c", "required: one summary error after the loop instead of one per missing name",
    [(KV, '''    for property in required:
        if property not in instance:
            yield ValidationError("%r is a required property" % property)
''', '''    missing = [property for property in required if property not in instance]
    if missing:
        yield ValidationError("%r is a required property" % missing[0])
''')], {"C05": "R5.5|"})

brk("B32", "Draft 4 table: add const", [(V, '''        u"anyOf": _validators.anyOf,
        u"dependencies": _validators.dependencies,
        u"enum": _validators.enum,
        u"format": _validators.format,
        u"items": _legacy_validators.items_draft3_draft4,''', '''        u"anyOf": _validators.anyOf,
        u"const": _validators.const,
        u"dependencies": _validators.dependencies,
        u"enum": _validators.enum,
        u"format": _validators.format,
        u"items": _legacy_validators.items_draft3_draft4,''')], {"C10": "R1.1|", "C01": "R1.1|"})

brk("B33", "Draft 7 table: drop contains", [(V, '''        u"const": _validators.const,
        u"contains": _validators.contains,
        u"dependencies": _validators.dependencies,
        u"enum": _validators.enum,
        u"exclusiveMaximum": _validators.exclusiveMaximum,
        u"exclusiveMinimum": _validators.exclusiveMinimum,
        u"format": _validators.format,
        u"if": _validators.if_,''', '''        u"const": _validators.const,
        u"dependencies": _validators.dependencies,
        u"enum": _validators.enum,
        u"exclusiveMaximum": _validators.exclusiveMaximum,
        u"exclusiveMinimum": _validators.exclusiveMinimum,
        u"format": _validators.format,
        u"if": _validators.if_,''')], {"C01": "R1.1|", "C10": "R1.1|"})

brk("B35", "Draft 4 id_of reads $id", [(V, '''    type_checker=_types.draft4_type_checker,
    version="draft4",
    id_of=lambda schema: schema.get(u"id", ""),''', '''    type_checker=_types.draft4_type_checker,
    version="draft4",
    id_of=lambda schema: schema.get(u"$id", ""),''')], {"C10": "R10.4|", "C20": "R20.5|", "C11": "R11.5|"})

brk("B35b", "dispatcher: unknown keyword yields a warning error instead of being skipped",
    [(V, '''                    if validator is None:
                        continue
''', '''                    if validator is None:
                        if k.startswith(u"x-"):
                            yield exceptions.ValidationError("unknown %r" % k)
                        continue
''')], {"C10": "R10.2|"})

brk("B35c", "additionalProperties helper iterates the whole schema object",
    [(U, '''    properties = schema.get("properties", {})
    patterns = "|".join(schema.get("patternProperties", {}))''', '''    properties = schema.get("properties", {})
    if len(schema) > 50:
        return
    patterns = "|".join(schema.get("patternProperties", {}))''')], {"C10": "R10.3|"})

brk("B70", "disallow: sort the keyword value in place",
    [(LV, '''    for disallowed in _utils.ensure_list(disallow):''', '''    disallow = _utils.ensure_list(disallow)
    disallow.sort(key=repr)
    for disallowed in disallow:''')], {"C07": "R7.1|"})

brk("B71", "additionalProperties: pop handled properties from the instance",
    [(KV, '''    extras = set(find_additional_properties(instance, schema))

    if validator.is_type(aP, "object"):''', '''    extras = set(find_additional_properties(instance, schema))
    for extra in list(extras):
        if extra.startswith("_"):
            instance.pop(extra)
            extras.discard(extra)

    if validator.is_type(aP, "object"):''')], {"C07": "R7.1|"})

brk("B72", "resolve_remote: store written in a finally block",
    [(V, '''        if self.cache_remote:
            self.store[uri] = result
        return result''', '''        try:
            return result
        finally:
            if self.cache_remote:
                self.store[uri] = result''')], {"C07": "R7.3|"})

brk("B73", "is_valid remembers the last verdict on the validator",
    [(V, '''            error = next(self.iter_errors(instance, _schema), None)
            return error is None''', '''            error = next(self.iter_errors(instance, _schema), None)
            self._last = error
            return error is None''')], {"C07": "R7.1b|"})

# --------------------------------------------------------------------------- preserving
keep("P03a", "minItems: and-form -> early-return form",
     [(KV, '''def minItems(validator, mI, instance, schema):
    if validator.is_type(instance, "array") and len(instance) < mI:
        yield ValidationError("%r is too short" % (instance,))''', '''def minItems(validator, mI, instance, schema):
    if not validator.is_type(instance, "array"):
        return
    if len(instance) < mI:
        yield ValidationError("%r is too short" % (instance,))''')])

keep("P03b", "minimum: early-return form -> and-form",
     [(KV, '''def minimum(validator, minimum, instance, schema):
    if not validator.is_type(instance, "number"):
        return

    if instance < minimum:
        yield''', '''def minimum(validator, minimum, instance, schema):
    if validator.is_type(instance, "number") and instance < minimum:
        yield''')])

keep("P04", "allOf: for/yield -> yield from",
     [(KV, '''    for index, subschema in enumerate(allOf):
        for error in validator.descend(instance, subschema, schema_path=index):
            yield error
''', '''    for index, subschema in enumerate(allOf):
        yield from validator.descend(instance, subschema, schema_path=index)
''')])

keep("P05", "additionalItems: hoist schema.get('items', []) into a local",
     [(KV, '''    len_items = len(schema.get("items", []))
    if validator.is_type(aI, "object"):
        for index, item in enumerate(instance[len_items:], start=len_items):
            for error in validator.descend(item, aI, path=index):
                yield error
    elif not aI and len(instance) > len(schema.get("items", [])):
        error = "Additional items are not allowed (%s %s unexpected)"
        yield ValidationError(
            error %
            extras_msg(instance[len(schema.get("items", [])):])
        )''', '''    the_items = schema.get("items", [])
    len_items = len(the_items)
    if validator.is_type(aI, "object"):
        for index, item in enumerate(instance[len_items:], start=len_items):
            for error in validator.descend(item, aI, path=index):
                yield error
    elif not aI and len(instance) > len_items:
        error = "Additional items are not allowed (%s %s unexpected)"
        yield ValidationError(
            error %
            extras_msg(instance[len_items:])
        )''')])

keep("P06", "reformat: blank lines and comments shift every line of _validators.py",
     [(KV, '''from fractions import Fraction
import re
''', '''# reformatted


from fractions import Fraction

import re


''')])

keep("P08", "resolve_fragment: split the replace chain into two statements",
     [(V, '''            part = part.replace(u"~1", u"/").replace(u"~0", u"~")''', '''            part = part.replace(u"~1", u"/")
            part = part.replace(u"~0", u"~")''')])

keep("P09", "create: dict(x) -> {**x}",
     [(V, '''        VALIDATORS = dict(validators)
        META_SCHEMA = dict(meta_schema)''', '''        VALIDATORS = {**validators}
        META_SCHEMA = {**meta_schema}''')])

keep("P10", "descend call: keyword <-> positional arguments",
     [(KV, '''                for error in validator.descend(
                    v, subschema, path=k, schema_path=pattern,
                ):''', '''                for error in validator.descend(
                    instance=v, schema=subschema, path=k, schema_path=pattern,
                ):''')])

keep("P11", "minimum_draft3_draft4: replace the `failed` temporary by direct ifs",
     [(LV, '''    if schema.get("exclusiveMinimum", False):
        failed = instance <= minimum
        cmp = "less than or equal to"
    else:
        failed = instance < minimum
        cmp = "less than"

    if failed:
        yield ValidationError(
            "%r is %s the minimum of %r" % (instance, cmp, minimum)
        )''', '''    if schema.get("exclusiveMinimum", False):
        if instance <= minimum:
            yield ValidationError(
                "%r is %s the minimum of %r" % (instance, "less than or equal to", minimum)
            )
    elif instance < minimum:
        yield ValidationError(
            "%r is %s the minimum of %r" % (instance, "less than", minimum)
        )''')])

keep("P12", "run: exit_code |= x -> exit_code = exit_code | x",
     [(C, '''            exit_code |= _validate_instance(''', '''            exit_code = exit_code | _validate_instance(''')])

keep("P14", "dispatcher: ref test inverted (is None first)",
     [(V, '''            if ref is not None:
                # everything next to ``$ref`` is ignored, its id included
                scope = u""
                validators = [(u"$ref", ref)]
            else:
                scope = id_of(_schema)
                validators = _schema.items()
''', '''            if ref is None:
                scope = id_of(_schema)
                validators = _schema.items()
            else:
                scope = u""
                validators = [(u"$ref", ref)]
''')])

keep("P15", "ref: rename locals",
     [(KV, '''        scope, resolved = validator.resolver.resolve(ref)
        validator.resolver.push_scope(scope)

        try:
            for error in validator.descend(instance, resolved):
                yield error
        finally:
            validator.resolver.pop_scope()''', '''        target_url, target = validator.resolver.resolve(ref)
        validator.resolver.push_scope(target_url)

        try:
            for err in validator.descend(instance, target):
                yield err
        finally:
            validator.resolver.pop_scope()''')])

keep("P16", "required: rename parameters positionally",
     [(KV, '''def required(validator, required, instance, schema):
    if not validator.is_type(instance, "object"):
        return
    for property in required:
        if property not in instance:
            yield ValidationError("%r is a required property" % property)''', '''def required(v, names, inst, sch):
    if not v.is_type(inst, "object"):
        return
    for name in names:
        if name not in inst:
            yield ValidationError("%r is a required property" % name)''')])

keep("P17", "dispatcher: pop in finally written with the same guard via a local alias is NOT used; instead keep guard, add a comment line",
     [(V, '''            finally:
                if scope:
                    self.resolver.pop_scope()''', '''            finally:
                # leave the scope entered above
                if scope:
                    self.resolver.pop_scope()''')])
