"""Variant corpus (DESIGN Appendix E). Each variant is a list of exact-once textual edits
(file relative to jsonschema/, old, new).  `expect` maps property id -> finding-key prefix that must appear.
A variant whose `old` text is absent from the tree under test is skipped."""

V = "validators.py"
KV = "_validators.py"
LV = "_legacy_validators.py"
U = "_utils.py"
F = "_format.py"
E = "exceptions.py"
T = "_types.py"
C = "cli.py"

VARIANTS = []


def brk(vid, desc, edits, expect):
    VARIANTS.append({"id": vid, "kind": "breaking", "desc": desc, "edits": edits, "expect": expect})


def keep(vid, desc, edits, pids=None):
    VARIANTS.append({"id": vid, "kind": "preserving", "desc": desc, "edits": edits, "pids": pids})


DISP_TRY = '''            if scope:
                self.resolver.push_scope(scope)
            try:

                for k, v in validators:
                    validator = self.VALIDATORS.get(k)
                    if validator is None:
                        continue

                    errors = validator(self, v, instance, _schema) or ()
                    for error in errors:
                        # set details if not already set by the called fn
                        error._set(
                            validator=k,
                            validator_value=v,
                            instance=instance,
                            schema=_schema,
                        )
                        if k not in {u"if", u"$ref"}:
                            error.schema_path.appendleft(k)
                        yield error
            finally:
                if scope:
                    self.resolver.pop_scope()
'''

brk("B01", "dispatcher: drop try/finally around the keyword loop", [(V, DISP_TRY, '''            if scope:
                self.resolver.push_scope(scope)
            if True:

                for k, v in validators:
                    validator = self.VALIDATORS.get(k)
                    if validator is None:
                        continue

                    errors = validator(self, v, instance, _schema) or ()
                    for error in errors:
                        # set details if not already set by the called fn
                        error._set(
                            validator=k,
                            validator_value=v,
                            instance=instance,
                            schema=_schema,
                        )
                        if k not in {u"if", u"$ref"}:
                            error.schema_path.appendleft(k)
                        yield error
            if scope:
                self.resolver.pop_scope()
''')], {"C02": "R2.2|", "C07": "R7.2|"})

REF_TRY = '''        try:
            for error in validator.descend(instance, resolved):
                yield error
        finally:
            validator.resolver.pop_scope()
'''
brk("B02", "ref: drop try/finally after push_scope", [(KV, REF_TRY, '''        for error in validator.descend(instance, resolved):
            yield error
        validator.resolver.pop_scope()
''')], {"C02": "R2.2|", "C07": "R7.2|"})

brk("B03", "ref: push the raw reference instead of the resolved URL", [(KV, "        validator.resolver.push_scope(scope)\n", "        validator.resolver.push_scope(ref)\n")],
    {"C02": "R2.3|"})

brk("B04", "dispatcher: iterate the schema's items even when $ref is present",
    [(V, '''                validators = [(u"$ref", ref)]''', '''                validators = _schema.items()''')],
    {"C02": "R2.1|", "C10": "R10.5a|"})

brk("B04b", "dispatcher: sibling id read before the $ref test (the pre-fix shape)",
    [(V, '''                scope = u""
                validators = [(u"$ref", ref)]''', '''                scope = id_of(_schema)
                validators = [(u"$ref", ref)]''')],
    {"C02": "R2.1b|", "C10": "R10.5b|"})

brk("B05", "resolve: join against the bottom of the scope stack",
    [(V, "        url = self._urljoin_cache(self.resolution_scope, ref)", "        url = self._urljoin_cache(self._scopes_stack[0], ref)")],
    {"C02": "R2.4|"})

brk("B05b", "resolving(): pop missing on the exception path",
    [(V, '''        url, resolved = self.resolve(ref)
        self.push_scope(url)
        try:
            yield resolved
        finally:
            self.pop_scope()''', '''        url, resolved = self.resolve(ref)
        self.push_scope(url)
        yield resolved
        self.pop_scope()''')],
    {"C02": "R2.2|", "C07": "R7.2|"})

brk("B12", "required: return after the first yield",
    [(KV, '''            yield ValidationError("%r is a required property" % property)
''', '''            yield ValidationError("%r is a required property" % property)
            return
''')], {"C05": "R5.2|"})

brk("B13", "dispatcher: break after the first keyword with errors",
    [(V, '''                        yield error
            finally:''', '''                        yield error
                    if errors:
                        break
            finally:''')], {"C05": "R5.1|"})

brk("B14", "properties: read schema.get('title') into control flow",
    [(KV, '''    for property, subschema in properties.items():
        if property in instance:
            for error in validator.descend(
                instance[property],
                subschema,
                path=property,
                schema_path=property,
            ):
                yield error


def required''', '''    for property, subschema in properties.items():
        if property in instance and schema.get("title") != "skip":
            for error in validator.descend(
                instance[property],
                subschema,
                path=property,
                schema_path=property,
            ):
                yield error


def required''')], {"C05": "R5.3|", "C10": "R10.1|"})

brk("B15", "a keyword function appends to a module-level list",
    [(KV, '''def minItems(validator, mI, instance, schema):
''', '''_SEEN = []


def minItems(validator, mI, instance, schema):
    _SEEN.append(mI)
''')], {"C05": "R5.4|"})

brk("B15b", "anyOf: break out of the subschema loop after collecting the first errors and yielding",
    [(KV, '''def allOf(validator, allOf, instance, schema):
    for index, subschema in enumerate(allOf):
        for error in validator.descend(instance, subschema, schema_path=index):
            yield error
''', '''def allOf(validator, allOf, instance, schema):
    for index, subschema in enumerate(allOf):
        for error in validator.descend(instance, subschema, schema_path=index):
            yield error
            break
''')], {"C05": "R5.2|"})

brk("B15c", "required: one summary error after the loop instead of one per missing name",
    [(KV, '''    for property in required:
        if property not in instance:
            yield ValidationError("%r is a required property" % property)
''', '''    missing = [property for property in required if property not in instance]
    if missing:
        yield ValidationError("%r is a required property" % missing[0])
''')], {"C05": "R5.5|"})

brk("B32", "Draft 4 table: add const", [(V, '''        u"anyOf": _validators.anyOf,
        u"dependencies": _validators.dependencies,
        u"enum": _validators.enum,
        u"format": _validators.format,
        u"items": _legacy_validators.items_draft3_draft4,''', '''        u"anyOf": _validators.anyOf,
        u"const": _validators.const,
        u"dependencies": _validators.dependencies,
        u"enum": _validators.enum,
        u"format": _validators.format,
        u"items": _legacy_validators.items_draft3_draft4,''')], {"C10": "R1.1|", "C01": "R1.1|"})

brk("B33", "Draft 7 table: drop contains", [(V, '''        u"const": _validators.const,
        u"contains": _validators.contains,
        u"dependencies": _validators.dependencies,
        u"enum": _validators.enum,
        u"exclusiveMaximum": _validators.exclusiveMaximum,
        u"exclusiveMinimum": _validators.exclusiveMinimum,
        u"format": _validators.format,
        u"if": _validators.if_,''', '''        u"const": _validators.const,
        u"dependencies": _validators.dependencies,
        u"enum": _validators.enum,
        u"exclusiveMaximum": _validators.exclusiveMaximum,
        u"exclusiveMinimum": _validators.exclusiveMinimum,
        u"format": _validators.format,
        u"if": _validators.if_,''')], {"C01": "R1.1|", "C10": "R1.1|"})

brk("B35", "Draft 4 id_of reads $id", [(V, '''    type_checker=_types.draft4_type_checker,
    version="draft4",
    id_of=lambda schema: schema.get(u"id", ""),''', '''    type_checker=_types.draft4_type_checker,
    version="draft4",
    id_of=lambda schema: schema.get(u"$id", ""),''')], {"C10": "R10.4|", "C20": "R20.5|", "C11": "R11.5|"})

brk("B35b", "dispatcher: unknown keyword yields a warning error instead of being skipped",
    [(V, '''                    if validator is None:
                        continue
''', '''                    if validator is None:
                        if k.startswith(u"x-"):
                            yield exceptions.ValidationError("unknown %r" % k)
                        continue
''')], {"C10": "R10.2|"})

brk("B35c", "additionalProperties helper iterates the whole schema object",
    [(U, '''    properties = schema.get("properties", {})
    patterns = schema.get("patternProperties", {})''', '''    properties = schema.get("properties", {})
    if len(schema) > 50:
        return
    patterns = schema.get("patternProperties", {})''')], {"C10": "R10.3|"})

brk("B70", "disallow: sort the keyword value in place",
    [(LV, '''    for disallowed in _utils.ensure_list(disallow):''', '''    disallow = _utils.ensure_list(disallow)
    disallow.sort(key=repr)
    for disallowed in disallow:''')], {"C07": "R7.1|"})

brk("B71", "additionalProperties: pop handled properties from the instance",
    [(KV, '''    extras = set(find_additional_properties(instance, schema))

    if validator.is_type(aP, "object"):''', '''    extras = set(find_additional_properties(instance, schema))
    for extra in list(extras):
        if extra.startswith("_"):
            instance.pop(extra)
            extras.discard(extra)

    if validator.is_type(aP, "object"):''')], {"C07": "R7.1|"})

brk("B72", "resolve_remote: store written in a finally block",
    [(V, '''        if self.cache_remote:
            self.store[uri] = result
        return result''', '''        try:
            return result
        finally:
            if self.cache_remote:
                self.store[uri] = result''')], {"C07": "R7.3|"})

brk("B73", "is_valid remembers the last verdict on the validator",
    [(V, '''            error = next(self.iter_errors(instance, _schema), None)
            return error is None''', '''            error = next(self.iter_errors(instance, _schema), None)
            self._last = error
            return error is None''')], {"C07": "R7.1b|"})

# --------------------------------------------------------------------------- preserving
keep("P03a", "minItems: and-form -> early-return form",
     [(KV, '''def minItems(validator, mI, instance, schema):
    if validator.is_type(instance, "array") and len(instance) < mI:
        yield ValidationError("%r is too short" % (instance,))''', '''def minItems(validator, mI, instance, schema):
    if not validator.is_type(instance, "array"):
        return
    if len(instance) < mI:
        yield ValidationError("%r is too short" % (instance,))''')])

keep("P03b", "minimum: early-return form -> and-form",
     [(KV, '''def minimum(validator, minimum, instance, schema):
    if not validator.is_type(instance, "number"):
        return

    if instance < minimum:
        yield''', '''def minimum(validator, minimum, instance, schema):
    if validator.is_type(instance, "number") and instance < minimum:
        yield''')])

keep("P04", "allOf: for/yield -> yield from",
     [(KV, '''    for index, subschema in enumerate(allOf):
        for error in validator.descend(instance, subschema, schema_path=index):
            yield error
''', '''    for index, subschema in enumerate(allOf):
        yield from validator.descend(instance, subschema, schema_path=index)
''')])

keep("P05", "additionalItems: hoist schema.get('items', []) into a local",
     [(KV, '''    len_items = len(schema.get("items", []))
    if validator.is_type(aI, "object"):
        for index, item in enumerate(instance[len_items:], start=len_items):
            for error in validator.descend(item, aI, path=index):
                yield error
    elif not aI and len(instance) > len(schema.get("items", [])):
        error = "Additional items are not allowed (%s %s unexpected)"
        yield ValidationError(
            error %
            extras_msg(instance[len(schema.get("items", [])):])
        )''', '''    the_items = schema.get("items", [])
    len_items = len(the_items)
    if validator.is_type(aI, "object"):
        for index, item in enumerate(instance[len_items:], start=len_items):
            for error in validator.descend(item, aI, path=index):
                yield error
    elif not aI and len(instance) > len_items:
        error = "Additional items are not allowed (%s %s unexpected)"
        yield ValidationError(
            error %
            extras_msg(instance[len_items:])
        )''')])

keep("P06", "reformat: blank lines and comments shift every line of _validators.py",
     [(KV, '''from fractions import Fraction
import re
''', '''# reformatted


from fractions import Fraction

import re


''')])

keep("P08", "resolve_fragment: split the replace chain into two statements",
     [(V, '''            part = part.replace(u"~1", u"/").replace(u"~0", u"~")''', '''            part = part.replace(u"~1", u"/")
            part = part.replace(u"~0", u"~")''')])

keep("P09", "create: dict(x) -> {**x}",
     [(V, '''        VALIDATORS = dict(validators)
        META_SCHEMA = dict(meta_schema)''', '''        VALIDATORS = {**validators}
        META_SCHEMA = {**meta_schema}''')])

keep("P10", "descend call: keyword <-> positional arguments",
     [(KV, '''                for error in validator.descend(
                    v, subschema, path=k, schema_path=pattern,
                ):''', '''                for error in validator.descend(
                    instance=v, schema=subschema, path=k, schema_path=pattern,
                ):''')])

keep("P11", "minimum_draft3_draft4: replace the `failed` temporary by direct ifs",
     [(LV, '''    if schema.get("exclusiveMinimum", False):
        failed = instance <= minimum
        cmp = "less than or equal to"
    else:
        failed = instance < minimum
        cmp = "less than"

    if failed:
        yield ValidationError(
            "%r is %s the minimum of %r" % (instance, cmp, minimum)
        )''', '''    if schema.get("exclusiveMinimum", False):
        if instance <= minimum:
            yield ValidationError(
                "%r is %s the minimum of %r" % (instance, "less than or equal to", minimum)
            )
    elif instance < minimum:
        yield ValidationError(
            "%r is %s the minimum of %r" % (instance, "less than", minimum)
        )''')])

keep("P12", "run: exit_code |= x -> exit_code = exit_code | x",
     [(C, '''            exit_code |= _validate_instance(''', '''            exit_code = exit_code | _validate_instance(''')])

keep("P14", "dispatcher: ref test inverted (is None first)",
     [(V, '''            if ref is not None:
                # everything next to ``$ref`` is ignored, its id included
                scope = u""
                validators = [(u"$ref", ref)]
            else:
                scope = id_of(_schema)
                validators = _schema.items()
''', '''            if ref is None:
                scope = id_of(_schema)
                validators = _schema.items()
            else:
                scope = u""
                validators = [(u"$ref", ref)]
''')])

keep("P15", "ref: rename locals",
     [(KV, '''        scope, resolved = validator.resolver.resolve(ref)
        validator.resolver.push_scope(scope)

        try:
            for error in validator.descend(instance, resolved):
                yield error
        finally:
            validator.resolver.pop_scope()''', '''        target_url, target = validator.resolver.resolve(ref)
        validator.resolver.push_scope(target_url)

        try:
            for err in validator.descend(instance, target):
                yield err
        finally:
            validator.resolver.pop_scope()''')])

keep("P16", "required: rename parameters positionally",
     [(KV, '''def required(validator, required, instance, schema):
    if not validator.is_type(instance, "object"):
        return
    for property in required:
        if property not in instance:
            yield ValidationError("%r is a required property" % property)''', '''def required(v, names, inst, sch):
    if not v.is_type(inst, "object"):
        return
    for name in names:
        if name not in inst:
            yield ValidationError("%r is a required property" % name)''')])

keep("P17", "dispatcher: pop in finally written with the same guard via a local alias is NOT used; instead keep guard, add a comment line",
     [(V, '''            finally:
                if scope:
                    self.resolver.pop_scope()''', '''            finally:
                # leave the scope entered above
                if scope:
                    self.resolver.pop_scope()''')])


# --------------------------------------------------------------------------- C04 / C06 / C11 / C12 / C15 / C19 / C20
brk("B16", "items (Draft 6): path=index -> path=0",
    [(KV, '''        for index, item in enumerate(instance):
            for error in validator.descend(item, items, path=index):
                yield error


def additionalItems''', '''        for index, item in enumerate(instance):
            for error in validator.descend(item, items, path=0):
                yield error


def additionalItems''')], {"C06": "R6.1|"})

brk("B17", "patternProperties: schema_path is the member name instead of the pattern",
    [(KV, "v, subschema, path=k, schema_path=pattern,", "v, subschema, path=k, schema_path=k,")], {"C06": "R6.2|"})

brk("B17b", "items array form: schema path off by one",
    [(KV, '''            for error in validator.descend(
                item, subschema, path=index, schema_path=index,
            ):
                yield error
    else:
        for index, item in enumerate(instance):
            for error in validator.descend(item, items, path=index):''', '''            for error in validator.descend(
                item, subschema, path=index, schema_path=index + 1,
            ):
                yield error
    else:
        for index, item in enumerate(instance):
            for error in validator.descend(item, items, path=index):''')], {"C06": "R6.2|"})

brk("B17c", "additionalItems: enumerate start dropped (paths restart at 0)",
    [(KV, "for index, item in enumerate(instance[len_items:], start=len_items):", "for index, item in enumerate(instance[len_items:]):")],
    {"C06": "R6.1|"})

brk("B17d", "properties: path omitted",
    [(KV, '''            for error in validator.descend(
                instance[property],
                subschema,
                path=property,
                schema_path=property,
            ):
                yield error


def required''', '''            for error in validator.descend(
                instance[property],
                subschema,
                schema_path=property,
            ):
                yield error


def required''')], {"C06": "R6.1|"})

brk("B18", "descend: truthiness guard instead of `is not None`",
    [(V, '''                if path is not None:
                    error.path.appendleft(path)''', '''                if path:
                    error.path.appendleft(path)''')], {"C06": "R6.4|"})

brk("B19", "descend: append for appendleft",
    [(V, "                    error.schema_path.appendleft(schema_path)", "                    error.schema_path.append(schema_path)")], {"C06": "R6.4|"})

brk("B20", "dispatcher: keyword prepended to schema_path also for $ref",
    [(V, '''                        if k not in {u"if", u"$ref"}:''', '''                        if k not in {u"if"}:''')], {"C06": "R6.3|"})

brk("B21", "absolute_path: parent's path appended on the right",
    [(E, '''        path = deque(self.relative_path)
        path.extendleft(reversed(parent.absolute_path))
        return path''', '''        path = deque(self.relative_path)
        path.extend(parent.absolute_path)
        return path''')], {"C06": "R6.5|"})

brk("B21b", "dispatcher stamps the schema value as validator",
    [(V, '''                            validator=k,
                            validator_value=v,''', '''                            validator=v,
                            validator_value=k,''')], {"C06": "R6.3|"})

brk("B36", "is_valid ignores _schema",
    [(V, "            error = next(self.iter_errors(instance, _schema), None)", "            error = next(self.iter_errors(instance), None)")], {"C04": "R4.1|"})

brk("B37", "module validate: construct the validator before check_schema",
    [(V, '''    cls.check_schema(schema)
    validator = cls(schema, *args, **kwargs)''', '''    validator = cls(schema, *args, **kwargs)
    cls.check_schema(schema)''')], {"C04": "R4.3|"})

brk("B38", "_contents drops cause",
    [(E, '''            "message", "cause", "context", "validator", "validator_value",''', '''            "message", "context", "validator", "validator_value",''')], {"C04": "R4.4|"})

brk("B39", "best_match returns a copy",
    [(E, '''    while best.context:
        best = min(best.context, key=key)
    return best''', '''    while best.context:
        best = min(best.context, key=key)
    best = best.create_from(best)
    return best''')], {"C04": "R4.5|"})

brk("B39b", "validate() raises only errors that have a validator (skips false-schema errors)",
    [(V, '''            for error in self.iter_errors(*args, **kwargs):
                raise error''', '''            for error in self.iter_errors(*args, **kwargs):
                if error.validator is not None:
                    raise error''')], {"C04": "R4.2|"})

brk("B39c", "module validate raises only when best_match has no context",
    [(V, '''    if error is not None:
        raise error''', '''    if error is not None and not error.context:
        raise error''')], {"C04": "R4.2|"})

brk("B40", "check_schema passes a format checker",
    [(V, "            for error in cls(cls.META_SCHEMA).iter_errors(schema):", "            for error in cls(cls.META_SCHEMA, format_checker=_format_checker()).iter_errors(schema):")],
    {"C11": "R11.1|", "C04": "R4.4b|"})

brk("B41", "draft4.json: $ref to a missing definition",
    [("schemas/draft4.json", '"minItems": { "$ref": "#/definitions/positiveIntegerDefault0" }', '"minItems": { "$ref": "#/definitions/positiveIntegerDefault" }')],
    {"C11": "R11.2|"})

brk("B42", "draft6.json: unknown type name",
    [("schemas/draft6.json", '"type": "integer"', '"type": "integerr"')] if False else
    [("schemas/draft6.json", '"uniqueItems": {\n            "type": "boolean",', '"uniqueItems": {\n            "type": "booleann",')],
    {"C11": "R11.3|"})

brk("B43", "format: drop the `is not None` test",
    [(KV, '''    if validator.format_checker is not None:
        try:
            validator.format_checker.check(instance, format)
        except FormatError as error:
            yield ValidationError(error.message, cause=error.cause)''', '''    try:
        validator.format_checker.check(instance, format)
    except FormatError as error:
        yield ValidationError(error.message, cause=error.cause)''')], {"C12": "R12.1|", "C03": "R3.1|"})

brk("B44", "format: except Exception",
    [(KV, "        except FormatError as error:\n            yield ValidationError(error.message, cause=error.cause)",
      "        except Exception as error:\n            yield ValidationError(error.message, cause=error.cause)")], {"C12": "R12.2|"})

brk("B44b", "format: cause dropped",
    [(KV, "            yield ValidationError(error.message, cause=error.cause)", "            yield ValidationError(error.message)")], {"C12": "R12.2|"})

brk("B45", "check: drop the early return for unknown names",
    [(F, '''        if format not in self.checkers:
            return

        func, raises = self.checkers[format]''', '''        func, raises = self.checkers[format]''')], {"C12": "R12.3|", "C03": "R3.1|"})

brk("B45b", "check: FormatError only when the result is exactly False",
    [(F, "        if not result:\n            raise FormatError(", "        if result is False:\n            raise FormatError(")], {"C12": "R12.3|"})

brk("B45c", "check: catches Exception instead of the entry's raises",
    [(F, "        except raises as e:", "        except Exception as e:")], {"C12": "R12.3|"})

brk("B45d", "conforms: returns True in the handler",
    [(F, '''        except FormatError:
            return False
        else:
            return True''', '''        except FormatError:
            return True
        else:
            return True''')], {"C12": "R12.4|"})

brk("B46", "is_ipv4: drop the string guard",
    [(F, '''def is_ipv4(instance):
    if not isinstance(instance, str):
        return True
    return ipaddress.IPv4Address(instance)''', '''def is_ipv4(instance):
    return ipaddress.IPv4Address(instance)''')], {"C12": "R12.5|"})

brk("B46b", "is_email: non-strings fail",
    [(F, '''def is_email(instance):
    if not isinstance(instance, str):
        return True''', '''def is_email(instance):
    if not isinstance(instance, str):
        return False''')], {"C12": "R12.5|"})

brk("B46c", "is_date: guard accepts bytes too and examines them",
    [(F, '''def is_date(instance):
    if not isinstance(instance, str):
        return True''', '''def is_date(instance):
    if not isinstance(instance, (str, int)):
        return True''')], {"C12": "R12.5|"})

brk("B08", "resolve_remote: store write outside `if self.cache_remote`",
    [(V, '''        if self.cache_remote:
            self.store[uri] = result
        return result''', '''        self.store[uri] = result
        return result''')], {"C15": "R15.3|"})

brk("B09", "resolve_from_url: retrieval before the store lookup",
    [(V, '''        try:
            document = self.store[url]
        except KeyError:
            try:
                document = self.resolve_remote(url)
            except Exception as exc:
                raise exceptions.RefResolutionError(exc)
''', '''        try:
            document = self.resolve_remote(url)
        except Exception as exc:
            try:
                document = self.store[url]
            except KeyError:
                raise exceptions.RefResolutionError(exc)
''')], {"C15": "R15.1|"})

brk("B10", "URIDict.__getitem__: raw key",
    [(U, "        return self.store[self.normalize(uri)]", "        return self.store[uri]")], {"C15": "R15.5|"})

brk("B11", "resolve_from_url: drop the except Exception wrapper",
    [(V, '''            try:
                document = self.resolve_remote(url)
            except Exception as exc:
                raise exceptions.RefResolutionError(exc)
''', '''            document = self.resolve_remote(url)
''')], {"C15": "R15.2|", "C03": "R3.1|"})

brk("B11b", "resolver store is a plain dict",
    [(V, '''        self.store = _utils.URIDict(
            (id, validator.META_SCHEMA)
            for id, validator in meta_schemas.items()
        )''', '''        self.store = dict(
            (id, validator.META_SCHEMA)
            for id, validator in meta_schemas.items()
        )''')], {"C15": "R15.4|"})

brk("B11c", "remote cache shared across resolvers (class-level default)",
    [(V, '''        if remote_cache is None:
            remote_cache = lru_cache(1024)(self.resolve_from_url)''', '''        if remote_cache is None:
            remote_cache = self.resolve_from_url''')], {"C15": "R15.6|"})

brk("B60", "run: exit_code = _validate_instance(...)",
    [(C, "            exit_code |= _validate_instance(", "            exit_code = _validate_instance(")], {"C19": "R19.3|"})

brk("B61", "run: break after a load failure",
    [(C, '''        except _CannotLoadFile:
            exit_code = 1
        else:''', '''        except _CannotLoadFile:
            exit_code = 1
            break
        else:''')], {"C19": "R19.2|"})

brk("B62", "_validate_instance: report only the first error",
    [(C, '''        invalid = True
        outputter.validation_error(instance_path=instance_path, error=error)
''', '''        invalid = True
        outputter.validation_error(instance_path=instance_path, error=error)
        break
''')], {"C19": "R19.4|"})

brk("B63", "_Outputter.validation_error writes to stdout",
    [(C, "        self._stderr.write(self._formatter.validation_error(**kwargs))", "        self._stdout.write(self._formatter.validation_error(**kwargs))")],
    {"C19": "R19.5|"})

brk("B64", "run: return 0 when check_schema fails",
    [(C, '''            error=error,
        )
        return 1''', '''            error=error,
        )
        return 0''')], {"C19": "R19.1|"})

brk("B64b", "loaders catch JSONDecodeError only (the pre-fix shape)",
    [(C, '''        with file:
            try:
                return json.load(file)
            except (JSONDecodeError, UnicodeDecodeError):''', '''        with file:
            try:
                return json.load(file)
            except JSONDecodeError:''')], {"C19": "R19.7|"})

brk("B64c", "run: load failure resets the status of earlier instances",
    [(C, '''        except _CannotLoadFile:
            exit_code = 1
        else:''', '''        except _CannotLoadFile:
            exit_code = 0
        else:''')], {"C19": "R19.3|"})

brk("B64d", "plain success prints a line on stdout",
    [(C, '''    def validation_success(self, instance_path):
        return ""''', '''    def validation_success(self, instance_path):
        return "ok\\n"''')], {"C19": "R19.5|"})

brk("B65", "validator_for: drop the warning",
    [(V, '''    if schema[u"$schema"] not in meta_schemas:
        warn(
            (
                "The metaschema specified by $schema was not found. "
                "Using the latest draft to validate, but this will raise "
                "an error in the future."
            ),
            DeprecationWarning,
            stacklevel=2,
        )
    return meta_schemas.get''', '''    return meta_schemas.get''')], {"C20": "R20.1|"})

brk("B66", "validator_for: return default for unknown URIs",
    [(V, '''    return meta_schemas.get(schema[u"$schema"], _LATEST_VERSION)''', '''    return meta_schemas.get(schema[u"$schema"], default)''')], {"C20": "R20.1|"})

brk("B67", "validate: always call validator_for",
    [(V, '''    if cls is None:
        cls = validator_for(schema)

    cls.check_schema(schema)''', '''    cls = validator_for(schema)

    cls.check_schema(schema)''')], {"C20": "R20.3|"})

brk("B68", "_validates: meta_schemas.clear() before storing",
    [(V, '''        if meta_schema_id:
            meta_schemas[meta_schema_id] = cls''', '''        if meta_schema_id:
            meta_schemas.clear()
            meta_schemas[meta_schema_id] = cls''')], {"C20": "R20.4|"})

brk("B68b", "_LATEST_VERSION bound to Draft 6",
    [(V, "_LATEST_VERSION = Draft7Validator", "_LATEST_VERSION = Draft6Validator")], {"C20": "R20.2|"})

brk("B68c", "cli: --validator ignored when the schema declares $schema",
    [(C, '''    if arguments["validator"] is None:
        arguments["validator"] = validator_for(schema)''', '''    if arguments["validator"] is None or "$schema" in schema:
        arguments["validator"] = validator_for(schema)''')], {"C20": "R20.3|"})

brk("B68d", "draft7.json: $id without the trailing path (not the draft URI)",
    [("schemas/draft7.json", '"$id": "http://json-schema.org/draft-07/schema#"', '"$id": "http://json-schema.org/draft-07/schema-x#"')],
    {"C20": "R20.5|", "C11": "R11.5|"})

keep("P20", "check(): `if not result` written as `if result: return` + raise",
     [(F, '''        if not result:
            raise FormatError(
                "%r is not a %r" % (instance, format), cause=cause,
            )''', '''        if result:
            return
        raise FormatError(
            "%r is not a %r" % (instance, format), cause=cause,
        )''')])

keep("P21", "is_ipv6: guard written positively",
     [(F, '''def is_ipv6(instance):
    if not isinstance(instance, str):
        return True
    address = ipaddress.IPv6Address(instance)
    return not getattr(address, "scope_id", "")''', '''def is_ipv6(instance):
    if isinstance(instance, str):
        address = ipaddress.IPv6Address(instance)
        return not getattr(address, "scope_id", "")
    return True''')])

# formerly listed as behaviour-preserving (P22) -- it is not: `or` short-circuits, so once one instance has failed the later ones
# are loaded but never validated and their errors never reported.  Found by the CLI scenario table (R19.2/R19.4).
brk("B64e", "run: exit_code updated with `or` (later instances are not validated once one failed)",
    [(C, '''            exit_code |= _validate_instance(''', '''            exit_code = exit_code or _validate_instance(''')], {"C19": "R19."})

keep("P23", "validator_for: test order swapped in the `or` chain",
     [(V, '''    if schema is True or schema is False or u"$schema" not in schema:''', '''    if schema is False or schema is True or u"$schema" not in schema:''')])

keep("P24", "descend: guards swapped in order",
     [(V, '''                if path is not None:
                    error.path.appendleft(path)
                if schema_path is not None:
                    error.schema_path.appendleft(schema_path)''', '''                if schema_path is not None:
                    error.schema_path.appendleft(schema_path)
                if path is not None:
                    error.path.appendleft(path)''')])

keep("P25", "items: enumerate over instance hoisted into a local",
     [(KV, '''        for (index, item), subschema in zip(enumerate(instance), items):
            for error in validator.descend(
                item, subschema, path=index, schema_path=index,
            ):
                yield error
    else:
        for index, item in enumerate(instance):
            for error in validator.descend(item, items, path=index):''', '''        numbered = enumerate(instance)
        for (index, item), subschema in zip(numbered, items):
            for error in validator.descend(
                item, subschema, path=index, schema_path=index,
            ):
                yield error
    else:
        for index, item in enumerate(instance):
            for error in validator.descend(item, items, path=index):''')])


# --------------------------------------------------------------------------- C16 / C18
brk("B48", "create: VALIDATORS = validators (no copy)",
    [(V, "        VALIDATORS = dict(validators)", "        VALIDATORS = validators")], {"C16": "R16.1|"})

brk("B49", "extend: update the parent's table in place",
    [(V, '''    all_validators = dict(validator.VALIDATORS)
    all_validators.update(validators)''', '''    all_validators = validator.VALIDATORS
    all_validators.update(validators)''')], {"C16": "R16.2|"})

brk("B50", "extend: omit id_of=",
    [(V, '''        type_checker=type_checker,
        id_of=validator.ID_OF,
    )''', '''        type_checker=type_checker,
    )''')], {"C16": "R16.2|"})

brk("B51", "Validator.__init__: type(self).TYPE_CHECKER = ...",
    [(V, "                self.TYPE_CHECKER = self.TYPE_CHECKER.redefine_many(", "                type(self).TYPE_CHECKER = self.TYPE_CHECKER.redefine_many(")],
    {"C16": "R16.3|"})

brk("B52", "TypeChecker: converter=dict",
    [(T, "    _type_checkers = attr.ib(default=pmap(), converter=pmap)", "    _type_checkers = attr.ib(default=pmap(), converter=dict)")], {"C16": "R16.4|"})

brk("B53", "FormatChecker.__init__: skip the copy when formats is None",
    [(F, '''        if formats is None:
            self.checkers = self.checkers.copy()
        else:''', '''        if formats is None:
            pass
        else:''')], {"C16": "R16.5|"})

brk("B54", "draft4_format_checker = draft3_format_checker",
    [(F, "draft4_format_checker = FormatChecker()", "draft4_format_checker = draft3_format_checker")], {"C16": "R16.6|"})

brk("B54b", "extend writes the merged table back into the parent",
    [(V, '''    if type_checker is None:
        type_checker = validator.TYPE_CHECKER
    elif validator._CREATED''', '''    validator.VALIDATORS = all_validators
    if type_checker is None:
        type_checker = validator.TYPE_CHECKER
    elif validator._CREATED''')], {"C16": "R16.2|"})

brk("B54c", "redefine_many mutates through object.__setattr__",
    [(T, '''        return attr.evolve(
            self, type_checkers=self._type_checkers.update(definitions),
        )''', '''        object.__setattr__(self, "_type_checkers", self._type_checkers.update(definitions))
        return self''')], {"C16": "R16.4|"})

brk("B57", "module-level cache of resolved references filled in RefResolver.resolve",
    [(V, '''            url = self.base_uri + ref
        return url, self._remote_cache(url)''', '''            url = self.base_uri + ref
        if url not in _RESOLVED:
            _RESOLVED[url] = self._remote_cache(url)
        return url, _RESOLVED[url]''')], {"C18": "R18.2|"})

brk("B58", "lru_cache decorator on resolve_from_url at class level",
    [(V, '''    def resolve_from_url(self, url):''', '''    @lru_cache(1024)
    def resolve_from_url(self, url):''')], {"C18": "R18.3|"})

brk("B59", "validators without a resolver share one module-level default resolver",
    [(V, '''            if resolver is None:
                resolver = RefResolver.from_schema(schema, id_of=id_of)
''', '''            if resolver is None:
                resolver = _SHARED.setdefault(id_of(schema), RefResolver.from_schema(schema, id_of=id_of))
''')], {"C18": "R18."})

brk("B59b", "scope stack is a class attribute shared by all resolvers",
    [(V, '''        self._scopes_stack = [base_uri]''', '''        self._scopes_stack.append(base_uri)''')], {"C18": "R18.4|"})

brk("B59c", "pattern keyword memoises compiled patterns in a class-level dict on the validator class",
    [(KV, '''def pattern(validator, patrn, instance, schema):
    if (
        validator.is_type(instance, "string") and
        not re.search(patrn, instance)
    ):''', '''def pattern(validator, patrn, instance, schema):
    cache = validator.VALIDATORS.setdefault("__patterns__", {})
    if patrn not in cache:
        cache[patrn] = re.compile(patrn)
    if (
        validator.is_type(instance, "string") and
        not cache[patrn].search(instance)
    ):''')], {"C18": "R18.2|", "C05": "R5.4|"})


# --------------------------------------------------------------------------- C17
brk("B55", "ErrorTree.__init__: file under error.message",
    [(E, "            container.errors[error.validator] = error", "            container.errors[error.message] = error")], {"C17": "R17.2|"})

brk("B55b", "ErrorTree.__init__: walk through the checked __getitem__ (the pre-fix shape)",
    [(E, "                container = container._contents[element]", "                container = container[element]")], {"C17": "R17.1|"})

brk("B56", "total_errors: drop len(self.errors)",
    [(E, "        return len(self.errors) + child_errors", "        return child_errors")], {"C17": "R17.4|"})

brk("B56b", "total_errors: only the first child",
    [(E, "        child_errors = sum(len(tree) for _, tree in self._contents.items())",
      "        child_errors = sum(len(tree) for _, tree in list(self._contents.items())[:1])")], {"C17": "R17.4|"})

brk("B56c", "ErrorTree walk does not restart at the root",
    [(E, '''        for error in errors:
            container = self
            for element in error.path:''', '''        container = self
        for error in errors:
            for element in error.path:''')], {"C17": "R17.2|"})

brk("B56d", "__contains__ looks at the errors dict",
    [(E, "        return index in self._contents", "        return index in self.errors")], {"C17": "R17.3|"})

keep("P30", "total_errors without the temporary",
     [(E, '''        child_errors = sum(len(tree) for _, tree in self._contents.items())
        return len(self.errors) + child_errors''', '''        return len(self.errors) + sum(tree.total_errors for tree in self._contents.values())''')])


# --------------------------------------------------------------------------- C14
brk("B06", "resolve_fragment: swap the two replace calls",
    [(V, '''            part = part.replace(u"~1", u"/").replace(u"~0", u"~")''', '''            part = part.replace(u"~0", u"~").replace(u"~1", u"/")''')], {"C14": "R14.2|"})

brk("B07", "resolve_fragment: except LookupError only",
    [(V, "            except (TypeError, LookupError, ValueError):", "            except (LookupError, ValueError):")], {"C14": "R14.4|"})

brk("B07b", "resolve_fragment: lstrip('/') (pre-fix shape of the leading slash removal)",
    [(V, '''        fragment = unquote(fragment)
        if fragment.startswith(u"/"):
            fragment = fragment[1:]
            parts = fragment.split(u"/")
        else:
            parts = fragment.split(u"/") if fragment else []
''', '''        fragment = fragment.lstrip(u"/")
        parts = unquote(fragment).split(u"/") if fragment else []
''')], {"C14": "R14.1|"})

brk("B07c", "resolve_fragment: unquote after the split (per token)",
    [(V, '''        fragment = unquote(fragment)
        if fragment.startswith(u"/"):''', '''        if fragment.startswith(u"/"):'''),
     (V, '''            part = part.replace(u"~1", u"/").replace(u"~0", u"~")''', '''            part = unquote(part).replace(u"~1", u"/").replace(u"~0", u"~")''')], {"C14": "R14.2|"})

brk("B07d", "resolve_fragment: str admitted as an array",
    [(V, '''                    isinstance(document, Sequence) and
                    not isinstance(document, str) and
                    _ARRAY_INDEX.fullmatch(part)''', '''                    isinstance(document, Sequence) and
                    _ARRAY_INDEX.fullmatch(part)''')], {"C14": "R14.3|"})

brk("B07e", "resolve_fragment: index regex used with match (prefix match)",
    [(V, "                _ARRAY_INDEX.fullmatch(part)", "                _ARRAY_INDEX.match(part)")], {"C14": "R14.3|"})

brk("B07f", "resolve_fragment: index regex admits leading zeros",
    [(V, '''_ARRAY_INDEX = re.compile(u"0|[1-9][0-9]*")''', '''_ARRAY_INDEX = re.compile(u"[0-9]+")''')], {"C14": "R14.3|"})

brk("B07g", "resolve_fragment: empty fragment tokenised",
    [(V, '''            parts = fragment.split(u"/") if fragment else []''', '''            parts = fragment.split(u"/")''')], {"C14": "R14.4|"})

brk("B07h", "resolve_fragment: ~0 never unescaped",
    [(V, '''            part = part.replace(u"~1", u"/").replace(u"~0", u"~")''', '''            part = part.replace(u"~1", u"/")''')], {"C14": "R14.2|"})

brk("B07i", "resolve_fragment: failed lookup returns None instead of raising",
    [(V, '''            except (TypeError, LookupError, ValueError):
                raise exceptions.RefResolutionError(
                    "Unresolvable JSON pointer: %r" % fragment
                )''', '''            except (TypeError, LookupError, ValueError):
                return None''')], {"C14": "R14.4|"})


# --------------------------------------------------------------------------- C08
brk("B22", "uniq: drop unbool in the sort path",
    [(U, "            sort = sorted(unbool(i) for i in container)", "            sort = sorted(container)")], {"C08": "R8.1|"})

brk("B23", "enum: raw `in` (pre-fix shape)",
    [(KV, '''    if all(not equal(instance, each) for each in enums):
        yield ValidationError("%r is not one of %r" % (instance, enums))''', '''    if instance not in enums:
        yield ValidationError("%r is not one of %r" % (instance, enums))''')], {"C08": "R8.1|"})

brk("B23b", "enum: 0/1 special case next to a raw in (the pinned shape)",
    [(KV, '''    if all(not equal(instance, each) for each in enums):
        yield ValidationError("%r is not one of %r" % (instance, enums))''', '''    if instance == 0 or instance == 1:
        if all(not equal(instance, each) for each in enums):
            yield ValidationError("%r is not one of %r" % (instance, enums))
    elif instance not in enums:
        yield ValidationError("%r is not one of %r" % (instance, enums))''')], {"C08": "R8.1|"})

brk("B24", "unbool: map True to 1",
    [(U, "def unbool(element, true=object(), false=object()):", "def unbool(element, true=1, false=object()):")], {"C08": "R8.2|"})

brk("B24b", "unbool: shallow again (no list case)",
    [(U, '''    elif isinstance(element, list):
        return [unbool(each, true, false) for each in element]
''', '')], {"C08": "R8.3|"})

brk("B24c", "unbool: dict values left alone",
    [(U, "        return {k: unbool(v, true, false) for k, v in element.items()}", "        return dict(element)")], {"C08": "R8.3|"})

brk("B24d", "uniq brute-force path compares raw elements",
    [(U, '''            for e in container:
                e = unbool(e)
                if e in seen:''', '''            for e in container:
                if e in seen:''')], {"C08": "R8.1|"})

brk("B24e", "const: plain == instead of equal()",
    [(KV, "    if not equal(instance, const):", "    if instance != const:")], {"C08": "R8."})

brk("B24f", "unbool tests equality instead of identity",
    [(U, "    if element is True:\n        return true", "    if element == True:\n        return true")], {"C08": "R8.2|"})

keep("P31", "uniq: brute-force path with a differently named local",
     [(U, '''            for e in container:
                e = unbool(e)
                if e in seen:
                    return False
                seen.append(e)''', '''            for raw in container:
                normal = unbool(raw)
                if normal in seen:
                    return False
                seen.append(normal)''')])

keep("P32", "equal: temporaries",
     [(U, "    return unbool(one) == unbool(two)", "    left = unbool(one)\n    right = unbool(two)\n    return left == right")])


# --------------------------------------------------------------------------- C13
brk("B47", "is_ipv6: raises=()",
    [(F, '@_checks_drafts(name="ipv6", raises=ipaddress.AddressValueError)', '@_checks_drafts(name="ipv6")')], {"C13": "R13.1|"})

brk("B47b", "is_regex: raises=re.error only (pre-fix shape)",
    [(F, '''@_checks_drafts(
    name="regex",
    raises=(re.error, OverflowError, RecursionError, ValueError),
)''', '''@_checks_drafts(name="regex", raises=re.error)''')], {"C13": "R13.1|"})

brk("B47d", "is_regex: raises without ValueError (shape before the F-16 fix)",
    [(F, '''    raises=(re.error, OverflowError, RecursionError, ValueError),''', '''    raises=(re.error, OverflowError, RecursionError),''')], {"C13": "R13.1|"})

brk("B47c", "is_date: bare fromisoformat (pre-fix shape)",
    [(F, '''    if not _RFC3339_FULL_DATE.fullmatch(instance):
        return False
    return _is_date(instance)''', '''    return _is_date(instance)''')], {"C13": "R13.3|"})

# (was breaking variant B47d until the date table decided it: a prefix match lets "2020-01-01x" through to the parser, and the parser
# -- fromisoformat, or strptime with %Y-%m-%d -- refuses every such string: the verdicts are the same.  Kept as a preserving variant.)
keep("P61", "is_date: shape checked with match (prefix) instead of fullmatch -- the parser refuses whatever the prefix lets through",
     [(F, "    if not _RFC3339_FULL_DATE.fullmatch(instance):", "    if not _RFC3339_FULL_DATE.match(instance):")])

brk("B47e", "is_date: shape regex uses \\d without ASCII (non-ASCII digits reach fromisoformat)",
    [(F, '''_RFC3339_FULL_DATE = re.compile(r"[0-9]{4}-[0-9]{2}-[0-9]{2}")''', '''_RFC3339_FULL_DATE = re.compile(r"\\d{4}-\\d{2}-\\d{2}")''')], {"C13": "R13.3|"})

brk("B47f", "is_ipv6: zone ids accepted",
    [(F, '''    address = ipaddress.IPv6Address(instance)
    return not getattr(address, "scope_id", "")''', '''    return ipaddress.IPv6Address(instance)''')], {"C13": "R13.4|"})

brk("B47g", "is_ipv4: returns the packed integer (0.0.0.0 is falsy)",
    [(F, "    return ipaddress.IPv4Address(instance)", "    return int(ipaddress.IPv4Address(instance))")], {"C13": "R13.2|"})

brk("B47h", "is_idn_host_name: UnicodeError not listed",
    [(F, "        raises=(idna.IDNAError, UnicodeError),", "        raises=idna.IDNAError,")], {"C13": "R13.1|"})

brk("B47i", "is_draft3_time: raises dropped",
    [(F, '@_checks_drafts(draft3="time", raises=ValueError)', '@_checks_drafts(draft3="time")')], {"C13": "R13.1|"})


# --------------------------------------------------------------------------- C01
brk("B26", "minimum (Draft 6): < -> <=",
    [(KV, '''    if instance < minimum:
        yield ValidationError(
            "%r is less than the minimum of %r" % (instance, minimum)
        )''', '''    if instance <= minimum:
        yield ValidationError(
            "%r is less than the minimum of %r" % (instance, minimum)
        )''')], {"C01": "R1.3|"})

brk("B27", "minimum_draft3_draft4 ignores the modifier",
    [(LV, '''    if schema.get("exclusiveMinimum", False):
        failed = instance <= minimum''', '''    if False and schema.get("exclusiveMinimum", False):
        failed = instance <= minimum''')], {"C01": "R1.3|"})

brk("B27b", "maximum_draft3_draft4: modifier inverted",
    [(LV, '''    if schema.get("exclusiveMaximum", False):
        failed = instance >= maximum''', '''    if not schema.get("exclusiveMaximum", False):
        failed = instance >= maximum''')], {"C01": "R1.3|"})

brk("B28", "Draft 4 table: minimum bound to the Draft 6 function",
    [(V, '''        u"minProperties": _validators.minProperties,
        u"minimum": _legacy_validators.minimum_draft3_draft4,
        u"multipleOf": _validators.multipleOf,''', '''        u"minProperties": _validators.minProperties,
        u"minimum": _validators.minimum,
        u"multipleOf": _validators.multipleOf,''')], {"C01": "R1.3|", "C10": "R10.1|", "C05": "R5.3|"})

brk("B29", "minLength: drop the string gate",
    [(KV, '''    if validator.is_type(instance, "string") and len(instance) < mL:''', '''    if len(instance) < mL:''')], {"C01": "R1.2|", "C03": "R3.1|"})

brk("B29b", "maxItems compares with >=",
    [(KV, '''    if validator.is_type(instance, "array") and len(instance) > mI:''', '''    if validator.is_type(instance, "array") and len(instance) >= mI:''')], {"C01": "R1.3|"})

brk("B29c", "maxLength: operands swapped",
    [(KV, '''    if validator.is_type(instance, "string") and len(instance) > mL:''', '''    if validator.is_type(instance, "string") and mL > len(instance):''')], {"C01": "R1.3|"})

brk("B29d", "minProperties gated on array",
    [(KV, '''    if validator.is_type(instance, "object") and len(instance) < mP:''', '''    if validator.is_type(instance, "array") and len(instance) < mP:''')], {"C01": "R1."})

brk("B29e", "enum only applies to strings",
    [(KV, '''def enum(validator, enums, instance, schema):
''', '''def enum(validator, enums, instance, schema):
    if not validator.is_type(instance, "string"):
        return
''')], {"C01": "R1.2|"})

brk("B30", "find_additional_properties: re.search -> re.match",
    [(U, "            if any(re.search(pattern, property) for pattern in patterns):", "            if any(re.match(pattern, property) for pattern in patterns):")],
    {"C01": "R1.4|"})

brk("B30b", "patternProperties: fullmatch",
    [(KV, "            if re.search(pattern, k):", "            if re.fullmatch(pattern, k):")], {"C01": "R1.4|"})

brk("B30c", "find_additional_properties: joined alternation (pre-fix shape)",
    [(U, '''    patterns = schema.get("patternProperties", {})
    for property in instance:
        if property not in properties:
            if any(re.search(pattern, property) for pattern in patterns):''', '''    patterns = "|".join(schema.get("patternProperties", {}))
    for property in instance:
        if property not in properties:
            if patterns and re.search(patterns, property):''')], {"C01": "R1.4|"})

brk("B31", "extends_draft3: only the first two entries",
    [(LV, "    for index, subschema in enumerate(extends):", "    for index, subschema in enumerate(extends[:2]):")], {"C01": "R1.5|"})

brk("B31b", "allOf: islice",
    [(KV, '''def allOf(validator, allOf, instance, schema):
    for index, subschema in enumerate(allOf):''', '''def allOf(validator, allOf, instance, schema):
    import itertools
    for index, subschema in enumerate(itertools.islice(allOf, 8)):''')], {"C01": "R1.5|"})

brk("B31c", "additional properties: names starting with '$' are never additional",
    [(U, '''        if property not in properties:
            if any(''', '''        if property not in properties and not property.startswith("$"):
            if any(''')], {"C01": "R1.6|"})

brk("B34", "_types.is_integer: drop the bool exclusion",
    [(T, '''def is_integer(checker, instance):
    # bool inherits from int, so ensure bools aren't reported as ints
    if isinstance(instance, bool):
        return False
    return isinstance(instance, int)''', '''def is_integer(checker, instance):
    return isinstance(instance, int)''')], {"C01": "R1.7|"})

brk("B34b", "Draft 4 uses the Draft 6 type checker (integral floats are integers)",
    [(V, """    type_checker=_types.draft4_type_checker,""", """    type_checker=_types.draft6_type_checker,""")], {"C01": "R1.7|"})

brk("B34c", "is_number accepts booleans",
    [(T, '''def is_number(checker, instance):
    # bool inherits from int, so ensure bools aren't reported as ints
    if isinstance(instance, bool):
        return False
    return isinstance(instance, numbers.Number)''', '''def is_number(checker, instance):
    return isinstance(instance, numbers.Number)''')], {"C01": "R1.7|"})

brk("B34d", "required: reports names that ARE present",
    [(KV, '''    for property in required:
        if property not in instance:
            yield ValidationError("%r is a required property" % property)''', '''    for property in required:
        if property in instance:
            yield ValidationError("%r is a required property" % property)''')], {"C01": "R1.3b|"})


# --------------------------------------------------------------------------- C03
brk("B80", "additionalItems: len() of a possibly boolean items (pre-fix shape)",
    [(KV, '''        not validator.is_type(schema.get("items", {}), "array")''', '''        validator.is_type(schema.get("items", {}), "object")''')], {"C03": "R3.1|"})

brk("B81", "multipleOf: float division outside the try (pre-fix shape)",
    [(KV, '''        try:
            quotient = instance / dB
            failed = int(quotient) != quotient''', '''        quotient = instance / dB
        try:
            failed = int(quotient) != quotient''')], {"C03": "R3.1|", "C09": "R9.1|"})

brk("B82", "draft3.json: dependencies may be a string or array again",
    [("schemas/draft3.json", '''		"dependencies" : {
			"type" : "object",''', '''		"dependencies" : {
			"type" : ["string", "array", "object"],''')], {"C03": "R3.1|"})

brk("B83", "required: object gate dropped",
    [(KV, '''def required(validator, required, instance, schema):
    if not validator.is_type(instance, "object"):
        return
''', '''def required(validator, required, instance, schema):
''')], {"C03": "R3.1|", "C01": "R1.2|"})

brk("B84", "contains: array gate dropped",
    [(KV, '''def contains(validator, contains, instance, schema):
    if not validator.is_type(instance, "array"):
        return
''', '''def contains(validator, contains, instance, schema):
''')], {"C03": "R3.1|"})

brk("B85", "uniq: hash path without the TypeError fallback",
    [(U, '''    try:
        return len(set(unbool(i) for i in container)) == len(container)
    except TypeError:
        try:''', '''    if len(container) < 2:
        return len(set(unbool(i) for i in container)) == len(container)
    if True:
        try:''')], {"C03": "R3.1|"})

brk("B86", "types_msg without the try/except",
    [(U, '''        try:
            reprs.append(repr(type["name"]))
        except Exception:
            reprs.append(repr(type))''', '''        reprs.append(repr(type["name"]))''')], {"C03": "R3.1|"})

brk("B87", "properties_draft3: subschema['required'] instead of get",
    [(LV, '''        elif subschema.get("required", False):''', '''        elif subschema["required"]:''')], {"C03": "R3.1|"})

brk("B88", "if_: then read without the presence test",
    [(KV, '''        if u"then" in schema:
            then = schema[u"then"]
            for error in validator.descend(instance, then, schema_path="then"):
                yield error''', '''        then = schema[u"then"]
        for error in validator.descend(instance, then, schema_path="then"):
            yield error''')], {"C03": "R3.1|"})

brk("B89", "dependencies (draft 4+): array test replaced by truthiness",
    [(KV, '''        if validator.is_type(dependency, "array"):
            for each in dependency:''', '''        if dependency:
            for each in dependency:''')], {"C03": "R3.1|"})

brk("B90", "minItems compares the array itself",
    [(KV, '''    if validator.is_type(instance, "array") and len(instance) < mI:''', '''    if validator.is_type(instance, "array") and instance < mI:''')], {"C03": "R3.1|", "C01": "R1.3|"})

brk("B91", "is_type: UndefinedTypeCheck no longer translated",
    [(V, '''            try:
                return self.TYPE_CHECKER.is_type(instance, type)
            except exceptions.UndefinedTypeCheck:
                raise exceptions.UnknownType(type, instance, self.schema)''', '''            return self.TYPE_CHECKER.is_type(instance, type)''')], {"C03": "R3."})

brk("B92", "resolve_fragment: TypeError not handled",
    [(V, "            except (TypeError, LookupError, ValueError):", "            except (LookupError, ValueError):")], {"C03": "R3.1|"})

brk("B92b", "resolve_fragment: pre-fix shape of F-15 (int() outside the try, ValueError not handled)",
    [(V, '''            try:
                if (
                    isinstance(document, Sequence) and
                    not isinstance(document, str) and
                    _ARRAY_INDEX.fullmatch(part)
                ):
                    # Array indexes should be turned into integers.  A
                    # digit string beyond the interpreter's int/str
                    # conversion limit raises ValueError: no such index.
                    part = int(part)
                document = document[part]
            except (TypeError, LookupError, ValueError):''', '''            if (
                isinstance(document, Sequence) and
                not isinstance(document, str) and
                _ARRAY_INDEX.fullmatch(part)
            ):
                part = int(part)
            try:
                document = document[part]
            except (TypeError, LookupError):''')], {"C03": "R3.1|", "C14": "R14.4|"})

brk("B93", "extras_msg indexes the first extra",
    [(U, '''    if len(extras) == 1:
        verb = "was"''', '''    if len(extras) == 1 and extras[0]:
        verb = "was"''')], {"C03": "R3.1|"})

brk("B94", "draft6.json: items may be any value",
    [("schemas/draft6.json", '''        "items": {
            "anyOf": [
                { "$ref": "#" },
                { "$ref": "#/definitions/schemaArray" }
            ],
            "default": {}
        },''', '''        "items": {
            "default": {}
        },''')], {"C03": "R3.1|"})

brk("B95", "pattern applied to any instance",
    [(KV, '''    if (
        validator.is_type(instance, "string") and
        not re.search(patrn, instance)
    ):''', '''    if not re.search(patrn, instance):''')], {"C03": "R3.1|", "C01": "R1.2|"})

brk("B96", "format: check() result used without handler",
    [(KV, '''        try:
            validator.format_checker.check(instance, format)
        except FormatError as error:
            yield ValidationError(error.message, cause=error.cause)''', '''        validator.format_checker.check(instance, format)''')], {"C03": "R3.1|", "C12": "R12.2|"})


# --------------------------------------------------------------------------- C09
brk("B25a", "multipleOf: failed = True in the overflow handler",
    [(KV, '''            failed = (Fraction(instance) / Fraction(dB)).denominator != 1
    else:
        try:''', '''            failed = True
    else:
        try:''')], {"C09": "R9.4|"})

brk("B25b", "multipleOf: integer path without the overflow fallback (pre-fix shape)",
    [(KV, '''        try:
            failed = instance % dB
        except OverflowError:
            # a float ``instance`` and an integer ``dB`` too large to be
            # converted to a float: same exact fallback as above
            failed = (Fraction(instance) / Fraction(dB)).denominator != 1''', '''        failed = instance % dB''')], {"C09": "R9.1|", "C03": "R3.1|"})

brk("B25c", "minimum compares through float()",
    [(KV, '''    if instance < minimum:
        yield ValidationError(
            "%r is less than the minimum of %r" % (instance, minimum)
        )''', '''    if float(instance) < float(minimum):
        yield ValidationError(
            "%r is less than the minimum of %r" % (instance, minimum)
        )''')], {"C09": "R9.", "C01": "R1.3|"})

brk("B25d", "exclusiveMaximum decides by the sign of a difference",
    [(KV, '''    if instance >= maximum:
        yield ValidationError(
            "%r is greater than or equal to the maximum of %r" % (''', '''    if instance - maximum >= 0:
        yield ValidationError(
            "%r is greater than or equal to the maximum of %r" % (''')], {"C09": "R9.2|"})

brk("B25e", "multipleOf: every divisor goes through the float quotient",
    [(KV, '''    if isinstance(dB, float):
        try:
            quotient = instance / dB''', '''    if True:
        try:
            quotient = instance / dB''')], {"C09": "R9.3|"})

brk("B25f", "multipleOf: integer path uses float remainder",
    [(KV, '''            failed = instance % dB
        except OverflowError:''', '''            failed = float(instance) % dB
        except OverflowError:''')], {"C09": "R9."})

brk("B25g", "draft7.json: multipleOf may be 0",
    [("schemas/draft7.json", '''        "multipleOf": {
            "type": "number",
            "exclusiveMinimum": 0
        },''', '''        "multipleOf": {
            "type": "number"
        },''')], {"C09": "R9.1|", "C03": "R3.1|"})


# ---------------------------------------------------------------- round 2 (after the second batch of seeded mutants)
keep("P40", "FormatChecker.__init__: subset table built with a for loop",
     [(F, """            self.checkers = dict((k, self.checkers[k]) for k in formats)""",
       """            table = {}
            for k in formats:
                table[k] = self.checkers[k]
            self.checkers = table""")], ["C12", "C16", "C13"])

keep("P41", "equal: member-wise and correct (presence tested, lengths compared)",
     [(U, """    return unbool(one) == unbool(two)
""", """    if isinstance(one, list) and isinstance(two, list):
        return len(one) == len(two) and all(equal(i, j) for i, j in zip(one, two))
    if isinstance(one, dict) and isinstance(two, dict):
        return len(one) == len(two) and all(
            key in two and equal(value, two[key]) for key, value in one.items()
        )
    return unbool(one) == unbool(two)
""")], ["C08", "C01", "C03"])

keep("P42", "json_path: type(elem) is int, f-strings",
     [(E, """            if isinstance(elem, int):
                path += '[' + str(elem) + ']'
            else:
                path += '.' + elem""", """            if type(elem) is not int:
                path += f'.{elem}'
            else:
                path += f'[{elem}]'""")], ["C06"])

keep("P43", "extends_draft3: array form copied into a list first",
     [(LV, """    for index, subschema in enumerate(extends):
        for error in validator.descend(instance, subschema, schema_path=index):""",
       """    extends = list(extends)
    for index, subschema in enumerate(extends):
        for error in validator.descend(instance, subschema, schema_path=index):""")], ["C06", "C01", "C05"])

brk("B100", "extends_draft3: object form wrapped into a list (spurious index 0 in schema_path)",
    [(LV, """        for error in validator.descend(instance, extends):
            yield error
        return
""", """        extends = [extends]
""")], {"C06": "R6.2|"})

brk("B101", "json_path: digit-only property names rendered as indices",
    [(E, """            if isinstance(elem, int):
                path += '['""", """            if isinstance(elem, int) or elem.isdigit():
                path += '['""")], {"C06": "R6.7|"})

brk("B102", "json_path renders the relative path",
    [(E, """        for elem in self.absolute_path:
            if isinstance(elem, int):""", """        for elem in self.path:
            if isinstance(elem, int):""")], {"C06": "R6.7|"})

brk("B103", "equal: member-wise with get() default (absent member == null member)",
    [(U, """    return unbool(one) == unbool(two)
""", """    if isinstance(one, dict) and isinstance(two, dict):
        return len(one) == len(two) and all(
            equal(value, two.get(key)) for key, value in one.items()
        )
    return unbool(one) == unbool(two)
""")], {"C08": "R8.4|"})

brk("B104", "equal: member-wise zip without length comparison",
    [(U, """    return unbool(one) == unbool(two)
""", """    if isinstance(one, list) and isinstance(two, list):
        return all(equal(i, j) for i, j in zip(one, two))
    return unbool(one) == unbool(two)
""")], {"C08": "R8.4|"})

brk("B105", "FormatChecker.__init__ walks `formats` twice",
    [(F, """            self.checkers = dict((k, self.checkers[k]) for k in formats)""",
      """            unknown = set(formats).difference(self.checkers)
            if unknown:
                raise KeyError(*sorted(unknown))
            self.checkers = dict((k, self.checkers[k]) for k in formats)""")], {"C12": "R12.7|"})


brk("B106", "email: find('@') > 0",
    [(F, """    return "@" in instance
""", """    return instance.find("@") > 0
""")], {"C13": "R13.5|"})

keep("P44", "email: find('@') >= 0 through a local",
     [(F, """    return "@" in instance
""", """    at = instance.find("@")
    return at != -1
""")], ["C13", "C12", "C03"])

keep("P45", "email: count('@') > 0",
     [(F, """    return "@" in instance
""", """    return instance.count("@") >= 1
""")], ["C13", "C12", "C03"])

brk("B107", "cli: files parsed with strict=False",
    [(C, """                return json.load(file)
""", """                return json.load(file, strict=False)
""")], {"C19": "R19.7|"})


# applicator truth tables (sa/rules/applic.py)
brk("B110", "anyOf: error after the loop whether or not a branch matched",
    [(KV, """        all_errors.extend(errs)
    else:
        yield ValidationError(
            "%r is not valid under any of the given schemas" % (instance,),
            context=all_errors,
        )


def oneOf""", """        all_errors.extend(errs)
    if all_errors:
        yield ValidationError(
            "%r is not valid under any of the given schemas" % (instance,),
            context=all_errors,
        )


def oneOf""")], {"C01": "R1.12|"})

brk("B111", "oneOf: later matches counted only when they do NOT match",
    [(KV, """    more_valid = [s for i, s in subschemas if validator.is_valid(instance, s)]""",
      """    more_valid = [s for i, s in subschemas if not validator.is_valid(instance, s)]""")], {"C01": "R1.12|"})

brk("B112", "not: inverted",
    [(KV, """    if validator.is_valid(instance, not_schema):""", """    if not validator.is_valid(instance, not_schema):""")], {"C01": "R1.12|"})

brk("B113", "contains: every element must match",
    [(KV, """    if not any(validator.is_valid(element, contains) for element in instance):""",
      """    if not all(validator.is_valid(element, contains) for element in instance):""")], {"C01": "R1.12|"})

brk("B114", "if: else applied whenever then is absent",
    [(KV, """    elif u"else" in schema:""", """    if u"then" not in schema and u"else" in schema:""")], {"C01": "R1.12|"})

brk("B115", "dependencies: stops at the first absent trigger",
    [(KV, """        if property not in instance:
            continue

        if validator.is_type(dependency, "array"):""", """        if property not in instance:
            break

        if validator.is_type(dependency, "array"):""")], {"C01": "R1.12|", "C05": "R5."})

brk("B116", "additionalItems false: off by one",
    [(KV, """    elif not aI and len(instance) > len(schema.get("items", [])):""",
      """    elif not aI and len(instance) >= len(schema.get("items", [])):""")], {"C01": "R1.12|"})

brk("B117", "additionalProperties false: error even without extras",
    [(KV, """    elif not aP and extras:""", """    elif not aP:""")], {"C01": "R1.12|"})

brk("B118", "propertyNames: only the first name is checked",
    [(KV, """            schema=propertyNames,
        ):
            yield error
""", """            schema=propertyNames,
        ):
            yield error
        break
""")], {"C01": "R1.12|", "C05": "R5."})

brk("B119", "type (Draft 3): a matching schema member does not end the search",
    [(LV, """            if not errors:
                return
            all_errors.extend(errors)""", """            if not errors:
                continue
            all_errors.extend(errors)""")], {"C01": "R1.12|"})

brk("B120", "anyOf: context keeps only the last branch's errors",
    [(KV, """        if not errs:
            break
        all_errors.extend(errs)
    else:
        yield ValidationError(
            "%r is not valid under any of the given schemas" % (instance,),
            context=all_errors,
        )


def oneOf""", """        if not errs:
            break
        all_errors = errs
    else:
        yield ValidationError(
            "%r is not valid under any of the given schemas" % (instance,),
            context=all_errors,
        )


def oneOf""")], {"C05": "R5.8|"})

brk("B121", "allOf: stops after the first failing branch",
    [(KV, """    for index, subschema in enumerate(allOf):
        for error in validator.descend(instance, subschema, schema_path=index):
            yield error
""", """    for index, subschema in enumerate(allOf):
        errors = list(validator.descend(instance, subschema, schema_path=index))
        for error in errors:
            yield error
        if errors:
            return
""")], {"C05": "R5."})

brk("B122", "items (array form): schema_path is the position among the remaining items",
    [(KV, """        for (index, item), subschema in zip(enumerate(instance), items):
            for error in validator.descend(
                item, subschema, path=index, schema_path=index,
            ):
                yield error
    else:
        for index, item in enumerate(instance):
            for error in validator.descend(item, items, path=index):""", """        for (index, item), subschema in zip(enumerate(instance), items):
            for error in validator.descend(
                item, subschema, path=index, schema_path=len(items) - index - 1,
            ):
                yield error
    else:
        for index, item in enumerate(instance):
            for error in validator.descend(item, items, path=index):""")], {"C06": "R6."})

brk("B123", "dependencies (Draft 3): string form tested against the trigger",
    [(LV, """            if dependency not in instance:
                yield ValidationError(""", """            if property not in instance:
                yield ValidationError(""")], {"C01": "R1.12|"})

brk("B124", "required: reports only the first missing member",
    [(KV, """        if property not in instance:
            yield ValidationError("%r is a required property" % property)
""", """        if property not in instance:
            yield ValidationError("%r is a required property" % property)
            return
""")], {"C05": "R5."})

keep("P46", "anyOf/oneOf with a found flag instead of for-else",
     [(KV, """        errs = list(validator.descend(instance, subschema, schema_path=index))
        if not errs:
            break
        all_errors.extend(errs)
    else:
        yield ValidationError(
            "%r is not valid under any of the given schemas" % (instance,),
            context=all_errors,
        )


def oneOf""", """        errs = list(validator.descend(instance, subschema, schema_path=index))
        if not errs:
            return
        all_errors += errs
    yield ValidationError(
        "%r is not valid under any of the given schemas" % (instance,),
        context=all_errors,
    )


def oneOf""")], None)

keep("P47", "contains via a loop with early return",
     [(KV, """    if not any(validator.is_valid(element, contains) for element in instance):
        yield ValidationError(
            "None of %r are valid under the given schema" % (instance,)
        )
""", """    for element in instance:
        if validator.is_valid(element, contains):
            return
    yield ValidationError(
        "None of %r are valid under the given schema" % (instance,)
    )
""")], None)


brk("B125", "check_schema raises the *best* error instead of the first",
    [(V, """            for error in cls(cls.META_SCHEMA).iter_errors(schema):
                raise exceptions.SchemaError.create_from(error)""", """            error = exceptions.best_match(cls(cls.META_SCHEMA).iter_errors(schema))
            if error is not None:
                raise exceptions.SchemaError.create_from(error)""")], {"C11": "R11.1|", "C04": "R4.4b|"})

brk("B126", "resolve_remote: requests serves every scheme without a handler",
    [(V, """        elif scheme in [u"http", u"https"] and requests:""", """        elif requests:""")], {"C15": "R15.7|", "C02": "R2.9|"})

brk("B127", "multipleOf: integer divisors go through the float quotient when the instance is a float",
    [(KV, """    if isinstance(dB, float):
        try:
            quotient = instance / dB""", """    if isinstance(dB, float) or isinstance(instance, float):
        try:
            quotient = instance / dB""")], {"C09": "R9."})

brk("B128", "maximum: bound converted with float() for the comparison",
    [(KV, """    if instance > maximum:
        yield ValidationError(
            "%r is greater than the maximum of %r" % (instance, maximum)""", """    if instance > float(maximum):
        yield ValidationError(
            "%r is greater than the maximum of %r" % (instance, maximum)""")], {"C09": "R9."})

brk("B129", "the four draft format checkers taken from a table that holds one shared object (comprehension over a pre-built checker)",
    [(F, """draft3_format_checker = FormatChecker()
draft4_format_checker = FormatChecker()
draft6_format_checker = FormatChecker()
draft7_format_checker = FormatChecker()


_draft_checkers = dict(
    draft3=draft3_format_checker,
    draft4=draft4_format_checker,
    draft6=draft6_format_checker,
    draft7=draft7_format_checker,
)""", """_shared_checker = FormatChecker()
_draft_checkers = {
    draft: _shared_checker
    for draft in ("draft3", "draft4", "draft6", "draft7")
}
draft3_format_checker = _draft_checkers["draft3"]
draft4_format_checker = _draft_checkers["draft4"]
draft6_format_checker = _draft_checkers["draft6"]
draft7_format_checker = _draft_checkers["draft7"]""")], {"C16": "R16.6|"})

_KT_HELPER = """def _keyword_table(base, changes):
    table = dict(base)
    table.update(changes)
    return {keyword: table[keyword] for keyword in sorted(table)}


Draft6Validator = create(
    meta_schema=_utils.load_schema("draft6"),
    validators=_keyword_table(Draft4Validator.VALIDATORS, {"""
_KT_HEAD = """Draft6Validator = create(
    meta_schema=_utils.load_schema("draft6"),
    validators={"""

brk("B130", "Draft 6 keyword table computed from Draft 4's by a helper, and propertyNames forgotten",
    [(V, _KT_HEAD, _KT_HELPER),
     (V, """        u"propertyNames": _validators.propertyNames,
        u"required": _validators.required,
        u"type": _validators.type,
        u"uniqueItems": _validators.uniqueItems,
    },
    type_checker=_types.draft6_type_checker,""", """        u"required": _validators.required,
        u"type": _validators.type,
        u"uniqueItems": _validators.uniqueItems,
    }),
    type_checker=_types.draft6_type_checker,""")], {"C01": "R1.1|"})

keep("P60", "Draft 6 keyword table computed from Draft 4's by a helper (same keys, same functions)",
    [(V, _KT_HEAD, _KT_HELPER),
     (V, """        u"uniqueItems": _validators.uniqueItems,
    },
    type_checker=_types.draft6_type_checker,""", """        u"uniqueItems": _validators.uniqueItems,
    }),
    type_checker=_types.draft6_type_checker,""")])

# whole-tree transformation: every local and every positionally-passed parameter renamed, plain top-level functions
# reordered, all eight modules re-emitted through ast.unparse (every line number and the whole layout change).
# The repository's suite passes on the transformed tree (checked when the transformation was written).
VARIANTS.append({"id": "P00", "kind": "preserving", "desc": "rename all locals/params + reorder defs + reformat (8 modules)", "edits": [],
                 "transform": "rename_reorder", "pids": None})
