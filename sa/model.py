"""Trusted tables (DESIGN 4.2/4.3): exception hierarchy and the callee exception model for the handful of
external calls made on user-controlled values."""

# child -> parent
HIER = {
    "KeyError": "LookupError", "IndexError": "LookupError", "LookupError": "Exception",
    "OverflowError": "ArithmeticError", "ZeroDivisionError": "ArithmeticError", "ArithmeticError": "Exception",
    "UnicodeDecodeError": "UnicodeError", "UnicodeEncodeError": "UnicodeError", "UnicodeError": "ValueError",
    "JSONDecodeError": "ValueError", "AddressValueError": "ValueError", "IDNAError": "UnicodeError",
    "ValueError": "Exception", "TypeError": "Exception", "AttributeError": "Exception", "RecursionError": "RuntimeError",
    "NotImplementedError": "RuntimeError", "RuntimeError": "Exception", "StopIteration": "Exception",
    "UnboundLocalError": "NameError", "NameError": "Exception", "AssertionError": "Exception",
    "re.error": "Exception", "error": "Exception", "OSError": "Exception", "IOError": "OSError", "FileNotFoundError": "OSError",
    "URLError": "OSError", "HTTPError": "URLError", "ImportError": "Exception", "ModuleNotFoundError": "ImportError",
    "RefResolutionError": "Exception", "UnknownType": "Exception", "UndefinedTypeCheck": "Exception",
    "FormatError": "Exception", "ValidationError": "_Error", "SchemaError": "_Error", "_Error": "Exception",
    "_CannotLoadFile": "Exception", "_DontDoThat": "Exception", "InvalidTemplate": "Exception", "JsonPointerException": "Exception",
    "Exception": "BaseException", "GeneratorExit": "BaseException", "KeyboardInterrupt": "BaseException",
    "AnyException": "Exception",
}


def base_name(n):
    """Normalise a dotted exception reference to the key used in HIER."""
    if n in HIER:
        return n
    last = n.split(".")[-1]
    if n in ("re.error", "error") or n.endswith("re.error"):
        return "re.error"
    return last


def is_subclass(exc, handler):
    exc, handler = base_name(exc), base_name(handler)
    if exc == "AnyException":
        # an arbitrary Exception subclass is only surely caught by Exception/BaseException
        return handler in ("Exception", "BaseException")
    cur = exc
    seen = set()
    while cur is not None and cur not in seen:
        if cur == handler:
            return True
        seen.add(cur)
        cur = HIER.get(cur)
    return False


def covered(exc, handlers):
    return any(is_subclass(exc, h) for h in handlers)


# external callee -> exceptions it can raise when handed an *arbitrary str* (or what is noted)
CALLEE_RAISES_ON_STR = {
    "ipaddress.IPv4Address": ["AddressValueError"],
    "ipaddress.IPv6Address": ["AddressValueError"],
    "datetime.date.fromisoformat": ["ValueError"],
    "datetime.datetime.strptime": ["ValueError"],
    "datetime.datetime.fromisoformat": ["ValueError"],
    # ValueError: a repetition count of more than 4300 digits (`a{111...1}`) is converted with int(), which refuses
    # (sys.int_max_str_digits, Python >= 3.11) before the parser can say "the repetition number is too large"
    "re.compile": ["re.error", "OverflowError", "RecursionError", "ValueError"],
    "idna.encode": ["IDNAError", "UnicodeError"],
    "urllib.parse.unquote": [],
    "urllib.parse.urlsplit": ["ValueError"],
    "urllib.parse.urljoin": ["ValueError"],
    "urllib.parse.urldefrag": ["ValueError"],
    "json.load": ["JSONDecodeError", "UnicodeDecodeError"],
    "json.loads": ["JSONDecodeError"],
}

# results that are truthy for every input the callee accepts
ALWAYS_TRUTHY_RESULT = {
    "ipaddress.IPv4Address": "ipaddress objects define neither __bool__ nor __len__",
    "ipaddress.IPv6Address": "ipaddress objects define neither __bool__ nor __len__",
    "re.compile": "compiled patterns are always truthy",
    "datetime.date.fromisoformat": "date objects are always truthy",
    "datetime.datetime.strptime": "datetime objects are always truthy",
}

# delegates known to accept a strict superset of the grammar the format names (needs a dominating shape pre-check)
SUPERSET_DELEGATES = {
    "datetime.date.fromisoformat": "on Python >= 3.11 also accepts ISO 8601 basic (20200101) and week (2020-W01-1) dates; RFC 3339 full-date is YYYY-MM-DD only",
}

# methods of str that cannot raise on a str receiver with constant arguments
PURE_STR_METHODS = {"lower", "upper", "isdigit", "startswith", "endswith", "strip", "lstrip", "rstrip", "split", "replace", "isascii",
                    "title", "casefold", "format", "join", "encode", "find", "count", "partition", "rpartition", "removeprefix"}
