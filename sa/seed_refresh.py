#!/venv/bin/python
"""Re-run all 20 checks on every stored seed (scratch copy of /repo/jsonschema + the seed's patch) and refresh the
`caught_by` / `own_property_check_fires` fields of its meta.json.  Demonstrations and the test-suite are not re-run here
(they were confirmed when the seed was stored)."""
import json
import os
import shutil
import subprocess
import sys
import tempfile
from concurrent.futures import ProcessPoolExecutor

HERE = os.path.dirname(os.path.abspath(__file__))
VERIF = os.path.dirname(HERE)
sys.path.insert(0, VERIF)


_BASE = {}      # per worker process: findings of each check on the unchanged tree


def one(d):
    from sa.selftest import run_check
    sdir = os.path.join(VERIF, "seeded", d)
    tmp = tempfile.mkdtemp(prefix="seed-refresh-")
    try:
        shutil.copytree("/repo/jsonschema", os.path.join(tmp, "jsonschema"), ignore=shutil.ignore_patterns("tests", "__pycache__"))
        p = subprocess.run(["git", "apply", os.path.join(sdir, "patch.diff")], cwd=tmp, capture_output=True, text=True)
        if p.returncode:
            return d, None, "patch does not apply: " + p.stderr[:200]
        fired = {}
        for i in range(1, 21):
            pid = "C%02d" % i
            if pid not in _BASE:
                _BASE[pid] = run_check(pid, "/repo")[1]
            base_keys = _BASE[pid]
            code, keys, err = run_check(pid, tmp)
            new = [k for k in keys if k not in base_keys]
            if code == 2:
                fired[pid] = ["ANALYSIS-ERROR: " + err[:150]]
            elif new:
                fired[pid] = new[:4]
        return d, fired, ""
    finally:
        shutil.rmtree(tmp, ignore_errors=True)


def main():
    ds = sorted(os.listdir(os.path.join(VERIF, "seeded")))
    if len(sys.argv) > 1:
        ds = [d for d in ds if any(a in d for a in sys.argv[1:])]
    with ProcessPoolExecutor(max_workers=12) as ex:
        for d, fired, err in ex.map(one, ds):
            mp = os.path.join(VERIF, "seeded", d, "meta.json")
            meta = json.load(open(mp))
            if fired is None:
                print(d, err)
                continue
            meta["caught_by"] = fired
            pid = meta["property"]
            meta["own_property_check_fires"] = pid in fired and not any(str(x).startswith("ANALYSIS-ERROR") for x in fired.get(pid, []))
            json.dump(meta, open(mp, "w"), indent=1)
            print("%-8s own=%s caught by %s" % (d, meta["own_property_check_fires"], sorted(fired)))


if __name__ == "__main__":
    main()
