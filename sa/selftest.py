#!/venv/bin/python
"""Variant self-test (DESIGN section 8): run the rules on single-edit variants of the current tree.

Breaking variants must be reported by the named property (and rule prefix); preserving variants must stay silent.
Variants are applied to a scratch copy of /repo/jsonschema under a temp dir, which is removed afterwards.
A variant whose anchor text is not present in the current tree is skipped (recorded), never failed.

usage: selftest.py [--pid C07] [--only V12] [--jobs N] [-v]
"""
import argparse
import io
import json
import os
import shutil
import sys
import tempfile
from concurrent.futures import ProcessPoolExecutor

HERE = os.path.dirname(os.path.abspath(__file__))
sys.path.insert(0, os.path.dirname(HERE))


def load_variants():
    from sa.variants import VARIANTS
    out = list(VARIANTS)
    # independently seeded changes (sub-agents): each must keep being reported by the checks recorded in its meta.json
    sdir = os.path.join(os.path.dirname(HERE), "seeded")
    if os.path.isdir(sdir):
        for d in sorted(os.listdir(sdir)):
            mp = os.path.join(sdir, d, "meta.json")
            pp = os.path.join(sdir, d, "patch.diff")
            if not (os.path.exists(mp) and os.path.exists(pp)):
                continue
            try:
                meta = json.load(open(mp))
            except ValueError:
                continue
            expect = {}
            for pid, keys in (meta.get("caught_by") or {}).items():
                ks = [k for k in keys if not str(k).startswith("ANALYSIS-ERROR")]
                if ks:
                    expect[pid] = ks[0].split("|")[0] + "|"
            if not expect and meta.get("property"):
                # nothing recorded as catching it: it must at least be reported by its own property's check (a seed never drops out)
                expect = {meta["property"]: ""}
            if expect:
                out.append({"id": "S-" + d, "kind": "breaking", "desc": "seeded: " + (meta.get("summary") or "")[:70], "edits": [],
                            "patchfile": pp, "expect": expect})
    # independently written behaviour-preserving refactorings (sub-agents; each passes the repository's suite):
    # every check must stay silent on every one of them
    rdir = os.path.join(os.path.dirname(HERE), "refactors")
    if os.path.isdir(rdir):
        for d in sorted(os.listdir(rdir)):
            pp = os.path.join(rdir, d, "patch.diff")
            if not os.path.exists(pp):
                continue
            try:
                meta = json.load(open(os.path.join(rdir, d, "meta.json")))
            except (ValueError, OSError):
                meta = {}
            out.append({"id": "F-" + d, "kind": "preserving", "desc": "refactor: " + (meta.get("summary") or "")[:70], "edits": [],
                        "patchfile": pp, "pids": None})
    return out


def apply_variant(v, root):
    """Apply edits in place under root/jsonschema. Returns False if an anchor is missing."""
    if v.get("patchfile"):
        import subprocess
        chk = subprocess.run(["git", "apply", "--check", v["patchfile"]], cwd=root, capture_output=True)
        if chk.returncode != 0:
            return False
        return subprocess.run(["git", "apply", v["patchfile"]], cwd=root, capture_output=True).returncode == 0
    if v.get("transform") == "rename_reorder":
        from sa.transforms import rename_locals, reorder_functions
        pkg = os.path.join(root, "jsonschema")
        mods = ["_validators.py", "_legacy_validators.py", "_utils.py", "validators.py", "_format.py", "exceptions.py", "_types.py", "cli.py"]
        src = {}
        for m in mods:
            with open(os.path.join(pkg, m), encoding="utf-8") as f:
                src[m] = f.read()
        new = rename_locals(src)
        for m in mods:
            t = new[m]
            if m in ("_validators.py", "_legacy_validators.py", "_utils.py", "_types.py"):
                t = reorder_functions(t)
            compile(t, m, "exec")
            with open(os.path.join(pkg, m), "w", encoding="utf-8") as f:
                f.write(t)
        return True
    for (rel, old, new) in v["edits"]:
        p = os.path.join(root, "jsonschema", rel)
        with open(p, encoding="utf-8") as f:
            s = f.read()
        if s.count(old) != 1:
            return False
        s = s.replace(old, new)
        with open(p, "w", encoding="utf-8") as f:
            f.write(s)
    return True


def run_check(pid, repo):
    """Run one property's rules on repo; returns (code, [finding keys], error text)."""
    import importlib
    from sa import prog as progmod
    from sa.report import Ctx
    from sa import cfg, calls, effects
    cfg._cfg_cache.clear()
    calls._calls_cache.clear()
    effects._eff_cache.clear()
    try:
        p = progmod.Prog(os.path.join(repo, "jsonschema"))
        ctx = Ctx(pid, "quick", p)
        ctx.quiet = True
        rules = importlib.import_module("sa.rules." + pid.lower())
        rules.run(ctx)
        code, viol, known = ctx.finish(write=False)
        return code, [f["key"] for f in viol], ""
    except Exception as e:  # noqa
        import traceback
        return 2, [], "%s: %s\n%s" % (type(e).__name__, e, traceback.format_exc()[-600:])


def run_variant(args):
    v, src_root, pids = args
    tmp = tempfile.mkdtemp(prefix="sa-variant-")
    try:
        shutil.copytree(os.path.join(src_root, "jsonschema"), os.path.join(tmp, "jsonschema"),
                        ignore=shutil.ignore_patterns("tests", "benchmarks", "__pycache__"))
        if not apply_variant(v, tmp):
            return {"id": v["id"], "status": "skipped", "reason": "anchor text not in current tree"}
        # must still compile
        for (rel, _o, _n) in v.get("edits", []):
            if rel.endswith(".py"):
                with open(os.path.join(tmp, "jsonschema", rel)) as f:
                    compile(f.read(), rel, "exec")
        res = {}
        for pid in pids:
            code, keys, err = run_check(pid, tmp)
            res[pid] = {"code": code, "keys": keys, "err": err}
        return {"id": v["id"], "status": "ran", "results": res}
    finally:
        shutil.rmtree(tmp, ignore_errors=True)


def evaluate(v, out, baseline):
    """Returns (ok, message)."""
    if out["status"] == "skipped":
        return None, "skipped: " + out["reason"]
    msgs = []
    ok = True
    if v["kind"] == "breaking":
        for pid, rule in v["expect"].items():
            if pid not in out["results"]:
                continue
            res = out["results"][pid]
            new = [k for k in res["keys"] if k not in baseline.get(pid, ())]
            if res["code"] == 2:
                ok = False
                msgs.append("%s: analysis error: %s" % (pid, res["err"][:300]))
            elif not any(k.startswith(rule) for k in new):
                if any(k.startswith(rule) for k in baseline.get(pid, ())):
                    # the tree under test already violates this very rule: the variant cannot add anything
                    msgs.append("%s: rule %s already failing on the tree under test" % (pid, rule))
                    continue
                ok = False
                msgs.append("%s: MISSED (wanted rule %s*, new findings: %s)" % (pid, rule, new[:3]))
            else:
                msgs.append("%s: caught by %s" % (pid, [k for k in new if k.startswith(rule)][0][:90]))
    else:
        for pid, res in out["results"].items():
            new = [k for k in res["keys"] if k not in baseline.get(pid, ())]
            if res["code"] == 2:
                ok = False
                msgs.append("%s: analysis error on preserving variant: %s" % (pid, res["err"][:300]))
            elif new:
                ok = False
                msgs.append("%s: FALSE ALARM %s" % (pid, new[:3]))
        if ok:
            msgs.append("silent on %s" % ",".join(sorted(out["results"])))
    return ok, "; ".join(msgs)


def selftest(pids=None, only=None, jobs=None, src_root=None, verbose=False):
    from sa import prog as progmod
    src_root = src_root or progmod.REPO
    variants = load_variants()
    built = {f[:-3].upper() for f in os.listdir(os.path.join(HERE, "rules")) if f.startswith("c") and f[1:3].isdigit()}
    all_pids = sorted(built if pids is None else (set(pids) & built))
    # baseline findings on the unmodified tree (so that pre-existing/known findings are not attributed to a variant)
    baseline = {}
    for pid in all_pids:
        _c, keys, _e = run_check(pid, src_root)
        baseline[pid] = set(keys)
    tasks = []
    for v in variants:
        if only and v["id"] not in only:
            continue
        if v["kind"] == "breaking":
            vp = [p for p in v["expect"] if p in all_pids]
        else:
            vp = [p for p in (v.get("pids") or all_pids) if p in all_pids]
        if not vp:
            continue
        tasks.append((v, src_root, vp))
    results = []
    jobs = jobs or min(16, os.cpu_count() or 4)
    if jobs > 1 and len(tasks) > 1:
        with ProcessPoolExecutor(max_workers=jobs) as ex:
            outs = list(ex.map(run_variant, tasks))
    else:
        outs = [run_variant(t) for t in tasks]
    summary = {"breaking_caught": 0, "breaking_missed": 0, "preserving_silent": 0, "preserving_flagged": 0, "skipped": 0}
    lines = []
    for (v, _r, _p), out in zip(tasks, outs):
        ok, msg = evaluate(v, out, baseline)
        if ok is None:
            summary["skipped"] += 1
        elif v["kind"] == "breaking":
            summary["breaking_caught" if ok else "breaking_missed"] += 1
        else:
            summary["preserving_silent" if ok else "preserving_flagged"] += 1
        results.append({"id": v["id"], "kind": v["kind"], "desc": v["desc"], "ok": ok, "msg": msg})
        if verbose or ok is False:
            lines.append("%s %-5s %-9s %s -- %s" % ("ok  " if ok else ("skip" if ok is None else "FAIL"), v["id"], v["kind"], v["desc"][:60], msg))
    return summary, results, lines


def main():
    ap = argparse.ArgumentParser()
    ap.add_argument("--pid", action="append")
    ap.add_argument("--only", action="append")
    ap.add_argument("--jobs", type=int, default=None)
    ap.add_argument("-v", action="store_true")
    a = ap.parse_args()
    summary, results, lines = selftest(a.pid, a.only, a.jobs, verbose=a.v)
    for ln in lines:
        print(ln)
    print(json.dumps(summary))
    return 0 if not (summary["breaking_missed"] or summary["preserving_flagged"]) else 3


if __name__ == "__main__":
    sys.exit(main())
