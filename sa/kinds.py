"""E5 part 1: abstract values over JSON kinds, and the value shapes a bundled metaschema admits for a keyword."""
import json

JSON_KINDS = frozenset(["null", "bool", "int", "float", "str", "list", "dict"])
NUM = frozenset(["int", "float"])


class AV:
    """Abstract value: a set of kinds plus a few refinements.

    kinds: JSON kinds and internal ones: 'tuple', 'set', 'gen' (any iterator), 'err', 'func', 'obj:<Type>', 'cls:<Type>',
           'sentinel', 'opaque', 'match', 'module'
    elem:  element value for list/set/gen/tuple (homogeneous view); None = unknown -> ANY JSON for lists
    vals:  value-of-entries for dict
    pos:   number known > 0
    nonempty: container known to have at least one element
    big:   an int that may be arbitrarily large (every JSON int); counters from len/enumerate are small
    integral_float: a float here is known integral (Draft 6+ "integer")
    strs:  finite set of possible string values, or None
    schema: draft name if the value is schema-shaped for that draft
    keys_of: names of dict variables this (string) value is known to be a key of
    items: tuple of AVs for fixed-size tuples
    """
    __slots__ = ("kinds", "elem", "vals", "pos", "nonempty", "big", "integral_float", "strs", "schema", "keys_of", "items", "const", "norm_tag", "bools")

    def __init__(self, kinds, elem=None, vals=None, pos=False, nonempty=False, big=True, integral_float=False, strs=None,
                 schema=None, keys_of=frozenset(), items=None, const=None):
        self.kinds = frozenset(kinds)
        self.elem = elem
        self.vals = vals
        self.pos = pos
        self.nonempty = nonempty
        self.big = big
        self.integral_float = integral_float
        self.strs = frozenset(strs) if strs is not None else None
        self.schema = schema
        self.keys_of = frozenset(keys_of)
        self.items = items
        self.const = const      # ('c', value) for known constants
        self.norm_tag = False
        self.bools = frozenset([True, False])   # which booleans the bool alternative may be

    # ---------------------------------------------------------------- helpers
    def copy(self, **kw):
        d = dict(kinds=self.kinds, elem=self.elem, vals=self.vals, pos=self.pos, nonempty=self.nonempty, big=self.big,
                 integral_float=self.integral_float, strs=self.strs, schema=self.schema, keys_of=self.keys_of, items=self.items,
                 const=self.const)
        d.update(kw)
        out = AV(**d)
        out.norm_tag = self.norm_tag
        out.bools = self.bools
        return out

    def only(self, kinds):
        kinds = frozenset(kinds) & self.kinds
        kw = {}
        if "str" not in kinds:
            kw["strs"] = None
            kw["keys_of"] = frozenset()
        if not (kinds & NUM):
            kw["pos"] = False
        if kinds != self.kinds:
            kw["const"] = None
        if self.schema and not (kinds <= frozenset(["dict", "bool"])):
            kw["schema"] = None
        return self.copy(kinds=kinds, **kw)

    def without(self, kinds):
        return self.only(self.kinds - frozenset(kinds))

    @property
    def empty(self):
        return not self.kinds

    def is_json(self):
        return self.kinds <= JSON_KINDS

    def elem_av(self):
        """What iterating / indexing this value yields (for JSON containers)."""
        outs = []
        if "list" in self.kinds or "set" in self.kinds or "gen" in self.kinds or "tuple" in self.kinds:
            if self.items is not None and self.kinds == frozenset(["tuple"]):
                outs += list(self.items)
            else:
                outs.append(self.elem if self.elem is not None else ANY)
        if "dict" in self.kinds:
            outs.append(AV(["str"]))
        if "str" in self.kinds:
            outs.append(AV(["str"]))
        return join_all(outs) if outs else BOTTOM

    def vals_av(self):
        if self.schema:
            return ANY
        return self.vals if self.vals is not None else ANY

    def describe(self):
        ks = sorted(self.kinds)
        extra = []
        if self.schema:
            extra.append("schema:%s" % self.schema)
        if self.pos:
            extra.append(">0")
        if self.nonempty:
            extra.append("nonempty")
        if self.strs is not None:
            extra.append("in %s" % sorted(self.strs)[:8])
        if "list" in self.kinds and self.elem is not None and self.elem is not ANY:
            extra.append("of{%s}" % ",".join(sorted(self.elem.kinds)))
        if "dict" in self.kinds and self.vals is not None and self.vals is not ANY and not self.schema:
            extra.append("values{%s}" % ",".join(sorted(self.vals.kinds)))
        return "{%s}%s" % (",".join(ks), ("[" + "; ".join(extra) + "]") if extra else "")

    def __repr__(self):
        return "AV" + self.describe()


def _join_opt(a, b, depth):
    if a is None or b is None:
        return None
    return join(a, b, depth + 1)


def join(a, b, depth=0):
    if a is b:
        return a
    if a.empty:
        return b
    if b.empty:
        return a
    if depth > 3:
        return ANY if (a.is_json() and b.is_json()) else AV(a.kinds | b.kinds)
    kinds = a.kinds | b.kinds
    # elem: only meaningful for the side that has a container
    def side_elem(x):
        return x.elem if (x.kinds & {"list", "set", "gen", "tuple"}) else "absent"
    ea, eb = side_elem(a), side_elem(b)
    if ea == "absent":
        elem = eb if eb != "absent" else None
    elif eb == "absent":
        elem = ea
    else:
        elem = _join_opt(ea, eb, depth)
    va = a.vals if "dict" in a.kinds else "absent"
    vb = b.vals if "dict" in b.kinds else "absent"
    if va == "absent":
        vals = vb if vb != "absent" else None
    elif vb == "absent":
        vals = va
    else:
        vals = _join_opt(va, vb, depth)
    num_a, num_b = bool(a.kinds & NUM), bool(b.kinds & NUM)
    pos = (a.pos or not num_a) and (b.pos or not num_b) and (num_a or num_b)
    cont = {"list", "dict", "str", "set", "tuple"}
    ca, cb = bool(a.kinds & cont), bool(b.kinds & cont)
    nonempty = (a.nonempty or not ca) and (b.nonempty or not cb) and (ca or cb)
    sa = a.strs if "str" in a.kinds else "absent"
    sb = b.strs if "str" in b.kinds else "absent"
    if sa == "absent":
        strs = sb if sb != "absent" else None
    elif sb == "absent":
        strs = sa
    else:
        strs = (sa | sb) if (sa is not None and sb is not None) else None
    # the schema flag describes the dict alternative (and, for drafts 6/7, the bool alternative)
    da, db = "dict" in a.kinds, "dict" in b.kinds
    if da and db:
        schema = a.schema if a.schema == b.schema else None
    elif da:
        schema = a.schema
    elif db:
        schema = b.schema
    else:
        schema = a.schema or b.schema
    ka = a.keys_of if "str" in a.kinds else None
    kb = b.keys_of if "str" in b.kinds else None
    keys_of = (ka & kb) if (ka is not None and kb is not None) else (ka if kb is None and ka is not None else (kb if ka is None and kb is not None else frozenset()))
    items = a.items if (a.items is not None and b.items is not None and len(a.items) == len(b.items) and a.kinds == b.kinds == frozenset(["tuple"])) else None
    if items is not None:
        items = tuple(join(x, y, depth + 1) for x, y in zip(a.items, b.items))
    elif "tuple" in a.kinds and "tuple" not in b.kinds and a.items is not None:
        items = a.items         # only one side is a tuple at all: its components describe the tuple alternative
    elif "tuple" in b.kinds and "tuple" not in a.kinds and b.items is not None:
        items = b.items
    out = AV(kinds, elem=elem, vals=vals, pos=pos, nonempty=nonempty, big=a.big or b.big,
             integral_float=(a.integral_float or "float" not in a.kinds) and (b.integral_float or "float" not in b.kinds) and ("float" in kinds),
             strs=strs, schema=schema, keys_of=keys_of or frozenset(), items=items,
             const=a.const if a.const == b.const else _join_const(a.const, b.const))
    ba = a.bools if "bool" in a.kinds else frozenset()
    bb = b.bools if "bool" in b.kinds else frozenset()
    out.bools = (ba | bb) or frozenset([True, False])
    # may-properties survive a join, must-properties only when both sides have them
    for tag in ("float-quotient", "assembled"):
        if a.norm_tag == tag or b.norm_tag == tag:
            out.norm_tag = tag
    if a.norm_tag == b.norm_tag and a.norm_tag in ("digits", "literal-schema"):
        out.norm_tag = a.norm_tag
    return out


_ORDERING_FUNCS = frozenset(["operator.lt", "operator.le", "operator.gt", "operator.ge", "operator.<ordering>"])


def _join_const(ca, cb):
    """two different library callables that are both ordering comparisons (operator.lt / operator.le picked from a table):
    still an ordering comparison, with the same demands on its operands"""
    if ca and cb and ca[0] == cb[0] == "ext" and ca[1] in _ORDERING_FUNCS and cb[1] in _ORDERING_FUNCS:
        return ("ext", "operator.<ordering>")
    return None


def join_all(avs):
    out = BOTTOM
    for a in avs:
        out = join(out, a)
    return out


BOTTOM = AV([])
ANY = AV(JSON_KINDS)
ANY.elem = ANY
ANY.vals = ANY


def any_json():
    return ANY


def const_av(v):
    if v is None:
        return AV(["null"], const=("c", None))
    if v is True or v is False:
        return AV(["bool"], const=("c", v))
    if isinstance(v, int):
        return AV(["int"], pos=v > 0, big=False, const=("c", v))
    if isinstance(v, float):
        return AV(["float"], pos=v > 0, const=("c", v))
    if isinstance(v, str):
        return AV(["str"], strs=[v], nonempty=bool(v), const=("c", v))
    if isinstance(v, bytes):
        return AV(["opaque"])
    return AV(["opaque"])


def from_json_value(v, depth=0):
    """AV describing exactly one concrete JSON value (used for R11.4)."""
    if isinstance(v, list):
        return AV(["list"], elem=join_all([from_json_value(x, depth + 1) for x in v]) if v else BOTTOM, nonempty=bool(v))
    if isinstance(v, dict):
        return AV(["dict"], vals=join_all([from_json_value(x, depth + 1) for x in v.values()]) if v else BOTTOM, nonempty=bool(v))
    return const_av(v)


# --------------------------------------------------------------------------- metaschema shapes
TYPE_KINDS = {
    "null": ["null"], "boolean": ["bool"], "string": ["str"], "array": ["list"], "object": ["dict"],
    "number": ["int", "float"], "integer": ["int"], "any": sorted(JSON_KINDS),
}


class Shapes:
    """shape_d(k): the abstract value of keyword k's value in any schema the draft's metaschema accepts."""

    def __init__(self, draft, meta):
        self.draft = draft
        self.meta = meta
        self.old = draft in ("draft3", "draft4")
        self._cache = {}
        self.notes = []

    def schema_av(self):
        ks = ["dict"] if self.old else ["dict", "bool"]
        return AV(ks, schema=self.draft)

    def keyword(self, k):
        if k in self._cache:
            return self._cache[k]
        props = self.meta.get("properties", {}) if isinstance(self.meta, dict) else {}
        if k == "$ref":
            av = AV(["str"])    # the property's proviso: every $ref value is a string
        elif k not in props:
            av = ANY
        else:
            av = self.shape(props[k], "#/properties/" + k, set())
        self._cache[k] = av
        return av

    def resolve(self, ref):
        if ref == "#":
            return "SELF", None
        if ref.startswith("#/"):
            cur = self.meta
            for tok in ref[2:].split("/"):
                tok = tok.replace("~1", "/").replace("~0", "~")
                if isinstance(cur, dict) and tok in cur:
                    cur = cur[tok]
                else:
                    return None, None
            return "SUB", cur
        return None, None

    def shape(self, sub, path, seen):
        """AV of the values that satisfy (metaschema) subschema `sub`."""
        if sub is True or sub == {}:
            return ANY
        if sub is False:
            return BOTTOM
        if not isinstance(sub, dict):
            return ANY
        if "$ref" in sub and isinstance(sub["$ref"], str):
            kind, tgt = self.resolve(sub["$ref"])
            if kind == "SELF":
                return self.schema_av()
            if kind == "SUB":
                key = sub["$ref"]
                if key in seen:
                    return ANY
                return self.shape(tgt, sub["$ref"], seen | {key})
            return ANY
        av = ANY
        t = sub.get("type")
        if t is not None:
            parts = []
            members = t if isinstance(t, list) else [t]
            for m in members:
                if isinstance(m, str):
                    ks = TYPE_KINDS.get(m)
                    if ks is None:
                        parts.append(ANY)
                        continue
                    a = AV(ks)
                    if m == "integer" and not self.old:
                        a = AV(["int", "float"], integral_float=True)
                    if "list" in ks:
                        a.elem = ANY
                    if "dict" in ks:
                        a.vals = ANY
                    parts.append(a)
                elif isinstance(m, dict):   # Draft 3 union member that is a schema
                    parts.append(self.shape(m, path + "/type", seen))
            av = join_all(parts)
        # enum
        if isinstance(sub.get("enum"), list):
            vals = sub["enum"]
            ev = join_all([from_json_value(v) for v in vals])
            if all(isinstance(v, str) for v in vals):
                ev = AV(["str"], strs=vals, nonempty=all(vals))
            av = meet(av, ev)
        # array refinements
        if "list" in av.kinds:
            elem = ANY
            it = sub.get("items")
            if isinstance(it, dict) or isinstance(it, bool):
                elem = self.shape(it, path + "/items", seen)
            elif isinstance(it, list):
                parts = [self.shape(x, path + "/items", seen) for x in it]
                ai = sub.get("additionalItems", True)
                parts.append(self.shape(ai, path + "/additionalItems", seen) if isinstance(ai, (dict, bool)) else ANY)
                elem = join_all(parts)
            ne = isinstance(sub.get("minItems"), (int, float)) and sub.get("minItems") >= 1
            av = av.copy(elem=elem, nonempty=av.nonempty or (ne and av.kinds == frozenset(["list"])))
        # object refinements
        if "dict" in av.kinds and not av.schema:
            parts = []
            for key in ("properties", "patternProperties"):
                pv = sub.get(key)
                if isinstance(pv, dict):
                    for name, s2 in pv.items():
                        parts.append(self.shape(s2, "%s/%s/%s" % (path, key, name), seen))
            ap = sub.get("additionalProperties", True)
            if isinstance(ap, (dict, bool)):
                parts.append(self.shape(ap, path + "/additionalProperties", seen))
            else:
                parts.append(ANY)
            av = av.copy(vals=join_all(parts) if parts else ANY)
        # numeric refinements
        if av.kinds & NUM:
            mn = sub.get("minimum")
            ex = sub.get("exclusiveMinimum")
            pos = False
            if isinstance(ex, bool):
                pos = ex and isinstance(mn, (int, float)) and mn >= 0
            elif isinstance(ex, (int, float)):
                pos = ex >= 0
            if isinstance(mn, (int, float)) and mn > 0:
                pos = True
            if pos:
                av = av.copy(pos=True)
        # combinators
        for key in ("anyOf", "oneOf"):
            br = sub.get(key)
            if isinstance(br, list) and br:
                alts = [meet(av, self.shape(b, "%s/%s/%d" % (path, key, i), seen)) for i, b in enumerate(br)]
                av = join_all(alts)
        if isinstance(sub.get("allOf"), list):
            for i, b in enumerate(sub["allOf"]):
                av = meet(av, self.shape(b, "%s/allOf/%d" % (path, i), seen))
        if self.draft == "draft3" and "extends" in sub:
            ex = sub["extends"]
            for b in (ex if isinstance(ex, list) else [ex]):
                if isinstance(b, dict):
                    av = meet(av, self.shape(b, path + "/extends", seen))
        return av

    def admits(self, k):
        """Text describing where in the metaschema the shape of k comes from (for reports)."""
        props = self.meta.get("properties", {}) if isinstance(self.meta, dict) else {}
        if k not in props:
            return "%s.json has no properties/%s: any JSON value is accepted" % (self.draft, k)
        return "%s.json#/properties/%s = %s" % (self.draft, k, json.dumps(props[k], sort_keys=True)[:160])


def meet(a, b):
    """Greatest lower bound (values satisfying both)."""
    if a is ANY:
        return b
    if b is ANY:
        return a
    kinds = a.kinds & b.kinds
    if not kinds:
        return BOTTOM
    elem = None
    if "list" in kinds:
        ea, eb = a.elem if a.elem is not None else ANY, b.elem if b.elem is not None else ANY
        elem = meet(ea, eb) if (ea is not ANY or eb is not ANY) else ANY
    vals = None
    if "dict" in kinds:
        va, vb = a.vals if a.vals is not None else ANY, b.vals if b.vals is not None else ANY
        vals = meet(va, vb) if (va is not ANY or vb is not ANY) else ANY
    strs = None
    if "str" in kinds:
        if a.strs is not None and b.strs is not None:
            strs = a.strs & b.strs
        else:
            strs = a.strs if a.strs is not None else b.strs
    return AV(kinds, elem=elem, vals=vals, pos=a.pos or b.pos, nonempty=a.nonempty or b.nonempty, big=a.big and b.big,
              integral_float=a.integral_float or b.integral_float, strs=strs, schema=a.schema or b.schema,
              keys_of=a.keys_of | b.keys_of)
