"""Abstract evaluation of applicator keyword functions over finite verdict scenarios ("truth tables with an oracle").

A keyword function such as anyOf never looks inside its subschemas or (for in-place applicators) its instance: it only
asks the validator `is_valid(part, subschema)` / `descend(part, subschema, path=, schema_path=)` and combines the
answers.  So its behaviour is a function of (a) the *shape* of the keyword value (how many subschemas, which keys),
(b) the shape of the instance (which members/elements exist) and (c) the verdict of each (part, subschema) pair.
Subschemas and instance leaves are therefore opaque tokens, the validator is a stub that answers from an oracle table,
and the function's AST is evaluated by the small definitional interpreter below on every row of the table.  Nothing of
/repo is imported or executed by Python; only standard-library callables (re.search, len, enumerate, ...) are applied.

A construct outside the supported fragment raises Undecided: the rule then records "not decided" for that keyword, it
never turns that into a violation.
"""
import ast
import os
import collections
import importlib

from .prog import Func, Cls, norm


class Undecided(Exception):
    pass


class PyRaise(Exception):
    """A Python exception raised by the evaluated code.  `cls` is the exception's class when known (a Python class for library
    exceptions, a prog.Cls for the package's own), `obj` the exception object itself."""
    def __init__(self, name, msg="", cls=None, obj=None):
        Exception.__init__(self, "%s: %s" % (name, msg))
        self.name = name
        self.msg = msg
        self.cls = cls
        self.obj = obj


class _Break(Exception):
    pass


class _Continue(Exception):
    pass


class _Return(Exception):
    def __init__(self, value):
        self.value = value


class Tok:
    """An opaque JSON value (a subschema object, an instance leaf) of the given JSON kinds."""
    def __init__(self, name, kinds=("object",)):
        self.name = name
        self.kinds = frozenset(kinds)

    def __repr__(self):
        return "<%s>" % self.name

    def __hash__(self):
        return hash(self.name)

    def __eq__(self, other):
        return isinstance(other, Tok) and other.name == self.name

    def __bool__(self):
        raise Undecided("truthiness of the opaque value %s" % self.name)


class AbsVal:
    """A scalar operand of one row of a comparison table: the instance (of JSON kind `kind`), the keyword value, or the
    instance's length.  Ordering against the other operand answers from the row's trichotomy `order` (how the row's *term*
    -- the instance or its length -- stands to the keyword value); everything Python would refuse raises TypeError."""
    LENGTHY = ("string", "array", "object")
    NUMERIC = ("number", "integer")

    def __init__(self, role, kind, term, order):
        self.role, self.kind, self.term, self.order = role, kind, term, order

    def __repr__(self):
        return "<%s>" % (self.role if self.role != "instance" else "instance:%s" % self.kind)

    def __hash__(self):
        return id(self)

    def __bool__(self):
        raise Undecided("truthiness of an abstract operand")

    def length(self):
        if self.role != "instance" or self.kind not in self.LENGTHY:
            raise PyRaise("TypeError", "object of this type has no len()")
        return AbsVal("len", "integer", self.term, self.order)

    def _rel(self, other):
        if not isinstance(other, AbsVal):
            raise Undecided("an abstract operand compared with a concrete value")
        for x in (self, other):
            if x.role == "instance" and x.kind not in self.NUMERIC:
                raise PyRaise("TypeError", "ordering not supported for a %s instance" % x.kind)
        if self.role == other.role:
            return "EQ"
        if self.role == self.term and other.role == "value":
            return self.order
        if self.role == "value" and other.role == self.term:
            return {"LT": "GT", "GT": "LT", "EQ": "EQ"}[self.order]
        raise Undecided("comparison of %s with %s is not what the row is about" % (self.role, other.role))

    def __lt__(self, o):
        return self._rel(o) == "LT"

    def __le__(self, o):
        return self._rel(o) in ("LT", "EQ")

    def __gt__(self, o):
        return self._rel(o) == "GT"

    def __ge__(self, o):
        return self._rel(o) in ("GT", "EQ")

    def __eq__(self, o):
        if o is self:
            return True
        if not isinstance(o, AbsVal):
            return False
        if (self.role == "instance" and self.kind not in self.NUMERIC) or (o.role == "instance" and o.kind not in self.NUMERIC):
            return False
        return self._rel(o) == "EQ"

    def __ne__(self, o):
        return not self.__eq__(o)

    def _arith(self, *a):
        raise Undecided("arithmetic on an abstract operand")
    __add__ = __sub__ = __mul__ = __truediv__ = __mod__ = __floordiv__ = __radd__ = __rsub__ = __rmul__ = __rtruediv__ = __rmod__ = _arith
    __neg__ = __abs__ = __float__ = __int__ = __round__ = _arith


def _len(x):
    if isinstance(x, AbsVal):
        return x.length()
    return len(x)


class Err:
    """A ValidationError built by the evaluated code or handed out by the validator stub."""
    _n = 0

    def __init__(self, kind, message="", context=(), **kw):
        Err._n += 1
        self.serial = Err._n
        self.kind = kind                # "own" | "sub"
        self.message = message
        self.context = list(context)
        self.path = self.relative_path = collections.deque(kw.pop("path", ()))
        self.schema_path = self.relative_schema_path = collections.deque(kw.pop("schema_path", ()))
        self.cause = kw.pop("cause", None)
        self.validator = kw.pop("validator", None)
        self.validator_value = kw.pop("validator_value", None)
        self.instance = kw.pop("instance", None)
        self.schema = kw.pop("schema", None)
        self.parent = None
        self.sub = kw.pop("sub", None)  # for kind "sub": (instance key, schema key, ordinal)
        for c in self.context:
            if isinstance(c, Err):
                c.parent = self

    def _set(self, **kw):
        for k, v in kw.items():
            if getattr(self, k) is None:
                setattr(self, k, v)

    def __repr__(self):
        if self.kind == "sub":
            return "sub%r@%s/%s" % (self.sub, list(self.path), list(self.schema_path))
        return "own(%s ctx=%r)" % (self.message[:30], self.context)

    def summary(self):
        if self.kind == "sub":
            return ("sub", self.sub, tuple(self.path), tuple(self.schema_path))
        return ("own", tuple(c.summary() if isinstance(c, Err) else ("?", repr(c)) for c in self.context),
                tuple(self.path), tuple(self.schema_path))


def vkey(v):
    """Stable key of an instance part / schema for the oracle."""
    if isinstance(v, Tok):
        return v.name
    if isinstance(v, dict):
        return "{" + ",".join("%s:%s" % (k, vkey(x)) for k, x in sorted(v.items(), key=lambda kv: str(kv[0]))) + "}"
    if isinstance(v, (list, tuple)):
        return "[" + ",".join(vkey(x) for x in v) + "]"
    return repr(v)


JSON_TYPE = {
    "object": lambda v: isinstance(v, dict),
    "array": lambda v: isinstance(v, list),
    "string": lambda v: isinstance(v, str),
    "boolean": lambda v: isinstance(v, bool),
    "null": lambda v: v is None,
    "number": lambda v: isinstance(v, (int, float)) and not isinstance(v, bool),
    "integer": lambda v: isinstance(v, int) and not isinstance(v, bool),
    "any": lambda v: True,
}


class ValidatorStub:
    """Answers is_type from the value's own kind and is_valid/descend/iter_errors from the oracle
    {(instance key, schema key): number of errors}.  Boolean schemas answer for themselves."""

    def __init__(self, oracle, root_schema=None, default_errors=None):
        self.oracle = oracle
        self.schema = root_schema
        self.format_checker = None
        self.asked = []
        self.default_errors = default_errors

    def is_type(self, value, typ):
        if isinstance(value, Tok):
            return typ in value.kinds or typ == "any"
        if isinstance(value, AbsVal):
            k = "integer" if value.role == "len" else ("number" if value.role == "value" else value.kind)
            return typ == k or typ == "any" or (typ == "number" and k == "integer")
        if typ not in JSON_TYPE:
            raise PyRaise("UnknownType", typ)
        return JSON_TYPE[typ](value)

    def _n(self, instance, schema):
        if schema is True:
            return 0
        if schema is False:
            return 1
        if not isinstance(schema, (Tok, dict)):
            raise Undecided("validation against a non-schema %r" % (schema,))
        k = (vkey(instance), schema.name if isinstance(schema, Tok) else vkey(schema))
        self.asked.append(k)
        if k not in self.oracle:
            if self.default_errors is not None:
                return self.default_errors
            raise Undecided("oracle has no verdict for %r" % (k,))
        return self.oracle[k]

    def is_valid(self, instance, _schema=None):
        return self._n(instance, _schema) == 0

    def iter_errors(self, instance, _schema=None):
        n = self._n(instance, _schema)
        sk = _schema.name if isinstance(_schema, Tok) else (repr(_schema) if isinstance(_schema, bool) else vkey(_schema))
        return iter([Err("sub", sub=(vkey(instance), sk, i)) for i in range(n)])

    def descend(self, instance, schema, path=None, schema_path=None):
        out = []
        for e in self.iter_errors(instance, schema):
            if path is not None:
                e.path.appendleft(path)
            if schema_path is not None:
                e.schema_path.appendleft(schema_path)
            out.append(e)
        return iter(out)


SAFE_BUILTINS = {
    "len": _len, "enumerate": enumerate, "zip": zip, "any": any, "all": all, "list": list, "set": set, "sorted": sorted, "bytes": bytes, "bytearray": bytearray,
    "iter": iter, "next": next, "isinstance": isinstance, "repr": repr, "str": str, "map": map, "dict": dict,
    "tuple": tuple, "range": range, "min": min, "max": max, "bool": bool, "int": int, "float": float, "sum": sum,
    "reversed": reversed, "filter": filter, "frozenset": frozenset, "abs": abs, "type": type, "object": object,
    "True": True, "False": False, "None": None, "unicode": str, "getattr": getattr, "hasattr": hasattr, "setattr": setattr, "super": super,
    "staticmethod": staticmethod, "classmethod": classmethod, "property": property, "callable": callable, "id": id, "vars": vars,
    "DeprecationWarning": DeprecationWarning, "UserWarning": UserWarning, "Warning": Warning, "NotImplementedError": NotImplementedError, "OverflowError": OverflowError,
    "ZeroDivisionError": ZeroDivisionError, "RuntimeError": RuntimeError, "OSError": OSError, "IOError": IOError, "ImportError": ImportError,
    "KeyError": KeyError, "TypeError": TypeError, "ValueError": ValueError, "IndexError": IndexError, "Exception": Exception,
    "LookupError": LookupError, "AttributeError": AttributeError, "StopIteration": StopIteration,
}
import builtins as _builtins
SAFE_BUILTINS.update({n: v for n, v in vars(_builtins).items() if isinstance(v, type) and issubclass(v, BaseException)})
EXT_OK = ("re", "fractions", "itertools", "collections", "numbers", "operator", "functools", "math", "warnings", "json", "errno", "textwrap", "traceback", "io", "contextlib", "unicodedata", "string", "datetime", "ipaddress", "codecs")
ERR_CLASSES = ("ValidationError", "SchemaError")


class _OsPath:
    """the pure, string-only part of os.path (nothing that looks at the file system, the environment or the working directory)"""
    import os.path as _p
    normpath, join, basename, dirname, split, splitext, isabs, normcase, sep = (
        staticmethod(_p.normpath), staticmethod(_p.join), staticmethod(_p.basename), staticmethod(_p.dirname), staticmethod(_p.split),
        staticmethod(_p.splitext), staticmethod(_p.isabs), staticmethod(_p.normcase), _p.sep)

    def __getattr__(self, name):
        raise Undecided("os.path.%s (touches the file system or the environment)" % name)


class _OsStub:
    """`os` as far as evaluated code may use it: os.path's string functions, os.sep, os.linesep"""
    import os as _os
    path, sep, linesep, pathsep, curdir, pardir = _OsPath(), _os.sep, _os.linesep, _os.pathsep, _os.curdir, _os.pardir

    def __getattr__(self, name):
        raise Undecided("os.%s" % name)

HIER = {
    "KeyError": ("LookupError", "Exception"), "IndexError": ("LookupError", "Exception"), "LookupError": ("Exception",),
    "TypeError": ("Exception",), "ValueError": ("Exception",), "AttributeError": ("Exception",), "ZeroDivisionError": ("ArithmeticError", "Exception"),
    "OverflowError": ("ArithmeticError", "Exception"), "StopIteration": ("Exception",), "UnknownType": ("Exception",),
    "RefResolutionError": ("Exception",), "RecursionError": ("RuntimeError", "Exception"),
}


class FuncRef:
    def __init__(self, ev, func, closure=None):
        self.ev = ev
        self.func = func
        self.closure = closure      # the defining function's variables, for a nested def

    def __call__(self, *args, **kwargs):
        return self.ev.call_func(self.func, list(args), kwargs, closure=self.closure)

    # a module-level function is one object however often its name is looked up (tables keyed by function rely on it)
    def __eq__(self, other):
        return isinstance(other, FuncRef) and other.func is self.func and other.closure is self.closure

    def __hash__(self):
        return hash((id(self.func), id(self.closure)))


class Obj:
    """An instance of a package class: its attribute dictionary; methods and class attributes come from the class's AST.
    The container protocol is forwarded to the class's own dunder methods (evaluated by the interpreter that made it)."""
    ev = None
    klass = None        # the ClsRef it was made by, when that is a class defined inside a function

    def __init__(self, cls, attrs=None, label=""):
        self.cls = cls
        self.attrs = dict(attrs or {})
        self.label = label

    def __repr__(self):
        return "<%s %s>" % (self.cls.name, self.label)

    def __getattr__(self, name):
        # plain Python code (the rules, library callables) reading an attribute of an interpreted object
        if name.startswith("__") or self.__dict__.get("ev") is None and Obj.ev is None:
            raise AttributeError(name)
        try:
            return (self.__dict__.get("ev") or Obj.ev).obj_getattr(self, name)
        except PyRaise as pr:
            if pr.name == "AttributeError":
                raise AttributeError(name)
            raise

    def _dunder(self, name, *args):
        if self.ev is None:
            raise Undecided("object protocol without an interpreter")
        m = self.ev.find_method(self.cls, name)
        if m is None:
            raise PyRaise("TypeError", "%s does not support %s" % (self.cls.name, name))
        return self.ev.call_func(m, [self] + list(args), {})

    def __call__(self, *args, **kwargs):
        # an instance of a class that defines __call__ (a decorator written as a class)
        if self.ev is None:
            raise Undecided("object protocol without an interpreter")
        m = self.ev.find_method(self.cls, "__call__")
        if m is None:
            raise PyRaise("TypeError", "'%s' object is not callable" % self.cls.name)
        return self.ev.call_func(m, [self] + list(args), kwargs)

    def __getitem__(self, k):
        return self._dunder("__getitem__", k)

    def __setitem__(self, k, v):
        return self._dunder("__setitem__", k, v)

    def __delitem__(self, k):
        return self._dunder("__delitem__", k)

    def __contains__(self, k):
        if self.ev is not None and self.ev.find_method(self.cls, "__contains__") is None:
            if self.ev.find_method(self.cls, "__getitem__") is not None:
                # collections.abc.Mapping.__contains__: try self[key]
                try:
                    self._dunder("__getitem__", k)
                    return True
                except PyRaise as pr:
                    if pr.name == "KeyError":
                        return False
                    raise
            return any(x == k for x in self.__iter__())
        return bool(self._dunder("__contains__", k))

    # collections.abc.MutableMapping mixin methods, in terms of the class's own __getitem__/__setitem__/__delitem__/__iter__
    def _mixin(self, name):
        if self.ev is None or self.ev.find_method(self.cls, "__getitem__") is None or self.ev.find_method(self.cls, "__iter__") is None:
            return None

        def get(k, d=None):
            try:
                return self[k]
            except PyRaise as pr:
                if pr.name == "KeyError":
                    return d
                raise

        def update(*args, **kw):
            for other in args:
                if hasattr(other, "keys"):
                    for k in list(other.keys()):
                        self[k] = other[k]
                else:
                    for k, v in other:
                        self[k] = v
            for k, v in kw.items():
                self[k] = v

        def setdefault(k, d=None):
            if k in self:
                return self[k]
            self[k] = d
            return d

        def pop(k, *d):
            if k in self:
                v = self[k]
                del self[k]
                return v
            if d:
                return d[0]
            raise PyRaise("KeyError", repr(k))
        table = {"get": get, "update": update, "setdefault": setdefault, "pop": pop,
                 "keys": lambda: list(iter(self)), "items": lambda: [(k, self[k]) for k in iter(self)], "values": lambda: [self[k] for k in iter(self)]}
        return table.get(name)

    def __iter__(self):
        return iter(self._dunder("__iter__"))

    def __len__(self):
        return self._dunder("__len__")

    def __hash__(self):
        return id(self)

    def __eq__(self, other):
        return other is self


class ClsRef:
    """A class object.  For a class defined inside a function (create()'s Validator) every execution of the `class` statement
    makes its own ClsRef: `closure` holds the defining call's variables, `vals` the class attributes evaluated then."""
    def __init__(self, ev, cls, closure=None, vals=None):
        self.ev = ev
        self.cls = cls
        self.closure = closure
        self.vals = vals            # None: a module-level class (attributes evaluated lazily, once per interpreter)
        self.over = set()           # names bound by an assignment *after* a def of the same name (`f = classmethod(f)`)

    def __call__(self, *args, **kwargs):
        o = Obj(self.cls)
        o.ev = self.ev
        o.klass = self
        init = self.ev.find_method(self.cls, "__init__")
        if init is None:
            if self.ev.attrs_construct(o, args, kwargs):
                return o
            if args or kwargs:
                raise Undecided("construction of %s without an __init__ in the package" % self.cls.name)
            return o
        self.ev.call_func(init, [o] + list(args), kwargs, closure=self.closure)
        return o

    def __eq__(self, other):
        return other is self or (isinstance(other, ClsRef) and self.vals is None and other.vals is None and other.cls is self.cls)

    def __hash__(self):
        return hash(self.cls.qual) if self.vals is None else id(self)

    def __repr__(self):
        return "<class %s>" % self.cls.name


class BoundMethod:
    def __init__(self, ev, func, recv, closure=None):
        self.ev = ev
        self.func = func
        self.recv = recv
        self.closure = closure

    def __call__(self, *args, **kwargs):
        return self.ev.call_func(self.func, [self.recv] + list(args), kwargs, closure=self.closure)


class _Super:
    def __init__(self, obj, after):
        self.obj = obj
        self.after = after


class _GenExit(BaseException):
    """GeneratorExit for an interpreted generator: raised at its suspended `yield` when it is closed or dropped, so that the
    `finally` blocks of the interpreted body run (a scope is popped) exactly as CPython would run them."""


class _GenState:
    """The frame of an interpreted generator.  The body runs in a thread of its own that holds the interpreter only between a
    resume and the next `yield` (strict hand-over through two semaphores: never two threads at once), which gives the recursive
    interpreter real generator semantics: nothing runs before the first next(), each next() runs to the next yield, close() --
    or dropping the last reference -- raises at the suspended yield."""
    def __init__(self, ev, func, env):
        import threading
        self.ev, self.func, self.env = ev, func, env
        self.to_gen, self.to_con = threading.Semaphore(0), threading.Semaphore(0)
        self.thread = None
        self.done = self.running = self.closing = False
        self.msg = None
        self.depth = ev.depth

    def _run(self):
        self.to_gen.acquire()
        try:
            if self.closing:
                self.msg = ("return", None)
            else:
                try:
                    self.ev.block(self.func.node.body, self.env, self.func)
                    self.msg = ("return", None)
                except _Return:
                    self.msg = ("return", None)
                except _GenExit:
                    self.msg = ("return", None)
                except BaseException as e:      # PyRaise, Undecided, an interpreter error: all surface at the consumer's next()
                    self.msg = ("raise", e)
        finally:
            self.done = True
            self.to_con.release()

    def _switch(self):
        ev = self.ev
        mine = ev.depth
        ev.depth = self.depth
        self.running = True
        self.to_gen.release()
        while not self.to_con.acquire(timeout=2.0):
            if not self.thread.is_alive():
                self.running = False
                self.done = True
                ev.depth = mine
                raise Undecided("generator thread ended without an answer")
        self.running = False
        self.depth = ev.depth
        ev.depth = mine
        return self.msg

    def resume(self):
        if self.done:
            raise StopIteration
        if self.running:
            raise PyRaise("ValueError", "generator already executing")
        if self.thread is None:
            import threading
            self.thread = threading.Thread(target=self._run, daemon=True)
            self.thread.start()
        kind, val = self._switch()
        if kind == "yield":
            return val
        if kind == "raise":
            raise val
        raise StopIteration

    def suspend(self, value):
        """called by the body's thread at a `yield`"""
        self.msg = ("yield", value)
        self.to_con.release()
        self.to_gen.acquire()
        if self.closing:
            raise _GenExit()

    def close(self):
        if self.done or self.running:
            return
        if self.thread is None:
            self.done = True
            return
        self.closing = True
        kind, val = self._switch()
        if kind == "raise" and not isinstance(val, _GenExit):
            raise val
        if kind == "yield":
            self.done = True
            raise PyRaise("RuntimeError", "generator ignored GeneratorExit")


class LazyGen:
    """The generator object handed to interpreted (and native) code."""
    def __init__(self, state):
        self._st = state

    def __iter__(self):
        return self

    def __next__(self):
        return self._st.resume()

    def close(self):
        self._st.close()

    def __del__(self):
        # dropping the last reference closes the generator (CPython's reference counting does so at once); not while the process
        # is shutting down, when the body's (daemon) thread no longer runs
        import sys
        st = self._st
        if sys.is_finalizing() or st.done or st.thread is None or not st.thread.is_alive():
            st.done = True
            return
        try:
            st.close()
        except BaseException:
            pass


class Ev:
    def __init__(self, prog, fuel=20000, real_errors=False):
        self.prog = prog
        self.fuel = fuel
        self.depth = 0
        self.defaults = {}
        self.modvals = {}
        self.clsvals = {}
        self.decorated = {}
        self.builtins = {}          # extra builtins for a scenario (a fake `open`)
        self.ext = {}               # replacements for library names, by dotted name ("sys": stub)
        self.real_errors = real_errors      # True: ValidationError(...) instantiates the package's own class
        self.lazy = os.environ.get("SA_TOKEVAL_EAGER") != "1"      # generator functions run on demand (threads, strict hand-over)

    def preset(self, modname, name, value):
        """Fix the value of a module-level binding (e.g. replace a class built from a bundled file by a stub)."""
        mod = self.prog.mods[modname]
        r = self.prog.resolve_name(mod, name)
        if not (isinstance(r, tuple) and r[0] == "expr"):
            raise Undecided("cannot preset %s.%s" % (modname, name))
        self.modvals[id(r[2])] = value

    def override_func(self, qual, value):
        """Replace a package function, wherever its name is looked up, by a stand-in."""
        self.__dict__.setdefault("func_override", {})[qual] = value

    def module_value(self, modname, name):
        return self.resolved(self.prog.resolve_name(self.prog.mods[modname], name), name)

    # ------------------------------------------------------------------ objects
    def attrs_construct(self, o, args, kwargs):
        """An attrs class (@attr.s, fields `_x = attr.ib(default=..., converter=...)`): the generated __init__ takes each field
        under its name without the leading underscore, applies default and converter, and stores it."""
        c = o.cls
        decos = [norm(d) for d in getattr(c.node, "decorator_list", [])]
        if not any(d.startswith("attr.s") or d.startswith("attr.attrs") or d.startswith("attr.define") for d in decos):
            return False
        fields = []
        for name, e in c.attrs.items():
            if isinstance(e, ast.Call) and norm(e.func) in ("attr.ib", "attr.attrib", "attr.field"):
                fields.append((name, e))
        args = list(args)
        kwargs = dict(kwargs)
        for name, e in fields:
            arg = name.lstrip("_")
            kw = {k.arg: k.value for k in e.keywords}
            if args:
                v = args.pop(0)
            elif arg in kwargs:
                v = kwargs.pop(arg)
            elif "default" in kw:
                v = self.expr(kw["default"], {}, _ModScope(c.mod))
            elif "factory" in kw:
                v = self.expr(kw["factory"], {}, _ModScope(c.mod))()
            else:
                raise PyRaise("TypeError", "missing argument %s" % arg)
            if "converter" in kw:
                v = self.native(self.expr(kw["converter"], {}, _ModScope(c.mod)), v)
            o.attrs[name] = v
        if args or kwargs:
            raise PyRaise("TypeError", "unexpected arguments for %s" % c.name)
        return True

    def attr_evolve(self, o, **changes):
        if not isinstance(o, Obj):
            raise Undecided("attr.evolve of a non-object")
        new = Obj(o.cls, dict(o.attrs), o.label)
        new.ev, new.klass = o.ev, o.klass
        for k, v in changes.items():
            tgt = "_" + k if ("_" + k) in o.attrs else k
            e = o.cls.attrs.get(tgt)
            if isinstance(e, ast.Call):
                kw = {x.arg: x.value for x in e.keywords}
                if "converter" in kw:
                    v = self.native(self.expr(kw["converter"], {}, _ModScope(o.cls.mod)), v)
            new.attrs[tgt] = v
        return new

    def mro(self, cls):
        out, todo = [], [cls]
        while todo:
            c = todo.pop(0)
            if c in out:
                continue
            out.append(c)
            for b in getattr(c.node, "bases", []):
                r = self.prog.resolve_expr(c.mod, b, c.outer if isinstance(c.outer, Func) else None)
                if isinstance(r, Cls):
                    todo.append(r)
        return out

    def find_method(self, cls, name, after=None):
        chain = self.mro(cls)
        if after is not None and after in chain:
            chain = chain[chain.index(after) + 1:]
        for c in chain:
            if name in c.methods:
                return c.methods[name]
        return None

    def class_attr(self, c, name, recv=None):
        """class-level state is one object per class (FormatChecker.checkers), evaluated once"""
        e = c.attrs[name]
        if isinstance(e, ast.Call) and isinstance(e.func, ast.Name) and e.func.id in ("classmethod", "staticmethod") and len(e.args) == 1 \
                and isinstance(e.args[0], ast.Name) and e.args[0].id in c.methods:
            m = c.methods[e.args[0].id]     # cls_checks = classmethod(checks)
            return BoundMethod(self, m, ClsRef(self, recv.cls if isinstance(recv, Obj) else (recv.cls if isinstance(recv, ClsRef) else c))) \
                if e.func.id == "classmethod" else FuncRef(self, m)
        ck = (c.qual, name)
        if ck not in self.clsvals:
            self.clsvals[ck] = self.expr(c.attrs[name], {}, _ModScope(c.mod))
        return self.clsvals[ck]

    def _unwrap(self, v, recv_cls):
        if isinstance(v, staticmethod):
            return v.__func__
        if isinstance(v, classmethod):
            f = v.__func__
            return BoundMethod(self, f.func, recv_cls, closure=f.closure) if isinstance(f, FuncRef) else f
        return v

    def obj_getattr(self, o, name, after=None):
        if after is None and name in o.attrs:
            return o.attrs[name]
        k = o.klass
        clo = k.closure if k is not None else None
        if after is None and k is not None and k.vals is not None and name in k.vals and (name not in o.cls.methods or name in k.over):
            return self._unwrap(k.vals[name], k)
        chain = self.mro(o.cls)
        if after is not None and after in chain:
            chain = chain[chain.index(after) + 1:]
        for c in chain:
            if name in c.methods:
                m = c.methods[name]
                decos = [norm(d) for d in m.decorators]
                if "property" in decos:
                    return self.call_func(m, [o], {}, closure=clo)
                if "classmethod" in decos:
                    return BoundMethod(self, m, k if k is not None else ClsRef(self, o.cls), closure=clo)
                if "staticmethod" in decos:
                    return FuncRef(self, m, closure=clo)
                return BoundMethod(self, m, o, closure=clo)
            if name in c.attrs:
                return self.class_attr(c, name, o)
            if name in c.aliases:
                kind, target = c.aliases[name]
                m = self.find_method(c, target)
                if m is not None:
                    return BoundMethod(self, m, ClsRef(self, o.cls) if kind == "classmethod" else o)
        if after is not None:
            # the rest of the chain is outside the package (object, Exception): their __init__ etc. do nothing observable here
            return lambda *a, **k: None
        if name == "__class__":
            return ClsRef(self, o.cls)
        if any("Mapping" in norm(b) for c in self.mro(o.cls) for b in getattr(c.node, "bases", [])):
            m = o._mixin(name)
            if m is not None:
                return m
        raise PyRaise("AttributeError", "%s has no attribute %s" % (o.cls.name, name))

    # ------------------------------------------------------------------ functions
    def call_func(self, func, args, kwargs, closure=None, on_yield=None):
        self.depth += 1
        if self.depth > 40:
            raise Undecided("recursion too deep")
        try:
            node = func.node
            if isinstance(node, ast.Lambda):
                env = self.bind(func, node.args, args, kwargs, closure)
                env["__closure__"] = closure
                return self.expr(node.body, env, func)
            env = self.bind(func, node.args, args, kwargs, closure)
            env["__closure__"] = closure
            yields = []
            env["__yields__"] = yields
            env["__on_yield__"] = on_yield
            if func.is_generator and on_yield is None and self.lazy:
                # calling a generator function runs nothing: the body starts at the first next()
                st = _GenState(self, func, env)
                env["__gen__"] = st
                return LazyGen(st)
            ret = None
            try:
                self.block(node.body, env, func)
            except _Return as r:
                ret = r.value
            if func.is_generator:
                return iter(yields)
            return ret
        finally:
            self.depth -= 1

    def closure_with_defaults(self, node_args, env, func):
        """A nested def / lambda evaluates its default values when it is *made*, in the scope it is made in (`lambda x, k=k: ...` in a
        loop keeps each round's k): they travel with the function object as a layer of its closure."""
        pos = list(getattr(node_args, "posonlyargs", [])) + list(node_args.args)
        dflt = list(node_args.defaults)
        pairs = list(zip([x.arg for x in pos[len(pos) - len(dflt):]], dflt)) if dflt else []
        pairs += [(k.arg, d) for k, d in zip(node_args.kwonlyargs, node_args.kw_defaults) if d is not None]
        if not pairs or all(isinstance(d, ast.Constant) for _p, d in pairs):
            return env
        return {"__closure__": env, "__defaults__": {p: self.expr(d, env, func) for p, d in pairs}}

    def bind(self, func, a, args, kwargs, closure=None):
        env = {}
        made = closure.get("__defaults__") if isinstance(closure, dict) else None
        params = [x.arg for x in list(getattr(a, "posonlyargs", [])) + list(a.args)]
        defaults = list(a.defaults)
        dmap = dict(zip(params[len(params) - len(defaults):], defaults)) if defaults else {}
        args = list(args)
        for i, p in enumerate(params):
            if i < len(args):
                env[p] = args[i]
            elif p in kwargs:
                env[p] = kwargs.pop(p)
            elif made is not None and p in made:
                env[p] = made[p]
            elif p in dmap:
                # default values are evaluated once, when the function is defined
                ck = (id(func), p)
                if ck not in self.defaults:
                    self.defaults[ck] = self.expr(dmap[p], {}, func)
                env[p] = self.defaults[ck]
            else:
                raise PyRaise("TypeError", "missing argument %s" % p)
        extra = args[len(params):]
        if a.vararg is not None:
            env[a.vararg.arg] = tuple(extra)
        elif extra:
            raise PyRaise("TypeError", "too many positional arguments")
        for k, d in zip(a.kwonlyargs, a.kw_defaults):
            if k.arg in kwargs:
                env[k.arg] = kwargs.pop(k.arg)
            elif made is not None and k.arg in made:
                env[k.arg] = made[k.arg]
            elif d is not None:
                env[k.arg] = self.expr(d, {}, func)
            else:
                raise PyRaise("TypeError", "missing keyword argument %s" % k.arg)
        if a.kwarg is not None:
            env[a.kwarg.arg] = dict(kwargs)
        elif kwargs:
            raise PyRaise("TypeError", "unexpected keyword arguments %s" % sorted(kwargs))
        return env

    # ------------------------------------------------------------------ statements
    def block(self, stmts, env, func):
        for st in stmts:
            self.stmt(st, env, func)

    def tick(self):
        self.fuel -= 1
        if self.fuel <= 0:
            raise Undecided("evaluation budget exhausted (unbounded loop?)")

    def stmt(self, st, env, func):
        self.tick()
        if isinstance(st, ast.Expr):
            self.expr(st.value, env, func)
        elif isinstance(st, ast.Assign):
            v = self.expr(st.value, env, func)
            for t in st.targets:
                self.assign(t, v, env, func)
        elif isinstance(st, ast.AugAssign):
            cur = self.expr(ast.copy_location(self._load(st.target), st.target), env, func)
            v = self.binop(st.op, cur, self.expr(st.value, env, func))
            self.assign(st.target, v, env, func)
        elif isinstance(st, ast.AnnAssign):
            if st.value is not None:
                self.assign(st.target, self.expr(st.value, env, func), env, func)
        elif isinstance(st, ast.If):
            if self.truth(self.expr(st.test, env, func)):
                self.block(st.body, env, func)
            else:
                self.block(st.orelse, env, func)
        elif isinstance(st, ast.For):
            it = self.native(iter, self.expr(st.iter, env, func))
            broke = False
            while True:
                try:
                    x = next(it)
                except StopIteration:
                    break
                self.tick()
                self.assign(st.target, x, env, func)
                try:
                    self.block(st.body, env, func)
                except _Break:
                    broke = True
                    break
                except _Continue:
                    continue
            if not broke:
                self.block(st.orelse, env, func)
        elif isinstance(st, ast.While):
            broke = False
            while self.truth(self.expr(st.test, env, func)):
                self.tick()
                try:
                    self.block(st.body, env, func)
                except _Break:
                    broke = True
                    break
                except _Continue:
                    continue
            if not broke:
                self.block(st.orelse, env, func)
        elif isinstance(st, ast.Return):
            raise _Return(self.expr(st.value, env, func) if st.value is not None else None)
        elif isinstance(st, ast.Break):
            raise _Break()
        elif isinstance(st, ast.Continue):
            raise _Continue()
        elif isinstance(st, ast.Pass):
            pass
        elif isinstance(st, ast.Raise):
            if st.exc is None:
                cur = env.get("__handling__")
                if cur is None:
                    raise Undecided("bare raise outside a handler")
                raise cur
            e = st.exc
            name = (norm(e.func) if isinstance(e, ast.Call) else norm(e)).split(".")[-1]
            try:
                val = self.expr(e, env, func)
            except Undecided:
                raise PyRaise(name, "raised by the evaluated code")
            if isinstance(val, PyRaise):
                raise val
            if isinstance(val, Obj):
                raise PyRaise(val.cls.name, "raised by the evaluated code", cls=val.cls, obj=val)
            if isinstance(val, ClsRef):
                raise PyRaise(val.cls.name, "raised by the evaluated code", cls=val.cls, obj=val())
            if isinstance(val, BaseException):
                raise PyRaise(type(val).__name__, str(val)[:80], cls=type(val), obj=val)
            if isinstance(val, type) and issubclass(val, BaseException):
                raise PyRaise(val.__name__, "", cls=val, obj=val())
            raise PyRaise(name, "raised by the evaluated code")
        elif isinstance(st, ast.Try):
            try:
                try:
                    self.block(st.body, env, func)
                except PyRaise as pr:
                    for h in st.handlers:
                        if self.handler_matches(h, pr, env, func):
                            if h.name:
                                env[h.name] = pr.obj if pr.obj is not None else pr
                            saved = env.get("__handling__")
                            env["__handling__"] = pr
                            try:
                                self.block(h.body, env, func)
                            finally:
                                env["__handling__"] = saved
                            break
                    else:
                        raise
                else:
                    self.block(st.orelse, env, func)
            finally:
                self.block(st.finalbody, env, func)
        elif isinstance(st, (ast.FunctionDef,)):
            nested = func.nested.get(st.name) if func is not None else None
            if nested is not None and nested.node is not st:
                # two defs of one name in different branches: the loader's table keeps the last; this statement is its own function
                key = id(st)
                cache = self.__dict__.setdefault("_defs_by_node", {})
                if key not in cache:
                    cache[key] = Func(nested.mod, "%s@%d" % (nested.qual, st.lineno), st, cls=None, outer=nested.outer)
                nested = cache[key]
            if nested is None:
                raise Undecided("nested def %s" % st.name)
            env[st.name] = FuncRef(self, nested, closure=self.closure_with_defaults(st.args, env, func))
        elif isinstance(st, ast.ClassDef):
            nested = func.nested.get(st.name) if func is not None else None
            if not isinstance(nested, Cls) and func is not None:
                try:
                    nested = self.prog.cls("%s.%s" % (func.qual, st.name))
                except Exception:
                    nested = None
            if not isinstance(nested, Cls):
                raise Undecided("nested class %s" % st.name)
            ref = ClsRef(self, nested, closure=env, vals={})
            body_env = {"__closure__": env}
            defined = set()
            for b in st.body:
                if isinstance(b, ast.Assign):
                    v = self.expr(b.value, body_env, func)
                    for t in b.targets:
                        if isinstance(t, ast.Name):
                            body_env[t.id] = v
                            ref.vals[t.id] = v
                            if t.id in nested.methods and t.id in defined:
                                ref.over.add(t.id)
                elif isinstance(b, (ast.FunctionDef, ast.Expr, ast.Pass)):
                    if isinstance(b, ast.FunctionDef) and b.name in nested.methods:
                        body_env[b.name] = FuncRef(self, nested.methods[b.name], closure=env)
                        defined.add(b.name)
                        ref.vals.pop(b.name, None)
                        ref.over.discard(b.name)
                else:
                    raise Undecided("class body statement %s" % type(b).__name__)
            env[st.name] = ref
        elif isinstance(st, ast.Assert):
            if not self.truth(self.expr(st.test, env, func)):
                raise PyRaise("AssertionError")
        elif isinstance(st, ast.Delete):
            for t in st.targets:
                if isinstance(t, ast.Name):
                    env.pop(t.id, None)
                elif isinstance(t, ast.Subscript):
                    self.native(lambda c, k: c.__delitem__(k), self.expr(t.value, env, func), self.expr(t.slice, env, func))
                else:
                    raise Undecided("del target")
        elif isinstance(st, ast.Import):
            for a in st.names:
                top = a.name.split(".")[0]
                if a.name in self.ext:
                    # a stand-in supplied by the rule (an optional dependency: present, or absent = ImportError)
                    if isinstance(self.ext[a.name], BaseException):
                        raise PyRaise("ImportError", "No module named %r" % a.name)
                    env[a.asname or top] = self.ext[a.name]
                elif top == "os":
                    env[a.asname or top] = _OsStub() if (a.name == "os" or not a.asname) else _OsStub().path
                elif top in EXT_OK:
                    env[a.asname or top] = importlib.import_module(a.name if a.asname else top)
                else:
                    env[a.asname or top] = _External(a.name)
        elif isinstance(st, ast.With):
            self.with_stmt(st, 0, env, func)
        else:
            raise Undecided("statement %s" % type(st).__name__)

    def handler_matches(self, h, pr, env, func):
        """Does `except <h.type>` catch pr?  The handler expression is evaluated (it may be a variable holding a tuple of
        classes); when that is not possible the names written in the source are compared."""
        if h.type is None:
            return True
        names = [norm(x).split(".")[-1] for x in (h.type.elts if isinstance(h.type, ast.Tuple) else [h.type])]
        try:
            val = self.expr(h.type, env, func)
        except (Undecided, PyRaise):
            val = None
        if val is not None:
            want = val if isinstance(val, tuple) else (val,)
            ok_all = True
            for w in want:
                if isinstance(w, ClsRef):
                    if isinstance(pr.cls, Cls):
                        if w.cls in self.mro(pr.cls):
                            return True
                    elif pr.cls is None and pr.name == w.cls.name:
                        return True
                elif isinstance(w, type) and issubclass(w, BaseException):
                    if isinstance(pr.cls, type):
                        if issubclass(pr.cls, w):
                            return True
                    elif pr.cls is None and (pr.name == w.__name__ or w.__name__ in HIER.get(pr.name, ("Exception",))):
                        return True
                    elif isinstance(pr.cls, Cls) and w in (Exception, BaseException):
                        return True
                    elif isinstance(pr.cls, Cls) and any(
                            norm(b).split(".")[-1] == w.__name__ or w.__name__ in HIER.get(norm(b).split(".")[-1], ())
                            for c in self.mro(pr.cls) for b in getattr(c.node, "bases", [])):
                        return True         # a package exception class derived from a builtin one (class RefResolutionError(KeyError))
                else:
                    ok_all = False
            if ok_all:
                return False
        return pr.name in names or any(b in names for b in HIER.get(pr.name, ("Exception",)))

    def with_stmt(self, st, i, env, func):
        """with a as x, b as y: body -- native context managers (files, StringIO) by their own __enter__/__exit__; a package
        function decorated with contextlib.contextmanager by running its body with the with-body as continuation of its yield."""
        if i == len(st.items):
            self.block(st.body, env, func)
            return
        item = st.items[i]
        ce = item.context_expr
        # package contextmanager generator?
        if isinstance(ce, ast.Call):
            fn = self.expr(ce.func, env, func)
            target = fn.func if isinstance(fn, (FuncRef, BoundMethod)) else None
            if target is not None and any(norm(d).split(".")[-1] == "contextmanager" for d in target.decorators):
                args = [self.expr(a, env, func) for a in ce.args]
                kwargs = {k.arg: self.expr(k.value, env, func) for k in ce.keywords}
                if isinstance(fn, BoundMethod):
                    args = [fn.recv] + args
                ran = []

                def on_yield(value):
                    if ran:
                        raise PyRaise("RuntimeError", "generator didn't stop")
                    ran.append(True)
                    if item.optional_vars is not None:
                        self.assign(item.optional_vars, value, env, func)
                    self.with_stmt(st, i + 1, env, func)
                self.call_func(target, args, kwargs, closure=getattr(fn, "closure", None), on_yield=on_yield)
                if not ran:
                    raise PyRaise("RuntimeError", "generator didn't yield")
                return
            cm = self.native(fn, *[self.expr(a, env, func) for a in ce.args], **{k.arg: self.expr(k.value, env, func) for k in ce.keywords}) \
                if not isinstance(fn, (FuncRef, BoundMethod, ClsRef)) else fn(*[self.expr(a, env, func) for a in ce.args],
                                                                             **{k.arg: self.expr(k.value, env, func) for k in ce.keywords})
        else:
            cm = self.expr(ce, env, func)
        if isinstance(cm, Obj):
            # a context manager written as a package class: its own __enter__ / __exit__, evaluated
            enter, exit_ = self.find_method(cm.cls, "__enter__"), self.find_method(cm.cls, "__exit__")
            if enter is None or exit_ is None:
                raise PyRaise("AttributeError", "__enter__")
            val = self.call_func(enter, [cm], {})
            if item.optional_vars is not None:
                self.assign(item.optional_vars, val, env, func)
            try:
                self.with_stmt(st, i + 1, env, func)
            except PyRaise as pr:
                if not self.truth(self.call_func(exit_, [cm, pr.cls if pr.cls is not None else pr.name, pr.obj if pr.obj is not None else pr, None], {})):
                    raise
                return
            except BaseException:
                # return / break / continue out of the block, or the generator being closed: the exit runs without an exception
                self.call_func(exit_, [cm, None, None, None], {})
                raise
            self.call_func(exit_, [cm, None, None, None], {})
            return
        if isinstance(cm, Tok) or not hasattr(cm, "__enter__"):
            raise Undecided("with on %r" % type(cm).__name__)
        val = self.native(cm.__enter__)
        if item.optional_vars is not None:
            self.assign(item.optional_vars, val, env, func)
        try:
            self.with_stmt(st, i + 1, env, func)
        except (PyRaise, _Return, _Break, _Continue):
            self.native(cm.__exit__, None, None, None)
            raise
        self.native(cm.__exit__, None, None, None)

    @staticmethod
    def _load(t):
        t2 = ast.parse(ast.unparse(t), mode="eval").body
        return t2

    def assign(self, t, v, env, func):
        if isinstance(t, ast.Name):
            env[t.id] = v
        elif isinstance(t, (ast.Tuple, ast.List)):
            vs = self.native(list, v)
            if len(vs) != len(t.elts):
                raise PyRaise("ValueError", "unpack")
            for e, x in zip(t.elts, vs):
                self.assign(e, x, env, func)
        elif isinstance(t, ast.Subscript):
            c = self.expr(t.value, env, func)
            k = self.expr(t.slice, env, func)
            if isinstance(c, Tok):
                raise Undecided("store into an opaque value")
            self.native(lambda: c.__setitem__(k, v))
        elif isinstance(t, ast.Attribute):
            o = self.expr(t.value, env, func)
            if isinstance(o, Err):
                setattr(o, t.attr, v)
            elif isinstance(o, Obj):
                o.attrs[t.attr] = v
            elif isinstance(o, ClsRef) and o.vals is not None:
                o.vals[t.attr] = v
            elif isinstance(o, (FuncRef, BoundMethod)) and t.attr in ("__name__", "__doc__", "__qualname__", "__module__"):
                pass        # cosmetic attributes of a function object: nothing the evaluated code can branch on
            elif type(o).__name__ == "Namespace" and type(o).__module__ == "argparse":
                setattr(o, t.attr, v)       # a plain record of parsed options
            else:
                raise Undecided("attribute store on %r" % type(o).__name__)
        else:
            raise Undecided("assignment target")

    # ------------------------------------------------------------------ expressions
    def truth(self, v):
        if isinstance(v, Tok):
            raise Undecided("truthiness of the opaque value %s" % v.name)
        return bool(v)

    def native(self, fn, *args, **kwargs):
        try:
            return fn(*args, **kwargs)
        except (Undecided, PyRaise, _Return, _Break, _Continue):
            raise
        except RecursionError:
            raise Undecided("recursion")
        except Exception as e:      # a Python exception of the evaluated operation
            raise PyRaise(type(e).__name__, str(e)[:80], cls=type(e), obj=e)

    def lookup(self, name, env, func):
        if name in env:
            return env[name]
        c = env.get("__closure__")
        while c is not None:
            if name in c:
                return c[name]
            c = c.get("__closure__")
        mod = func.mod if func is not None else None
        if isinstance(func, Func) and not isinstance(func.node, ast.Lambda) and "__yields__" in env and name not in ("__closure__",):
            # a name the function binds somewhere (so it is a local) but has not bound on this path
            locs = self.__dict__.setdefault("_locals_of", {})
            if id(func) not in locs:
                bound = set()
                from .prog import walk_body as _wb
                comp_targets = set()
                for n in _wb(func):
                    if isinstance(n, ast.comprehension):
                        comp_targets |= {id(x) for x in ast.walk(n.target)}
                for n in _wb(func):         # the function's own statements: not nested defs, classes or lambdas
                    if isinstance(n, ast.Name) and isinstance(n.ctx, (ast.Store, ast.Del)) and id(n) not in comp_targets:
                        bound.add(n.id)
                for n in _wb(func):
                    if isinstance(n, (ast.Global, ast.Nonlocal)):
                        bound -= set(n.names)
                locs[id(func)] = bound
            if name in locs[id(func)] and name not in func.all_params:
                raise PyRaise("UnboundLocalError", "local variable %r referenced before assignment" % name)
        r = self.prog.resolve_name(mod, name, func) if mod is not None else None
        if r is None and name in self.builtins:
            return self.builtins[name]
        if r is None:
            if name in SAFE_BUILTINS:
                return SAFE_BUILTINS[name]
            raise Undecided("name %s" % name)
        return self.resolved(r, name)

    def resolved(self, r, label=""):
        if isinstance(r, Func) and r.qual in self.__dict__.get("func_override", {}):
            return self.func_override[r.qual]       # a package function replaced by the rule's stand-in (a recorder)
        if isinstance(r, Func):
            memo = [d for d in r.decorators if norm(d.func if isinstance(d, ast.Call) else d).split(".")[-1] in ("lru_cache", "cache")]
            if memo:
                # a memoising decorator is part of the function's behaviour (answers may be stale): one wrapper per interpreter
                if id(r) not in self.decorated:
                    import functools
                    self.decorated[id(r)] = functools.lru_cache(maxsize=None)(FuncRef(self, r))
                return self.decorated[id(r)]
            return FuncRef(self, r)
        if isinstance(r, Cls):
            if r.name in ERR_CLASSES and not self.real_errors:
                return lambda message="", **kw: Err("own", message, kw.pop("context", ()), **kw)
            return ClsRef(self, r)
        if isinstance(r, tuple) and r[0] == "ext" and r[1] in self.ext:
            return self.ext[r[1]]
        if isinstance(r, tuple) and r[0] == "ext" and r[1].split(".")[0] in self.ext and "." in r[1]:
            obj = self.ext[r[1].split(".")[0]]
            for part in r[1].split(".")[1:]:
                obj = getattr(obj, part)
            return obj
        if isinstance(r, tuple) and r[0] == "ext" and r[1] in ("pyrsistent.pmap", "pyrsistent.m"):
            return PMap
        if isinstance(r, tuple) and r[0] == "ext" and r[1] == "attr.evolve":
            return self.attr_evolve
        if isinstance(r, tuple) and r[0] == "ext" and r[1] == "attr":
            return _AttrModule(self)
        if isinstance(r, tuple) and r[0] == "ext" and r[1].split(".")[0] == "os":
            obj = _OsStub()
            for part in r[1].split(".")[1:]:
                obj = getattr(obj, part)
            return obj
        if isinstance(r, tuple) and r[0] == "ext":
            top = r[1].split(".")[0]
            if top not in EXT_OK and not r[1].startswith("urllib.parse"):
                raise Undecided("external %s" % r[1])
            parts = r[1].split(".")
            obj = importlib.import_module(parts[0])
            for i, p in enumerate(parts[1:], 1):
                if not hasattr(obj, p):
                    try:
                        importlib.import_module(".".join(parts[:i + 1]))
                    except ImportError:
                        raise Undecided("external %s" % r[1])
                obj = getattr(obj, p)
            return obj
        if isinstance(r, tuple) and r[0] == "expr":
            # a module-level binding is evaluated once (identity matters: `x is _unset`)
            ck = id(r[2])
            if ck not in self.modvals:
                self.modvals[ck] = self.expr(r[2], {}, _ModScope(r[1]))
            return self.modvals[ck]
        if isinstance(r, tuple) and r[0] == "module":
            return _ModRef(self, r[1])
        raise Undecided("cannot resolve %s" % label)

    def expr(self, e, env, func):
        self.tick()
        if isinstance(e, ast.Constant):
            return e.value
        if isinstance(e, ast.Name):
            return self.lookup(e.id, env, func)
        if isinstance(e, ast.Attribute):
            o = self.expr(e.value, env, func)
            if isinstance(o, _ModRef):
                return o.get(e.attr)
            if isinstance(o, Obj):
                return self.obj_getattr(o, e.attr)
            if isinstance(o, _Super):
                return self.obj_getattr(o.obj, e.attr, after=o.after)
            if isinstance(o, ClsRef):
                if o.vals is not None and e.attr in o.vals and (e.attr not in o.cls.methods or e.attr in o.over):
                    return self._unwrap(o.vals[e.attr], o)
                m = self.find_method(o.cls, e.attr)
                if m is not None:
                    decos = [norm(d) for d in m.decorators]
                    if "classmethod" in decos:
                        return BoundMethod(self, m, o, closure=o.closure)
                    return FuncRef(self, m, closure=o.closure)
                for c in self.mro(o.cls):
                    if e.attr in c.attrs:
                        return self.class_attr(c, e.attr, o)
                    if e.attr in c.aliases:
                        kind, target = c.aliases[e.attr]
                        m2 = self.find_method(c, target)
                        if m2 is not None:
                            return BoundMethod(self, m2, o) if kind == "classmethod" else FuncRef(self, m2)
                if e.attr == "__name__":
                    return o.cls.name
                raise PyRaise("AttributeError", "class %s has no attribute %s" % (o.cls.name, e.attr))
            if isinstance(o, Tok):
                # an opaque schema object: none of the keys a keyword function might look for (what it may look for is R10.1's business)
                if e.attr == "get":
                    return lambda k, d=None: d
                raise Undecided("attribute %s of the opaque value %s" % (e.attr, o.name))
            if isinstance(o, (ValidatorStub, Err)) and not hasattr(o, e.attr):
                raise Undecided("attribute %s of the validator/error stub" % e.attr)
            return self.native(getattr, o, e.attr)
        if isinstance(e, ast.Call):
            fn = self.expr(e.func, env, func)
            args = []
            for a in e.args:
                if isinstance(a, ast.Starred):
                    args.extend(self.native(list, self.expr(a.value, env, func)))
                else:
                    args.append(self.expr(a, env, func))
            kwargs = {}
            for k in e.keywords:
                if k.arg is None:
                    kwargs.update(self.expr(k.value, env, func))
                else:
                    kwargs[k.arg] = self.expr(k.value, env, func)
            if isinstance(fn, (FuncRef, BoundMethod, ClsRef)):
                return fn(*args, **kwargs)
            if fn in (bool,) and args and isinstance(args[0], Tok):
                raise Undecided("truthiness of an opaque value")
            if fn is super and len(args) == 2 and isinstance(args[0], ClsRef) and isinstance(args[1], Obj):
                return _Super(args[1], args[0].cls)
            if fn is super:
                if func is None or getattr(func, "cls", None) is None or not func.params or func.params[0] not in env:
                    raise Undecided("super() outside a method")
                return _Super(env[func.params[0]], func.cls)
            if fn is getattr and args and isinstance(args[0], Obj):
                try:
                    return self.obj_getattr(args[0], args[1])
                except PyRaise as pr:
                    if pr.name == "AttributeError" and len(args) > 2:
                        return args[2]
                    raise
            if fn is hasattr and args and isinstance(args[0], Obj):
                try:
                    self.obj_getattr(args[0], args[1])
                    return True
                except PyRaise as pr:
                    if pr.name == "AttributeError":
                        return False
                    raise
            if fn is setattr and args and isinstance(args[0], Obj):
                args[0].attrs[args[1]] = args[2]
                return None
            if fn in (isinstance, type) and args and isinstance(args[0], AbsVal):
                # a row stands for every value of its JSON kind (ints and floats alike): a Python class test would split it
                raise Undecided("class test on an abstract operand")
            if fn is isinstance and len(args) == 2 and (isinstance(args[1], ClsRef) or (isinstance(args[1], tuple) and any(isinstance(x, ClsRef) for x in args[1]))):
                want = args[1] if isinstance(args[1], tuple) else (args[1],)
                for w in want:
                    if isinstance(w, ClsRef):
                        if isinstance(args[0], Obj) and w.cls in self.mro(args[0].cls):
                            return True
                    elif isinstance(w, type) and isinstance(args[0], w):
                        return True
                return False
            return self.native(fn, *args, **kwargs)
        if isinstance(e, ast.BoolOp):
            v = None
            for x in e.values:
                v = self.expr(x, env, func)
                t = self.truth(v)
                if isinstance(e.op, ast.And) and not t:
                    return v
                if isinstance(e.op, ast.Or) and t:
                    return v
            return v
        if isinstance(e, ast.UnaryOp):
            v = self.expr(e.operand, env, func)
            if isinstance(e.op, ast.Not):
                return not self.truth(v)
            if isinstance(e.op, ast.USub):
                return self.native(lambda: -v)
            if isinstance(e.op, ast.UAdd):
                return self.native(lambda: +v)
            raise Undecided("unary operator")
        if isinstance(e, ast.BinOp):
            return self.binop(e.op, self.expr(e.left, env, func), self.expr(e.right, env, func))
        if isinstance(e, ast.Compare):
            left = self.expr(e.left, env, func)
            for op, c in zip(e.ops, e.comparators):
                right = self.expr(c, env, func)
                if not self.compare(op, left, right):
                    return False
                left = right
            return True
        if isinstance(e, ast.IfExp):
            return self.expr(e.body if self.truth(self.expr(e.test, env, func)) else e.orelse, env, func)
        if isinstance(e, ast.Subscript):
            c = self.expr(e.value, env, func)
            if isinstance(c, Tok):
                if isinstance(e.slice, ast.Slice):
                    raise Undecided("slice of the opaque value %s" % c.name)
                self.expr(e.slice, env, func)
                raise PyRaise("KeyError", "opaque object %s has no such member" % c.name)
            if isinstance(e.slice, ast.Slice):
                lo = self.expr(e.slice.lower, env, func) if e.slice.lower is not None else None
                hi = self.expr(e.slice.upper, env, func) if e.slice.upper is not None else None
                stp = self.expr(e.slice.step, env, func) if e.slice.step is not None else None
                return self.native(lambda: c[lo:hi:stp])
            k = self.expr(e.slice, env, func)
            return self.native(lambda: c[k])
        if isinstance(e, (ast.List, ast.Tuple, ast.Set)):
            out = []
            for x in e.elts:
                if isinstance(x, ast.Starred):
                    out.extend(self.native(list, self.expr(x.value, env, func)))
                else:
                    out.append(self.expr(x, env, func))
            return out if isinstance(e, ast.List) else (tuple(out) if isinstance(e, ast.Tuple) else self.native(set, out))
        if isinstance(e, ast.Dict):
            d = {}
            for k, v in zip(e.keys, e.values):
                if k is None:
                    d.update(self.expr(v, env, func))
                else:
                    d[self.expr(k, env, func)] = self.expr(v, env, func)
            return d
        if isinstance(e, ast.GeneratorExp) and self.lazy:
            # a generator expression evaluates its first iterable at once and everything else on demand (`any(...)` stops early)
            en = dict(env)
            first = self.native(iter, self.expr(e.generators[0].iter, en, func))
            return self.lazy_comp(e.generators, 0, en, func, e.elt, first)
        if isinstance(e, (ast.ListComp, ast.SetComp, ast.GeneratorExp)):
            out = []
            self.comp(e.generators, 0, dict(env), func, lambda en: out.append(self.expr(e.elt, en, func)))
            if isinstance(e, ast.ListComp):
                return out
            if isinstance(e, ast.SetComp):
                return self.native(set, out)
            return iter(out)
        if isinstance(e, ast.DictComp):
            d = {}
            def put(en):
                d[self.expr(e.key, en, func)] = self.expr(e.value, en, func)
            self.comp(e.generators, 0, dict(env), func, put)
            return d
        if isinstance(e, ast.JoinedStr):
            parts = []
            for v in e.values:
                if isinstance(v, ast.Constant):
                    parts.append(str(v.value))
                else:
                    x = self.expr(v.value, env, func)
                    if v.conversion == 114:
                        x = repr(x)
                    elif v.conversion == 115:
                        x = str(x)
                    spec = self.expr(v.format_spec, env, func) if v.format_spec is not None else ""
                    parts.append(self.native(format, x, spec))
            return "".join(parts)
        if isinstance(e, ast.Yield):
            v = self.expr(e.value, env, func) if e.value is not None else None
            if env.get("__on_yield__") is not None:
                env["__on_yield__"](v)      # contextmanager: the with-body runs here, inside the generator's try/finally
                return None
            if env.get("__gen__") is not None:
                env["__gen__"].suspend(v)
                return None
            env["__yields__"].append(v)
            return None
        if isinstance(e, ast.YieldFrom):
            for v in self.native(iter, self.expr(e.value, env, func)):
                if env.get("__gen__") is not None:
                    env["__gen__"].suspend(v)
                else:
                    env["__yields__"].append(v)
            return None
        if isinstance(e, ast.Lambda):
            cache = self.__dict__.setdefault("_defs_by_node", {})
            if id(e) not in cache:
                owner = func if isinstance(func, Func) else None
                mod = func.mod if func is not None else None
                if mod is None:
                    raise Undecided("lambda outside a function")
                cache[id(e)] = Func(mod, "%s.<lambda@%d>" % (owner.qual if owner else mod.name, e.lineno), e, cls=None, outer=owner)
            return FuncRef(self, cache[id(e)], closure=self.closure_with_defaults(e.args, env, func))
        if isinstance(e, ast.NamedExpr):
            v = self.expr(e.value, env, func)
            env[e.target.id] = v
            return v
        raise Undecided("expression %s" % type(e).__name__)

    def lazy_comp(self, gens, i, env, func, elt, first=None):
        if i == len(gens):
            yield self.expr(elt, env, func)
            return
        g = gens[i]
        it = first if first is not None else self.native(iter, self.expr(g.iter, env, func))
        for x in it:
            self.tick()
            self.assign(g.target, x, env, func)
            if all(self.truth(self.expr(c, env, func)) for c in g.ifs):
                yield from self.lazy_comp(gens, i + 1, env, func, elt)

    def comp(self, gens, i, env, func, emit):
        if i == len(gens):
            emit(env)
            return
        g = gens[i]
        for x in self.native(iter, self.expr(g.iter, env, func)):
            self.tick()
            self.assign(g.target, x, env, func)
            if all(self.truth(self.expr(c, env, func)) for c in g.ifs):
                self.comp(gens, i + 1, env, func, emit)

    def binop(self, op, a, b):
        import operator
        table = {ast.Add: operator.add, ast.Sub: operator.sub, ast.Mult: operator.mul, ast.Div: operator.truediv, ast.Mod: operator.mod,
                 ast.FloorDiv: operator.floordiv, ast.Pow: operator.pow, ast.BitOr: operator.or_, ast.BitAnd: operator.and_}
        f = table.get(type(op))
        if f is None:
            raise Undecided("binary operator")
        if isinstance(a, Tok) and not isinstance(op, ast.Mod):
            raise Undecided("arithmetic on an opaque value")
        return self.native(f, a, b)

    def compare(self, op, a, b):
        if isinstance(op, ast.In):
            if isinstance(b, Tok):
                return False
            return self.native(lambda: a in b)
        if isinstance(op, ast.NotIn):
            if isinstance(b, Tok):
                return True
            return self.native(lambda: a not in b)
        if isinstance(op, ast.Is):
            return a is b
        if isinstance(op, ast.IsNot):
            return a is not b
        if isinstance(a, Tok) or isinstance(b, Tok):
            if isinstance(op, ast.Eq):
                return a == b
            if isinstance(op, ast.NotEq):
                return a != b
            raise Undecided("ordering of an opaque value")
        import operator
        table = {ast.Eq: operator.eq, ast.NotEq: operator.ne, ast.Lt: operator.lt, ast.LtE: operator.le, ast.Gt: operator.gt, ast.GtE: operator.ge}
        return self.native(table[type(op)], a, b)


class PMap(dict):
    """Stand-in for pyrsistent.pmap: a mapping whose update/set/remove/discard return a new map and leave the receiver alone."""
    def __init__(self, initial=()):
        dict.__init__(self, initial)

    def update(self, *others, **kw):
        new = PMap(self)
        for o in others:
            dict.update(new, o)
        dict.update(new, kw)
        return new

    def set(self, k, v):
        new = PMap(self)
        dict.__setitem__(new, k, v)
        return new

    def remove(self, k):
        if k not in self:
            raise KeyError(k)
        new = PMap(self)
        dict.__delitem__(new, k)
        return new

    def discard(self, k):
        return self.remove(k) if k in self else self

    def __setitem__(self, k, v):
        raise TypeError("a persistent map does not support item assignment")

    def __delitem__(self, k):
        raise TypeError("a persistent map does not support item deletion")

    def __hash__(self):
        return id(self)

    def copy(self):
        return self

    def evolver(self):
        return _PMapEvolver(self)

    def __getattr__(self, name):
        # a method of pyrsistent's map this stand-in does not model: no claim either way
        if name.startswith("__"):
            raise AttributeError(name)
        raise Undecided("pmap.%s is outside the evaluated fragment" % name)


class _PMapEvolver:
    """pyrsistent's evolver: a mutable view that leaves the map it was taken from alone; persistent() freezes the result."""
    def __init__(self, base):
        self._cur = dict(base)
        self._base = base
        self._dirty = False

    def set(self, k, v):
        self._cur[k] = v
        self._dirty = True
        return self

    __setitem__ = lambda self, k, v: (self.set(k, v), None)[1]

    def remove(self, k):
        if k not in self._cur:
            raise KeyError(k)
        del self._cur[k]
        self._dirty = True
        return self

    __delitem__ = lambda self, k: (self.remove(k), None)[1]

    def __getitem__(self, k):
        return self._cur[k]

    def __contains__(self, k):
        return k in self._cur

    def __len__(self):
        return len(self._cur)

    def is_dirty(self):
        return self._dirty

    def persistent(self):
        if not self._dirty:
            return self._base
        self._base, self._dirty = PMap(self._cur), False
        return self._base

    def __getattr__(self, name):
        if name.startswith("__"):
            raise AttributeError(name)
        raise Undecided("pmap evolver .%s is outside the evaluated fragment" % name)


class PkgData:
    """pkgutil.get_data for the package's own data files, read from the tree under analysis"""
    def __init__(self, prog):
        self.root = prog.root

    def get_data(self, package, resource):
        import os
        with open(os.path.join(self.root, resource), "rb") as fh:
            return fh.read()


class _AttrModule:
    def __init__(self, ev):
        self._ev = ev

    def __getattr__(self, name):
        if name == "evolve":
            return self._ev.attr_evolve
        raise Undecided("attr.%s" % name)


class _External:
    """A library outside the evaluated fragment (network, optional dependency): it may be named, never used."""
    def __init__(self, name):
        self._name = name

    def __bool__(self):
        raise Undecided("use of the external library %s" % self._name)

    def __getattr__(self, attr):
        raise Undecided("use of the external library %s" % self._name)


class _ModScope:
    """Stands in for a function when a module-level expression is evaluated."""
    def __init__(self, mod):
        self.mod = mod
        self.nested = {}
        self.outer = None


class _ModRef:
    def __init__(self, ev, modname):
        self.ev = ev
        self.modname = modname

    def get(self, attr):
        r = self.ev.prog.resolve_name(self.ev.prog.mods[self.modname], attr)
        if r is None:
            raise Undecided("name %s.%s" % (self.modname, attr))
        return self.ev.resolved(r, attr)
