"""E1/E2: load the package from source (never imported), resolve names, extract tables.

Everything here is computed from `ast` trees of /repo/jsonschema/*.py and the JSON
data of the bundled metaschemas.  Anything the loader cannot evaluate raises
AnalysisError (exit 2), never a silent pass.
"""
import ast
import json
import os
import hashlib

REPO = os.environ.get("VERIF_REPO", "/repo")
PKG = "jsonschema"

MODULES = [
    "__init__", "__main__", "_format", "_legacy_validators", "_types", "_utils",
    "_validators", "cli", "exceptions", "validators", "_reflect",
]
DRAFTS = ["draft3", "draft4", "draft6", "draft7"]


class AnalysisError(Exception):
    """The analysis itself cannot proceed (anchor vanished, unknown idiom)."""


def norm(node):
    """Normalised source text of an AST node (position independent)."""
    if node is None:
        return "None"
    if isinstance(node, str):
        return node
    try:
        return ast.unparse(node)
    except Exception:  # pragma: no cover
        return ast.dump(node)


class Func:
    """A function or lambda definition somewhere in the package."""

    def __init__(self, mod, qual, node, cls=None, outer=None):
        self.mod = mod              # Mod
        self.qual = qual            # e.g. "_validators.ref", "validators.create.Validator.iter_errors"
        self.node = node            # ast.FunctionDef | ast.Lambda
        self.cls = cls              # Cls or None
        self.outer = outer          # enclosing Func or None
        self.nested = {}            # name -> Func / Cls defined directly inside

    @property
    def name(self):
        return self.qual.rsplit(".", 1)[-1].split("#")[0]

    @property
    def params(self):
        a = self.node.args
        return [x.arg for x in a.posonlyargs + a.args]

    @property
    def all_params(self):
        a = self.node.args
        out = [x.arg for x in a.posonlyargs + a.args]
        if a.vararg:
            out.append(a.vararg.arg)
        out += [x.arg for x in a.kwonlyargs]
        if a.kwarg:
            out.append(a.kwarg.arg)
        return out

    @property
    def body(self):
        if isinstance(self.node, ast.Lambda):
            return [ast.Return(value=self.node.body, lineno=self.node.lineno, col_offset=0)]
        return self.node.body

    @property
    def decorators(self):
        return getattr(self.node, "decorator_list", [])

    @property
    def is_generator(self):
        g = self.__dict__.get("_is_generator")
        if g is None:
            g = any(isinstance(n, (ast.Yield, ast.YieldFrom)) for n in walk_body(self))
            self.__dict__["_is_generator"] = g
        return g

    @property
    def where(self):
        return "%s/%s.py:%d %s" % (PKG, self.mod.name, self.node.lineno, self.qual)

    def __repr__(self):
        return "<Func %s>" % self.qual


class Cls:
    def __init__(self, mod, qual, node, outer=None):
        self.mod = mod
        self.qual = qual
        self.node = node
        self.outer = outer
        self.methods = {}   # name -> Func
        self.attrs = {}     # name -> value expr (class-level assignments)
        self.aliases = {}   # name -> (kind, target) e.g. cls_checks = classmethod(checks)

    @property
    def name(self):
        return self.qual.rsplit(".", 1)[-1]

    def __repr__(self):
        return "<Cls %s>" % self.qual


def walk_local(node):
    """ast.walk that does not enter nested function/class/lambda bodies
    (comprehensions are entered: they execute in place)."""
    todo = list(ast.iter_child_nodes(node))
    while todo:
        n = todo.pop()
        yield n
        if isinstance(n, (ast.FunctionDef, ast.AsyncFunctionDef, ast.Lambda, ast.ClassDef)):
            # decorators/defaults evaluate in the enclosing scope
            if not isinstance(n, ast.Lambda):
                todo.extend(n.decorator_list)
            if not isinstance(n, ast.ClassDef):
                todo.extend(n.args.defaults)
                todo.extend(x for x in n.args.kw_defaults if x is not None)
            continue
        todo.extend(ast.iter_child_nodes(n))


def walk_body(func):
    """Every node lexically executed inside func's body (not its decorators/defaults, not nested defs)."""
    for st in func.body:
        yield st
        if isinstance(st, (ast.FunctionDef, ast.AsyncFunctionDef, ast.ClassDef)):
            # only what evaluates in the enclosing scope
            for d in st.decorator_list:
                yield d
                for n in walk_local(d):
                    yield n
            continue
        for n in walk_local(st):
            yield n


def _property_names(tree):
    out = set()
    for n in ast.walk(tree):
        if isinstance(n, ast.FunctionDef) and any((isinstance(d, ast.Name) and d.id == "property") or
                                                   (isinstance(d, ast.Attribute) and d.attr in ("setter", "getter")) for d in n.decorator_list):
            out.add(n.name)
        if isinstance(n, ast.Assign) and isinstance(n.value, ast.Call) and isinstance(n.value.func, ast.Name) and n.value.func.id == "property":
            out |= {t.id for t in n.targets if isinstance(t, ast.Name)}
    return out


def lower_attrs_these(tree):
    """`@attr.s(these={"_cause": attr.ib()})` declares the fields in the decorator instead of the class body; for the analysis the
    two spellings are one: the entries become assignments at the top of the class body (attrs ignores attr.ib() members of the
    body when `these` is given, so those are dropped)."""
    n_done = 0
    for c in ast.walk(tree):
        if not isinstance(c, ast.ClassDef):
            continue
        for d in c.decorator_list:
            if not (isinstance(d, ast.Call) and norm(d.func) in ("attr.s", "attr.attrs", "attr.define", "attr.frozen", "attr.mutable")):
                continue
            these = [k for k in d.keywords if k.arg == "these"]
            if not these or not isinstance(these[0].value, ast.Dict):
                continue
            items = list(zip(these[0].value.keys, these[0].value.values))
            if not all(isinstance(k, ast.Constant) and isinstance(k.value, str) for k, _v in items):
                continue
            d.keywords = [k for k in d.keywords if k.arg != "these"]
            body = [st for st in c.body if not (isinstance(st, ast.Assign) and isinstance(st.value, ast.Call)
                                                and norm(st.value.func) in ("attr.ib", "attr.attrib", "attr.field"))]
            new = []
            for k, v in items:
                a = ast.Assign(targets=[ast.Name(id=k.value, ctx=ast.Store())], value=v)
                ast.copy_location(a, v)
                ast.copy_location(a.targets[0], v)
                ast.fix_missing_locations(a)
                new.append(a)
            doc = body[:1] if body and isinstance(body[0], ast.Expr) and isinstance(body[0].value, ast.Constant) and isinstance(body[0].value.value, str) else []
            c.body = doc + new + body[len(doc):]
            n_done += 1
    return n_done


def split_bound_method_aliases(tree):
    """`_is_full_date = re.compile(r"...").fullmatch` at module level, used only as `_is_full_date(x)`: for the analysis this is
    `_is_full_date__obj = re.compile(r"...")` and `_is_full_date__obj.fullmatch(x)` -- the object is made once, at import, either way."""
    n_done = 0
    for st in list(tree.body):
        if not (isinstance(st, ast.Assign) and len(st.targets) == 1 and isinstance(st.targets[0], ast.Name)
                and isinstance(st.value, ast.Attribute) and isinstance(st.value.value, ast.Call)):
            continue
        x, meth = st.targets[0].id, st.value.attr
        names = [n for n in ast.walk(tree) if isinstance(n, ast.Name) and n.id == x]
        if sum(1 for n in names if isinstance(n.ctx, (ast.Store, ast.Del))) != 1:
            continue
        if any(isinstance(n, (ast.Global, ast.Nonlocal)) and x in n.names for n in ast.walk(tree)):
            continue
        if any(isinstance(a, ast.arg) and a.arg == x for a in ast.walk(tree)):
            continue
        callee_ids = {id(n.func) for n in ast.walk(tree) if isinstance(n, ast.Call)}
        loads = [n for n in names if isinstance(n.ctx, ast.Load)]
        if not loads or not all(id(n) in callee_ids for n in loads):
            continue
        obj = x + "__obj"
        st.targets[0].id = obj
        st.value = st.value.value
        for n in ast.walk(tree):
            if isinstance(n, ast.Call) and isinstance(n.func, ast.Name) and n.func.id == x:
                new = ast.Attribute(value=ast.Name(id=obj, ctx=ast.Load()), attr=meth, ctx=ast.Load())
                ast.copy_location(new, n.func)
                ast.copy_location(new.value, n.func)
                n.func = new
        n_done += 1
    if n_done:
        ast.fix_missing_locations(tree)
    return n_done


def inline_string_constants(tree):
    """`_ARRAY = "array"` ... `validator.is_type(instance, _ARRAY)`; `_ITEMS = "items"` ... `schema.get(_ITEMS, {})`: a module-level name
    bound exactly once, to a string literal, never declared global, is that literal wherever the module reads it (functions that
    bind the same name themselves are left alone).  Keys, type names and keyword names are what the rules read off the source."""
    total = 0
    for _round in range(4):
        folded = _fold_string_constants(tree)
        done = _inline_string_constants_once(tree)
        total += done
        if not done and not folded:
            break
    return total


def _fold_string_constants(tree):
    """"-".join([<lit>, <lit>]) / <lit> + <lit> / f"{<lit>}-..." / "<fmt>" % (<lit>, ...) with only string literals inside are string
    literals (module-level statements and function bodies alike)."""
    n_done = 0

    class Fold(ast.NodeTransformer):
        def visit_BinOp(self, n):
            nonlocal n_done
            self.generic_visit(n)
            if isinstance(n.op, ast.Add) and all(isinstance(x, ast.Constant) and isinstance(x.value, str) for x in (n.left, n.right)):
                n_done += 1
                return ast.copy_location(ast.Constant(n.left.value + n.right.value), n)
            if isinstance(n.op, ast.Mod) and isinstance(n.left, ast.Constant) and isinstance(n.left.value, str):
                args = n.right.elts if isinstance(n.right, ast.Tuple) else [n.right]
                if args and all(isinstance(x, ast.Constant) and isinstance(x.value, str) for x in args):
                    try:
                        val = n.left.value % tuple(x.value for x in args)
                    except Exception:
                        return n
                    n_done += 1
                    return ast.copy_location(ast.Constant(val), n)
            return n

        def visit_JoinedStr(self, n):
            nonlocal n_done
            self.generic_visit(n)
            parts = []
            for v in n.values:
                if isinstance(v, ast.Constant) and isinstance(v.value, str):
                    parts.append(v.value)
                elif isinstance(v, ast.FormattedValue) and v.conversion == -1 and v.format_spec is None and isinstance(v.value, ast.Constant) \
                        and isinstance(v.value.value, str):
                    parts.append(v.value.value)
                else:
                    return n
            n_done += 1
            return ast.copy_location(ast.Constant("".join(parts)), n)

        def visit_Call(self, n):
            nonlocal n_done
            self.generic_visit(n)
            if isinstance(n.func, ast.Attribute) and n.func.attr == "join" and isinstance(n.func.value, ast.Constant) and isinstance(n.func.value.value, str) \
                    and len(n.args) == 1 and not n.keywords and isinstance(n.args[0], (ast.List, ast.Tuple)) \
                    and all(isinstance(x, ast.Constant) and isinstance(x.value, str) for x in n.args[0].elts):
                n_done += 1
                return ast.copy_location(ast.Constant(n.func.value.value.join(x.value for x in n.args[0].elts)), n)
            return n
    Fold().visit(tree)
    if n_done:
        ast.fix_missing_locations(tree)
    return n_done


def _inline_string_constants_once(tree):
    consts = {}
    counts = {}
    for st in tree.body:
        for n in ast.walk(st) if not isinstance(st, (ast.FunctionDef, ast.AsyncFunctionDef, ast.ClassDef)) else []:
            if isinstance(n, ast.Name) and isinstance(n.ctx, (ast.Store, ast.Del)):
                counts[n.id] = counts.get(n.id, 0) + 1
        if isinstance(st, ast.Assign) and len(st.targets) == 1 and isinstance(st.targets[0], ast.Name) and isinstance(st.value, ast.Constant) \
                and isinstance(st.value.value, str):
            consts[st.targets[0].id] = st.value
    consts = {k: v for k, v in consts.items() if counts.get(k) == 1 and k.startswith("_") and k[1:2].isupper() or (k in consts and k.isupper() and counts.get(k) == 1)}
    if not consts:
        return 0
    for n in ast.walk(tree):
        if isinstance(n, ast.Global):
            for nm in n.names:
                consts.pop(nm, None)
    if not consts:
        return 0
    n_done = 0

    def shadowed_in(fn):
        out = set()
        a = fn.args
        for x in a.args + a.kwonlyargs + getattr(a, "posonlyargs", []):
            out.add(x.arg)
        if a.vararg:
            out.add(a.vararg.arg)
        if a.kwarg:
            out.add(a.kwarg.arg)
        for n in ast.walk(fn):
            if isinstance(n, ast.Name) and isinstance(n.ctx, (ast.Store, ast.Del)):
                out.add(n.id)
        return out

    class Sub(ast.NodeTransformer):
        def __init__(self):
            self.shadow = [set()]

        def visit_FunctionDef(self, fn):
            self.shadow.append(self.shadow[-1] | shadowed_in(fn))
            self.generic_visit(fn)
            self.shadow.pop()
            return fn
        visit_AsyncFunctionDef = visit_FunctionDef

        def visit_Lambda(self, fn):
            self.shadow.append(self.shadow[-1] | shadowed_in(fn))
            self.generic_visit(fn)
            self.shadow.pop()
            return fn

        def visit_Name(self, n):
            nonlocal n_done
            if isinstance(n.ctx, ast.Load) and n.id in consts and n.id not in self.shadow[-1]:
                n_done += 1
                return ast.copy_location(ast.Constant(consts[n.id].value), n)
            return n
    Sub().visit(tree)
    if n_done:
        ast.fix_missing_locations(tree)
    return n_done


def lower_walrus_and_unpacking(tree):
    """Two spellings the rules need not know: `if (x := e) <rest of test>:` with the assignment in the position evaluated first is
    `x = e` followed by `if x <rest of test>:`; `a, b = e1, e2` with as many targets as values, none of the targets read on the
    right, is `a = e1; b = e2`.  Both exact."""
    n_done = 0

    def first_evaluated(test):
        """the NamedExpr that is evaluated first, unconditionally, in `test` (or None) and a function putting a replacement there"""
        if isinstance(test, ast.NamedExpr) and isinstance(test.target, ast.Name):
            return test, None
        if isinstance(test, ast.Compare):
            return (test.left, ("left", test)) if isinstance(test.left, ast.NamedExpr) and isinstance(test.left.target, ast.Name) else (None, None)
        if isinstance(test, ast.UnaryOp) and isinstance(test.op, ast.Not):
            if isinstance(test.operand, ast.NamedExpr) and isinstance(test.operand.target, ast.Name):
                return test.operand, ("operand", test)
            inner, where = first_evaluated(test.operand)
            return inner, where
        if isinstance(test, ast.BoolOp):
            v0 = test.values[0]
            if isinstance(v0, ast.NamedExpr) and isinstance(v0.target, ast.Name):
                return v0, ("value0", test)
            return first_evaluated(v0)
        return None, None

    def rewrite_body(body):
        nonlocal n_done
        out = []
        for st in body:
            for field in ("body", "orelse", "finalbody"):
                sub = getattr(st, field, None)
                if isinstance(sub, list) and sub and isinstance(sub[0], ast.stmt):
                    setattr(st, field, rewrite_body(sub))
            for h in getattr(st, "handlers", []) or []:
                h.body = rewrite_body(h.body)
            if isinstance(st, ast.If):
                ne, where = first_evaluated(st.test)
                if ne is not None:
                    assign = ast.Assign(targets=[ast.Name(id=ne.target.id, ctx=ast.Store())], value=ne.value)
                    ast.copy_location(assign, st)
                    ast.copy_location(assign.targets[0], st)
                    repl = ast.copy_location(ast.Name(id=ne.target.id, ctx=ast.Load()), ne)
                    if where is None:
                        st.test = repl
                    elif where[0] == "left":
                        where[1].left = repl
                    elif where[0] == "operand":
                        where[1].operand = repl
                    else:
                        where[1].values[0] = repl
                    out.append(assign)
                    out.append(st)
                    n_done += 1
                    continue
            if isinstance(st, ast.Assign) and len(st.targets) == 1 and isinstance(st.targets[0], ast.Tuple) and isinstance(st.value, ast.Tuple) \
                    and len(st.targets[0].elts) == len(st.value.elts) and all(isinstance(t, ast.Name) for t in st.targets[0].elts) \
                    and not any(isinstance(v, ast.Starred) for v in st.value.elts):
                tnames = {t.id for t in st.targets[0].elts}
                reads = {n.id for v in st.value.elts for n in ast.walk(v) if isinstance(n, ast.Name)}
                if not (tnames & reads) and len(tnames) == len(st.targets[0].elts):
                    for t, v in zip(st.targets[0].elts, st.value.elts):
                        a = ast.Assign(targets=[t], value=v)
                        ast.copy_location(a, st)
                        out.append(a)
                    n_done += 1
                    continue
            out.append(st)
        return out
    for node in ast.walk(tree):
        if isinstance(node, (ast.FunctionDef, ast.AsyncFunctionDef)):
            node.body = rewrite_body(node.body)
    if n_done:
        ast.fix_missing_locations(tree)
    return n_done


def lower_match(tree):
    """Normalisation before any analysis: a `match` statement whose patterns are literals, singletons, class patterns without
    sub-patterns (`case list():`), captures, wildcards and alternatives of these is rewritten into the if/elif chain it abbreviates
    (`x == 1`, `x is True`, `isinstance(x, list)`), the subject evaluated once.  Sequence / mapping patterns and class patterns
    with sub-patterns are left alone (the CFG builder then reports the statement as not modelled)."""
    counter = [0]

    def test_of(p, subj, binds):
        if isinstance(p, ast.MatchValue):
            return ast.Compare(left=subj(), ops=[ast.Eq()], comparators=[p.value])
        if isinstance(p, ast.MatchSingleton):
            return ast.Compare(left=subj(), ops=[ast.Is()], comparators=[ast.Constant(value=p.value)])
        if isinstance(p, ast.MatchClass) and not p.patterns and not p.kwd_patterns:
            return ast.Call(func=ast.Name(id="isinstance", ctx=ast.Load()), args=[subj(), p.cls], keywords=[])
        if isinstance(p, ast.MatchAs):
            if p.pattern is None:
                if p.name is not None:
                    binds.append(p.name)
                return ast.Constant(value=True)
            t = test_of(p.pattern, subj, binds)
            if t is not None and p.name is not None:
                binds.append(p.name)
            return t
        if isinstance(p, ast.MatchOr):
            inner = []
            sub = [test_of(q, subj, inner) for q in p.patterns]
            if any(t is None for t in sub) or inner:
                return None
            return ast.BoolOp(op=ast.Or(), values=sub)
        return None

    class Lower(ast.NodeTransformer):
        def visit_Match(self, node):
            self.generic_visit(node)
            if isinstance(node.subject, ast.Name):
                name, pre = node.subject.id, []
            else:
                counter[0] += 1
                name = "__match_subject_%d" % counter[0]
                pre = [ast.Assign(targets=[ast.Name(id=name, ctx=ast.Store())], value=node.subject)]
            subj = lambda: ast.Name(id=name, ctx=ast.Load())
            chain = None
            for case in reversed(node.cases):
                binds = []
                t = test_of(case.pattern, subj, binds)
                if t is None:
                    return node
                body = [ast.Assign(targets=[ast.Name(id=b, ctx=ast.Store())], value=subj()) for b in binds] + list(case.body)
                if case.guard is not None:
                    if binds:
                        return node         # a guard that reads a capture: keep the statement as it is
                    t = ast.BoolOp(op=ast.And(), values=[t, case.guard])
                if isinstance(t, ast.Constant) and t.value is True and chain is None:
                    chain = body            # trailing wildcard: the else branch
                    continue
                new_if = ast.If(test=t, body=body, orelse=(chain if isinstance(chain, list) else ([chain] if chain is not None else [])))
                chain = new_if
            out = pre + (chain if isinstance(chain, list) else ([chain] if chain is not None else []))
            for n in out:
                ast.copy_location(n, node)
                for sub_ in ast.walk(n):
                    if not hasattr(sub_, "lineno"):
                        ast.copy_location(sub_, node)
            return out
    if any(isinstance(n, ast.Match) for n in ast.walk(tree)):
        Lower().visit(tree)
        ast.fix_missing_locations(tree)
        return True
    return False


def inline_object_aliases(tree):
    """Normalisation before any analysis: a local bound exactly once to a plain attribute path (`join = self._urljoin_cache`,
    `scopes = self._scopes_stack`, `enter = scopes.append`) and used only as an *object* -- called, or the receiver of an attribute
    access / subscript -- is replaced at its uses by that path.  The path is read again at each use instead of once, which is the
    same object as long as nobody re-binds an attribute on it in between: attributes that are properties anywhere in the module,
    and functions that assign to any attribute of the same name, are left alone.  Line numbers of the uses are kept."""
    props = _property_names(tree)
    changed = 0
    for fn in [n for n in ast.walk(tree) if isinstance(n, (ast.FunctionDef, ast.AsyncFunctionDef))]:
        for _round in range(3):
            body_nodes = []
            for st in fn.body:
                body_nodes += list(ast.walk(st))
            nested = [n for n in body_nodes if isinstance(n, (ast.FunctionDef, ast.AsyncFunctionDef, ast.Lambda, ast.ClassDef))]
            nested_names = {x.id for n in nested for x in ast.walk(n) if isinstance(x, ast.Name)}
            params = {a.arg for a in fn.args.args + fn.args.kwonlyargs + getattr(fn.args, "posonlyargs", [])} | \
                ({fn.args.vararg.arg} if fn.args.vararg else set()) | ({fn.args.kwarg.arg} if fn.args.kwarg else set())
            stores = {}
            for n in body_nodes:
                if isinstance(n, ast.Name) and isinstance(n.ctx, (ast.Store, ast.Del)):
                    stores[n.id] = stores.get(n.id, 0) + 1
            attr_stores = {n.attr for n in body_nodes if isinstance(n, ast.Attribute) and isinstance(n.ctx, (ast.Store, ast.Del))}
            cands = {}
            for st in fn.body:          # top-level statements of the function only: the binding dominates everything after it
                if isinstance(st, ast.Assign) and len(st.targets) == 1 and isinstance(st.targets[0], ast.Name):
                    x, v = st.targets[0].id, st.value
                    chain, cur = [], v
                    while isinstance(cur, ast.Attribute):
                        chain.append(cur.attr)
                        cur = cur.value
                    if not (isinstance(cur, ast.Name) and chain):
                        continue
                    if stores.get(x) != 1 or x in params or x in nested_names or any(isinstance(n, (ast.Global, ast.Nonlocal)) and x in n.names for n in body_nodes):
                        continue
                    if any(a in props or a in attr_stores for a in chain) or stores.get(cur.id, 0) > (0 if cur.id in params else 1):
                        continue
                    cands[x] = (st, v)
            if not cands:
                break
            parent = {}
            for st in fn.body:
                for a in ast.walk(st):
                    for c in ast.iter_child_nodes(a):
                        parent[id(c)] = a
            done = False
            for x, (st, v) in cands.items():
                uses = [n for n in body_nodes if isinstance(n, ast.Name) and n.id == x and isinstance(n.ctx, ast.Load)]
                if not uses:
                    continue
                ok = True
                for u in uses:
                    p = parent.get(id(u))
                    if isinstance(p, ast.Call) and p.func is u:
                        continue
                    if isinstance(p, ast.Attribute) and p.value is u and isinstance(p.ctx, ast.Load):
                        continue
                    if isinstance(p, ast.Subscript) and p.value is u:
                        continue
                    ok = False
                    break
                # the binding must come before every use (same top-level sequence)
                if not ok or any((u.lineno, u.col_offset) < (st.lineno, st.col_offset) for u in uses):
                    continue

                class Sub(ast.NodeTransformer):
                    def visit_Name(self, n):
                        if n.id == x and isinstance(n.ctx, ast.Load):
                            new = copy.deepcopy(v)
                            for sub in ast.walk(new):
                                ast.copy_location(sub, n)
                            return new
                        return n
                import copy
                for i, s2 in enumerate(fn.body):
                    if s2 is st:
                        continue
                    fn.body[i] = Sub().visit(s2)
                fn.body.remove(st)
                changed += 1
                done = True
                break           # re-scan: the replaced path may itself start with another alias
            if not done:
                break
    if changed:
        ast.fix_missing_locations(tree)
    return changed


class Mod:
    def __init__(self, name, path, src):
        self.name = name
        self.path = path
        self.src = src
        self.tree = ast.parse(src, filename=path)
        self.match_lowered = lower_match(self.tree)
        self.attrs_these_lowered = lower_attrs_these(self.tree)
        self.method_aliases_split = split_bound_method_aliases(self.tree)
        self.string_constants_inlined = inline_string_constants(self.tree)
        self.walrus_lowered = lower_walrus_and_unpacking(self.tree)
        self.aliases_inlined = inline_object_aliases(self.tree)
        self.top = {}       # name -> Func | Cls | ast.expr (last module-level binding)
        self.bindings = {}  # name -> list of (value expr | Func | Cls, stmt) all module-level bindings incl. in if/try
        self.imports = {}   # local name -> ("mod", dotted) | ("from", dotted, attr)
        self.funcs = []
        self.classes = []


class Prog:
    def __init__(self, root=None):
        self.root = root or os.path.join(REPO, PKG)
        self.mods = {}
        self.funcs = {}     # qual -> Func
        self.classes = {}   # qual -> Cls
        self.digest = hashlib.sha256()
        for name in MODULES:
            path = os.path.join(self.root, name + ".py")
            if not os.path.exists(path):
                if name in ("__main__", "_reflect"):
                    continue
                raise AnalysisError("module vanished: %s" % path)
            with open(path, encoding="utf-8") as f:
                src = f.read()
            self.digest.update(src.encode())
            try:
                m = Mod(name, path, src)
            except SyntaxError as e:
                raise AnalysisError("cannot parse %s: %s" % (path, e))
            self.mods[name] = m
            self._index(m)
        self.schemas = {}
        for d in DRAFTS:
            p = os.path.join(self.root, "schemas", d + ".json")
            if not os.path.exists(p):
                raise AnalysisError("metaschema vanished: %s" % p)
            with open(p, encoding="utf-8") as f:
                txt = f.read()
            self.digest.update(txt.encode())
            try:
                self.schemas[d] = json.loads(txt)
            except ValueError as e:
                raise AnalysisError("metaschema %s is not JSON: %s" % (p, e))
        self._tables = None

    # ------------------------------------------------------------------ index
    def _index(self, m):
        def visit_body(body, scope_qual, outer_func, outer_cls, sink):
            for st in body:
                self._index_stmt(m, st, scope_qual, outer_func, outer_cls, sink, visit_body)
        visit_body(m.tree.body, m.name, None, None, ("mod", m))

    def _index_stmt(self, m, st, scope_qual, outer_func, outer_cls, sink, visit_body):
        def bind(name, val, stmt):
            kind, target = sink
            if kind == "mod":
                target.top[name] = val
                target.bindings.setdefault(name, []).append((val, stmt))
            elif kind == "cls":
                if isinstance(val, Func):
                    target.methods[name] = val
                else:
                    target.attrs[name] = val
            elif kind == "func":
                target.nested[name] = val

        if isinstance(st, (ast.FunctionDef, ast.AsyncFunctionDef)):
            q = scope_qual + "." + st.name
            k = 2
            while q in self.funcs:
                q = "%s.%s#%d" % (scope_qual, st.name, k)
                k += 1
            f = Func(m, q, st,
                     cls=sink[1] if sink[0] == "cls" else None, outer=outer_func)
            self.funcs[f.qual] = f
            m.funcs.append(f)
            bind(st.name, f, st)
            visit_body(st.body, f.qual, f, None, ("func", f))
            self._index_lambdas(m, st, f)
        elif isinstance(st, ast.ClassDef):
            c = Cls(m, scope_qual + "." + st.name, st, outer=outer_func)
            self.classes[c.qual] = c
            m.classes.append(c)
            bind(st.name, c, st)
            visit_body(st.body, c.qual, outer_func, c, ("cls", c))
        elif isinstance(st, ast.Assign):
            for t in st.targets:
                for name in _target_names(t):
                    bind(name, st.value, st)
        elif isinstance(st, ast.AnnAssign) and st.value is not None:
            for name in _target_names(st.target):
                bind(name, st.value, st)
        elif isinstance(st, ast.Import):
            if sink[0] == "mod":
                for a in st.names:
                    local = a.asname or a.name.split(".")[0]
                    m.imports[local] = ("mod", a.name if a.asname else a.name.split(".")[0])
        elif isinstance(st, ast.ImportFrom):
            if sink[0] == "mod":
                for a in st.names:
                    m.imports[a.asname or a.name] = ("from", st.module or "", a.name)
        elif isinstance(st, (ast.If, ast.Try, ast.With, ast.For, ast.While)):
            for field in ("body", "orelse", "finalbody"):
                visit_body(getattr(st, field, []) or [], scope_qual, outer_func, outer_cls, sink)
            for h in getattr(st, "handlers", []) or []:
                visit_body(h.body, scope_qual, outer_func, outer_cls, sink)

    def _index_lambdas(self, m, fnode, f):
        pass

    # --------------------------------------------------------------- lookups
    def mod(self, name):
        if name not in self.mods:
            raise AnalysisError("module %s not loaded" % name)
        return self.mods[name]

    def func(self, qual):
        if qual not in self.funcs:
            f = self._by_role(qual)
            if isinstance(f, Func):
                return f
            raise AnalysisError("function vanished: %s" % qual)
        return self.funcs[qual]

    def cls(self, qual):
        if qual not in self.classes:
            c = self._by_role(qual)
            if isinstance(c, Cls):
                return c
            raise AnalysisError("class vanished: %s" % qual)
        return self.classes[qual]

    # ------------------------------------------------------------------ private names, found by what they do
    def _by_role(self, qual):
        """The rules name a handful of *private* classes and functions (exceptions._Error, cli._Outputter, ...).  None of them is
        part of the interface, so a maintainer may rename them; when the name is gone the entity is looked up by its role -- the
        one structural fact that made the rules interested in it.  Public names are never re-resolved."""
        cache = self.__dict__.setdefault("_role_cache", {})
        if qual not in cache:
            cache[qual] = None
            try:
                cache[qual] = self._resolve_role(qual)
            except (KeyError, IndexError, AttributeError, AnalysisError):
                cache[qual] = None
        return cache[qual]

    def _classes_named_in(self, func, modname):
        """package classes of module `modname` referred to by name in func's body, in source order"""
        out = []
        for n in sorted((x for x in walk_body(func) if isinstance(x, ast.Name)), key=lambda x: (x.lineno, x.col_offset)):
            r = self.resolve_name(func.mod, n.id, func)
            if isinstance(r, Cls) and r.mod.name == modname and r not in out:
                out.append(r)
        return out

    def _resolve_role(self, qual):
        if qual == "exceptions._Error":
            # the common package base of ValidationError and SchemaError
            ve, se = self.classes["exceptions.ValidationError"], self.classes["exceptions.SchemaError"]
            def bases(c):
                return [b for b in (self.resolve_expr(c.mod, x, None) for x in c.node.bases) if isinstance(b, Cls)]
            common = [b for b in bases(ve) if b in bases(se)]
            return common[0] if len(common) == 1 else None
        if qual.startswith("exceptions._Error."):
            base = self.cls("exceptions._Error")
            name = qual.split(".")[-1]
            if name in base.methods:
                return base.methods[name]
            if name == "_set":
                # the method the dispatcher calls on every error to stamp keyword, value, instance and schema (keyword arguments)
                disp = self.tables.validator_cls.methods.get("iter_errors")
                for n in walk_body(disp):
                    if isinstance(n, ast.Call) and isinstance(n.func, ast.Attribute) and {"validator", "instance", "schema"} <= {k.arg for k in n.keywords} \
                            and n.func.attr in base.methods:
                        return base.methods[n.func.attr]
            if name == "_contents":
                # the method create_from spreads into the constructor: cls(**other.<it>())
                cf = base.methods.get("create_from")
                for n in walk_body(cf):
                    if isinstance(n, ast.Call) and isinstance(n.func, ast.Attribute) and not n.args and n.func.attr in base.methods and n.func.attr != "create_from":
                        return base.methods[n.func.attr]
            return None
        if qual == "cli._Outputter":
            # the one class of cli.py that run() names (it builds its reporter through it)
            cs = self._classes_named_in(self.funcs["cli.run"], "cli")
            cs = [c for c in cs if not any(norm(b).endswith("Exception") or norm(b).endswith("Error") for b in c.node.bases)]
            return cs[0] if len(cs) == 1 else None
        if qual in ("cli._PlainFormatter", "cli._PrettyFormatter"):
            # the class constructed under the comparison of the output option with "plain" / "pretty"
            want = "plain" if "Plain" in qual else "pretty"
            outp = self.cls("cli._Outputter")
            for m in outp.methods.values():
                for n in walk_body(m):
                    if isinstance(n, ast.If) and any(isinstance(x, ast.Constant) and x.value == want for x in ast.walk(n.test)):
                        for st in n.body:
                            for x in ast.walk(st):
                                if isinstance(x, ast.Name):
                                    r = self.resolve_name(m.mod, x.id, m)
                                    if isinstance(r, Cls) and r.mod.name == "cli":
                                        return r
            return None
        if qual == "cli._validate_instance":
            # the module-level function of cli.py that asks a validator for its errors
            cands = [f for f in self.funcs.values() if f.mod.name == "cli" and f.cls is None and f.outer is None
                     and any(isinstance(n, ast.Attribute) and n.attr == "iter_errors" for n in walk_body(f))]
            return cands[0] if len(cands) == 1 else None
        if qual == "cli._CannotLoadFile":
            cands = [c for c in self.classes.values() if c.mod.name == "cli" and any(norm(b) == "Exception" for b in c.node.bases)]
            return cands[0] if len(cands) == 1 else None
        if qual == "_format._checks_drafts":
            # the function of _format.py applied (called, as a decorator factory) to the built-in checkers
            m = self.mods["_format"]
            count = {}
            for st in m.tree.body:
                if isinstance(st, ast.FunctionDef):
                    for d in st.decorator_list:
                        if isinstance(d, ast.Call) and isinstance(d.func, ast.Name):
                            count[d.func.id] = count.get(d.func.id, 0) + 1
            best = sorted(count.items(), key=lambda kv: -kv[1])
            if best and best[0][1] >= 5:
                return self.funcs.get("_format.%s" % best[0][0])
            return None
        if qual.startswith("_format._checks_drafts."):
            outer = self.func("_format._checks_drafts")
            inner = [x for x in outer.nested.values() if isinstance(x, Func)]
            return inner[0] if len(inner) == 1 else None
        if qual == "validators.validates._validates":
            inner = [x for x in self.funcs["validators.validates"].nested.values() if isinstance(x, Func)]
            return inner[0] if len(inner) == 1 else None
        if qual == "_format.FormatChecker.checks._checks":
            inner = [x for x in self.classes["_format.FormatChecker"].methods["checks"].nested.values() if isinstance(x, Func)]
            return inner[0] if len(inner) == 1 else None
        return None

    def find_func(self, name, mod=None):
        """All functions whose last qualname component is `name`."""
        return [f for q, f in self.funcs.items()
                if f.name == name and (mod is None or f.mod.name == mod)]

    def pkg_module_of(self, dotted):
        """'jsonschema._utils' -> '_utils'; 'jsonschema' -> '__init__'; else None."""
        if dotted == PKG:
            return "__init__"
        if dotted.startswith(PKG + "."):
            rest = dotted[len(PKG) + 1:]
            if rest in self.mods:
                return rest
        return None

    def resolve_name(self, mod, name, func=None):
        """Resolve a bare name used in `mod` (optionally inside `func`) to
        Func | Cls | ("expr", Mod, ast.expr) | ("module", modname) | ("ext", dotted) | None."""
        f = func
        while f is not None:
            if name in f.nested:
                return f.nested[name]
            f = f.outer
        if name in mod.top:
            v = mod.top[name]
            if isinstance(v, (Func, Cls)):
                return v
            return ("expr", mod, v)
        if name in mod.imports:
            imp = mod.imports[name]
            if imp[0] == "mod":
                pm = self.pkg_module_of(imp[1])
                if pm:
                    return ("module", pm)
                return ("ext", imp[1])
            _, frm, attr = imp
            pm = self.pkg_module_of(frm)
            if pm:
                # `from jsonschema import _utils` -> module ; `from jsonschema._utils import equal` -> def
                sub = self.pkg_module_of(frm + "." + attr) if frm == PKG else None
                if sub:
                    return ("module", sub)
                return self.resolve_name(self.mods[pm], attr)
            return ("ext", frm + "." + attr)
        return None

    def resolve_expr(self, mod, expr, func=None, depth=0):
        """Resolve Name / Attribute chains to a definition (same result kinds as resolve_name)."""
        if depth > 8:
            return None
        if isinstance(expr, ast.Name):
            r = self.resolve_name(mod, expr.id, func)
            if isinstance(r, tuple) and r[0] == "expr" and isinstance(r[2], (ast.Name, ast.Attribute)):
                r2 = self.resolve_expr(r[1], r[2], None, depth + 1)
                if r2 is not None:
                    return r2
            return r
        if isinstance(expr, ast.Attribute):
            base = self.resolve_expr(mod, expr.value, func, depth + 1)
            if base is None:
                return None
            if isinstance(base, tuple) and base[0] == "module":
                return self.resolve_name(self.mods[base[1]], expr.attr)
            if isinstance(base, tuple) and base[0] == "ext":
                return ("ext", base[1] + "." + expr.attr)
            if isinstance(base, Cls):
                if expr.attr in base.methods:
                    return base.methods[expr.attr]
                if expr.attr in base.attrs:
                    return ("expr", base.mod, base.attrs[expr.attr])
            return None
        return None

    # ---------------------------------------------------------------- tables
    @property
    def tables(self):
        if self._tables is None:
            self._tables = Tables(self)
        return self._tables


def _target_names(t):
    if isinstance(t, ast.Name):
        return [t.id]
    if isinstance(t, (ast.Tuple, ast.List)):
        out = []
        for e in t.elts:
            out += _target_names(e)
        return out
    return []


def const_str(node):
    if isinstance(node, ast.Constant) and isinstance(node.value, str):
        return node.value
    return None


class Draft:
    def __init__(self, name):
        self.name = name            # "draft3"
        self.var = None             # "Draft3Validator"
        self.call = None            # ast.Call of create(...)
        self.table = {}             # keyword -> Func
        self.table_exprs = {}       # keyword -> ast.expr (or the Func itself when the table was evaluated)
        self.table_evaluated = False
        self.type_checker_expr = None
        self.types = {}             # type name -> Func (def or lambda)
        self.id_of = None           # Func (def or lambda)
        self.id_key = None          # "id" | "$id"
        self.meta_name = None       # "draft3"
        self.meta = None            # JSON
        self.version = None

    def __repr__(self):
        return "<Draft %s>" % self.name


class Tables:
    """E2: keyword tables, type tables, id_of, metaschemas, recovered from module-level ASTs."""

    def __init__(self, prog):
        self.prog = prog
        self.vmod = prog.mod("validators")
        self.create = prog.func("validators.create")
        self.drafts = {}
        self.lambdas = {}
        self.alias_writes = []      # (class variable, alias name, key, statement): module-level stores into another class's table
        self._load_drafts()
        self._load_types()
        self.validator_cls = self._find_validator_cls()

    def _find_validator_cls(self):
        cands = [c for c in self.prog.classes.values()
                 if c.outer is self.create and "iter_errors" in c.methods]
        if len(cands) != 1:
            raise AnalysisError("cannot identify the validator class nested in create(): %r" % cands)
        return cands[0]

    def _dict_items(self, mod, e, what, depth=0):
        """(key expr, value expr) pairs of a dict-valued expression written as a literal, as dict(k=v, ...), dict({...}),
        dict([(k, v), ...]) or as a module-level name bound once to one of these."""
        if depth > 4:
            raise AnalysisError("%s: dict expression too deep" % what)
        if isinstance(e, ast.Dict):
            if any(k is None for k in e.keys):
                raise AnalysisError("%s: dict literal with ** unpacking" % what)
            return list(zip(e.keys, e.values))
        if isinstance(e, ast.Call) and isinstance(e.func, ast.Name) and e.func.id == "dict":
            out = []
            if len(e.args) == 1:
                a = e.args[0]
                if isinstance(a, (ast.List, ast.Tuple)) and all(isinstance(x, ast.Tuple) and len(x.elts) == 2 for x in a.elts):
                    out += [(x.elts[0], x.elts[1]) for x in a.elts]
                else:
                    out += self._dict_items(mod, a, what, depth + 1)
            elif e.args:
                raise AnalysisError("%s: dict(...) with several positional arguments" % what)
            for kw in e.keywords:
                if kw.arg is None:
                    out += self._dict_items(mod, kw.value, what, depth + 1)
                else:
                    out.append((ast.copy_location(ast.Constant(kw.arg), kw.value), kw.value))
            return out
        if isinstance(e, ast.Name):
            r = self.prog.resolve_name(mod, e.id)
            if isinstance(r, tuple) and r[0] == "expr" and len(r[1].bindings.get(e.id, [])) == 1 and not (
                    isinstance(r[2], ast.Attribute) and r[2].attr == "VALIDATORS"):
                try:
                    items = self._dict_items(r[1], r[2], what, depth + 1)
                except AnalysisError:
                    items = None
                if items is not None:
                    # module-level `NAME[<constant>] = value` statements fill the table further (in source order)
                    items = list(items)
                    for st in r[1].tree.body:
                        if isinstance(st, ast.Assign) and len(st.targets) == 1 and isinstance(st.targets[0], ast.Subscript) \
                                and isinstance(st.targets[0].value, ast.Name) and st.targets[0].value.id == e.id and const_str(st.targets[0].slice) is not None:
                            items = [(k, v) for (k, v) in items if const_str(k) != const_str(st.targets[0].slice)] + [(st.targets[0].slice, st.value)]
                    return items
        # another class's table used as it is: `tbl = Draft6Validator.VALIDATORS` (the very dict object, not a copy)
        tgt = e
        via = None
        if isinstance(e, ast.Name):
            r = self.prog.resolve_name(mod, e.id)
            if isinstance(r, tuple) and r[0] == "expr":
                tgt, via = r[2], e.id
        if isinstance(tgt, ast.Attribute) and tgt.attr == "VALIDATORS" and isinstance(tgt.value, ast.Name):
            other = next((d for d in self.drafts.values() if d.var == tgt.value.id), None)
            if other is not None:
                items = [(ast.Constant(k), other.table_exprs[k]) for k in other.table]
                if via is not None:
                    for st in mod.tree.body:
                        if isinstance(st, ast.Assign) and len(st.targets) == 1 and isinstance(st.targets[0], ast.Subscript) \
                                and isinstance(st.targets[0].value, ast.Name) and st.targets[0].value.id == via and const_str(st.targets[0].slice) is not None:
                            ks = const_str(st.targets[0].slice)
                            items = [(k, v) for (k, v) in items if const_str(k) != ks] + [(st.targets[0].slice, st.value)]
                            # the alias *is* the other class's table: the store lands there too
                            fn = self.prog.resolve_expr(mod, st.value)
                            if isinstance(fn, Func):
                                other.table[ks] = fn
                                other.table_exprs[ks] = st.value
                            self.alias_writes.append((other.var, via, ks, st))
                return items
        raise AnalysisError("%s is not a dict literal" % what)

    def _evaluated_table(self, mod, e, what, err):
        """A keyword table the package *computes* (`_keyword_table(Draft4Validator.VALIDATORS, {...})`, a loop, a merge helper):
        the expression is evaluated by the definitional interpreter (sa/tokeval.py) -- module-level bindings once, as at import --
        and must come out as a dict from keyword names to package functions.  Anything else stays the analysis error it was."""
        from .tokeval import Ev, FuncRef, Undecided, PyRaise, _ModScope, PkgData
        ev = self.__dict__.get("_table_ev")
        if ev is None:
            ev = self._table_ev = Ev(self.prog, fuel=400000)
            ev.ext["pkgutil"] = PkgData(self.prog)
        try:
            val = ev.expr(e, {}, _ModScope(mod))
        except (Undecided, PyRaise, RecursionError) as x:
            raise AnalysisError("%s (and it could not be evaluated: %s)" % (err, x))
        if not isinstance(val, dict) or not val:
            raise AnalysisError("%s (and it evaluates to %s)" % (err, type(val).__name__))
        out = []
        for k, f in val.items():
            if not isinstance(k, str) or not isinstance(f, FuncRef) or not isinstance(f.func, Func) or f.closure:
                raise AnalysisError("%s (and it evaluates to a table whose entry %r is not a package function)" % (err, k))
            out.append((ast.Constant(k), f.func))
        return out

    def _lambda_func(self, mod, node, qual):
        key = (mod.name, node.lineno, node.col_offset)
        if key not in self.lambdas:
            f = Func(mod, qual, node)
            self.lambdas[key] = f
            self.prog.funcs.setdefault(qual, f)
        return self.lambdas[key]

    def _load_drafts(self):
        prog = self.prog
        m = self.vmod
        for name, binds in m.bindings.items():
            for val, stmt in binds:
                if not isinstance(val, ast.Call):
                    continue
                r = prog.resolve_expr(m, val.func)
                if r is not self.create:
                    continue
                args = self._bind_call(self.create, val)
                version = const_str(args.get("version")) if args.get("version") is not None else None
                if version not in DRAFTS:
                    continue
                d = Draft(version)
                d.var = name
                d.call = val
                d.version = version
                # keyword table
                v = args.get("validators")
                try:
                    items = self._dict_items(m, v, "%s: validators=" % name)
                except AnalysisError as e:
                    items = self._evaluated_table(m, v, "%s: validators=" % name, e)
                    d.table_evaluated = True
                for k, fx in items:
                    ks = const_str(k)
                    if ks is None:
                        raise AnalysisError("%s: non-constant keyword key %s" % (name, norm(k)))
                    if isinstance(fx, Func):
                        fn = fx
                    elif isinstance(fx, ast.Lambda):
                        fn = self._lambda_func(m, fx, "validators.<lambda %s.%s>" % (version, ks))
                    else:
                        fn = prog.resolve_expr(m, fx)
                    if not isinstance(fn, Func):
                        raise AnalysisError("%s: keyword %r bound to unresolvable %s" % (name, ks, norm(fx)))
                    # dict(base, **changes), {**base, "k": f}, a literal naming a key twice: the later entry is the one in force
                    d.table[ks] = fn
                    d.table_exprs[ks] = fx
                # type checker
                d.type_checker_expr = args.get("type_checker")
                # id_of
                ido = args.get("id_of")
                if ido is None:
                    dflt = self._param_default(self.create, "id_of")
                    ido = dflt
                if isinstance(ido, ast.Lambda):
                    d.id_of = self._lambda_func(m, ido, "validators.<lambda id_of %s>" % version)
                else:
                    r = prog.resolve_expr(m, ido)
                    if not isinstance(r, Func):
                        raise AnalysisError("%s: id_of unresolvable: %s" % (name, norm(ido)))
                    d.id_of = r
                # metaschema
                ms = args.get("meta_schema")
                mname = None
                if isinstance(ms, ast.Call) and ms.args:
                    r = prog.resolve_expr(m, ms.func)
                    if isinstance(r, Func) and r.name == "load_schema":
                        mname = const_str(ms.args[0])
                if mname is None or mname not in prog.schemas:
                    raise AnalysisError("%s: meta_schema= is not load_schema(<bundled name>): %s" % (name, norm(ms)))
                d.meta_name = mname
                d.meta = prog.schemas[mname]
                if version in self.drafts:
                    raise AnalysisError("two create(version=%r) calls" % version)
                self.drafts[version] = d
        missing = [d for d in DRAFTS if d not in self.drafts]
        if missing:
            raise AnalysisError("create(version=...) call not found for %s" % missing)

    def _param_default(self, func, pname):
        a = func.node.args
        names = [x.arg for x in a.args]
        defaults = [None] * (len(names) - len(a.defaults)) + list(a.defaults)
        for n, d in zip(names, defaults):
            if n == pname:
                return d
        for n, d in zip(a.kwonlyargs, a.kw_defaults):
            if n.arg == pname:
                return d
        return None

    def _bind_call(self, func, call):
        """Map parameter names of `func` to argument expressions at `call`."""
        out = {}
        names = func.params
        for i, a in enumerate(call.args):
            if isinstance(a, ast.Starred):
                raise AnalysisError("starred argument at %s" % norm(call))
            if i < len(names):
                out[names[i]] = a
        for kw in call.keywords:
            if kw.arg is None:
                raise AnalysisError("**kwargs at %s" % norm(call)[:80])
            out[kw.arg] = kw.value
        return out

    # -- type checkers --------------------------------------------------------
    def _load_types(self):
        tmod = self.prog.mod("_types")
        cache = {}

        def ev(expr, depth=0):
            """Evaluate a TypeChecker-valued expression to {name: Func}."""
            if depth > 10:
                raise AnalysisError("type checker chain too deep")
            if isinstance(expr, ast.Name):
                if expr.id in cache:
                    return cache[expr.id]
                r = self.prog.resolve_name(tmod, expr.id)
                if isinstance(r, tuple) and r[0] == "expr":
                    cache[expr.id] = ev(r[2], depth + 1)
                    return cache[expr.id]
                raise AnalysisError("type checker name %s unresolved" % expr.id)
            if isinstance(expr, ast.Call):
                fn = expr.func
                if isinstance(fn, ast.Name) and fn.id == "TypeChecker":
                    arg = expr.args[0] if expr.args else None
                    for kw in expr.keywords:
                        if kw.arg == "type_checkers":
                            arg = kw.value
                    if arg is None:
                        return {}
                    out = {}
                    for k, v in self._dict_items(tmod, arg, "TypeChecker(...) argument"):
                        out[const_str(k)] = self._type_fn(tmod, v, const_str(k))
                    return out
                if isinstance(fn, ast.Attribute):
                    base = ev(fn.value, depth + 1)
                    if fn.attr == "remove":
                        out = dict(base)
                        for a in expr.args:
                            s = const_str(a)
                            if s is None or s not in out:
                                raise AnalysisError("remove(%s) of unknown type" % norm(a))
                            del out[s]
                        return out
                    if fn.attr == "redefine":
                        out = dict(base)
                        s = const_str(expr.args[0])
                        out[s] = self._type_fn(tmod, expr.args[1], s)
                        return out
                    if fn.attr == "redefine_many":
                        out = dict(base)
                        arg = expr.args[0]
                        for k, v in self._dict_items(tmod, arg, "redefine_many argument"):
                            out[const_str(k)] = self._type_fn(tmod, v, const_str(k))
                        return out
            raise AnalysisError("cannot evaluate type checker expression %s" % norm(expr))

        for d in self.drafts.values():
            e = d.type_checker_expr
            if e is None:
                raise AnalysisError("%s: no type_checker= argument" % d.var)
            r = self.prog.resolve_expr(self.vmod, e)
            if not (isinstance(r, tuple) and r[0] == "expr" and r[1] is tmod):
                raise AnalysisError("%s: type_checker %s does not resolve into _types" % (d.var, norm(e)))
            # evaluate by name so aliases (draft7 = draft6) work
            try:
                d.types = ev(r[2])
            except AnalysisError as err:
                d.types = self._evaluated_types(tmod, r[2], err)
            d.type_checker_name = norm(e)

    def _evaluated_types(self, tmod, e, err):
        """A type checker the package computes in a way the loader does not read (a loop over names, a helper): evaluated by
        sa/tokeval.py; accepted when it comes out as a TypeChecker whose map sends names to plain package functions (no closure,
        no defaulted parameters carrying per-entry state).  Anything else stays the analysis error it was."""
        from .tokeval import Ev, FuncRef, Obj, Undecided, PyRaise, _ModScope
        ev = self.__dict__.get("_types_ev")
        if ev is None:
            ev = self._types_ev = Ev(self.prog, fuel=200000)
        try:
            val = ev.expr(e, {}, _ModScope(tmod))
        except (Undecided, PyRaise, RecursionError) as x:
            raise AnalysisError("%s (and it could not be evaluated: %s)" % (err, x))
        tbl = val.attrs.get("_type_checkers") if isinstance(val, Obj) else None
        if not isinstance(tbl, dict) or not tbl:
            raise AnalysisError("%s (and it does not evaluate to a TypeChecker with a map)" % err)
        out = {}
        for k, f in tbl.items():
            if not isinstance(k, str) or not isinstance(f, FuncRef) or not isinstance(f.func, Func) or f.closure or \
                    f.func.node.args.defaults or any(x is not None for x in f.func.node.args.kw_defaults):
                raise AnalysisError("%s (and the evaluated map's entry %r is not a plain package function)" % (err, k))
            out[k] = f.func
        return out

    def _type_fn(self, tmod, v, tname):
        if isinstance(v, ast.Lambda):
            return self._lambda_func(tmod, v, "_types.<lambda %s@%d>" % (tname, v.lineno))
        r = self.prog.resolve_expr(tmod, v)
        if isinstance(r, tuple) and r[0] == "expr" and isinstance(r[2], ast.Call):
            made = self._made_by_factory(r[1], r[2], tname)
            if made is not None:
                return made
        if not isinstance(r, Func):
            raise AnalysisError("type function %s unresolved" % norm(v))
        return r

    def _made_by_factory(self, mod, call, tname):
        """`is_array = _is("array")`: a predicate made by a package function that returns its one nested def.  It is represented as
        that nested function; `made_by` keeps the factory and the call, so that an evaluator can bind the factory's parameters."""
        F = self.prog.resolve_expr(mod, call.func)
        if not isinstance(F, Func):
            return None
        inner = [x for x in F.nested.values() if isinstance(x, Func)]
        rets = [n for n in walk_body(F) if isinstance(n, ast.Return)]
        if len(inner) != 1 or not rets or not all(isinstance(x.value, ast.Name) and x.value.id == inner[0].name for x in rets):
            return None
        key = (mod.name, call.lineno, call.col_offset)
        if key not in self.lambdas:
            g = inner[0]
            f = Func(g.mod, "%s[%s@%d]" % (g.qual, tname, call.lineno), g.node, cls=None, outer=F)
            f.made_by = (F, call, mod)
            self.lambdas[key] = f
            self.prog.funcs.setdefault(f.qual, f)
        return self.lambdas[key]

    # -- helpers --------------------------------------------------------------
    def keyword_funcs(self):
        """{Func: {(draft, keyword)}} over all tables."""
        out = {}
        for d in self.drafts.values():
            for k, f in d.table.items():
                out.setdefault(f, set()).add((d.name, k))
        return out
