"""Which keys of a schema-shaped object does a function read? (R5.3, R10.1, R10.3)"""
import ast

from .prog import norm, walk_body, walk_local, Func
from .calls import calls_of
from .common import const_of, stamper


class Read:
    def __init__(self, func, kind, key, node, obj, message_only=False, via=()):
        self.func = func
        self.kind = kind        # get | getitem | in | items | keys | values | iter | len | copy | star | call:<name>
        self.key = key          # constant key or None
        self.node = node
        self.obj = obj          # 'schema' | 'value-elem' | name
        self.message_only = message_only
        self.via = via          # chain of helper functions

    def __repr__(self):
        return "<Read %s %s %r in %s>" % (self.obj, self.kind, self.key, self.func.qual)


ITER_KINDS = {"items", "keys", "values", "iter", "len", "copy", "star", "pop", "popitem", "update", "setdefault"}


def _parents(func):
    par = {}
    for st in func.body:
        for n in [st] + list(walk_local(st)):
            for c in ast.iter_child_nodes(n):
                par[id(c)] = n
    return par


def _message_only(par, node):
    """node's value flows only into repr()/str()/% formatting."""
    cur = node
    for _ in range(4):
        p = par.get(id(cur))
        if p is None:
            return False
        if isinstance(p, ast.Call) and isinstance(p.func, ast.Name) and p.func.id in ("repr", "str") and cur in p.args:
            return True
        if isinstance(p, ast.BinOp) and isinstance(p.op, ast.Mod) and (cur is p.right or (
                isinstance(p.right, ast.Tuple) and cur in p.right.elts)):
            return True
        if isinstance(p, ast.Tuple):
            cur = p
            continue
        return False
    return False


def const_values(func, e):
    """Constant string values expression e can take: a constant, or a local all of whose assignments are string constants."""
    if isinstance(e, ast.Constant):
        return [e.value]
    if isinstance(e, ast.Name) and e.id not in func.all_params:
        vals = []
        # `for keyword in ("$ref", "$recursiveRef")` / `for keyword in _REFERENCES` (a module-level tuple of names): each element
        loops = [n for n in walk_body(func) if isinstance(n, (ast.For, ast.comprehension)) and isinstance(n.target, ast.Name) and n.target.id == e.id]
        other = [n for n in walk_body(func) if isinstance(n, ast.Name) and n.id == e.id and isinstance(n.ctx, ast.Store)]
        if loops and len(other) == len(loops):
            for lp in loops:
                it = lp.iter
                if isinstance(it, ast.Name):
                    binds = func.mod.bindings.get(it.id) or []
                    if len(binds) == 1 and isinstance(binds[0][0], ast.expr):
                        it = binds[0][0]
                if isinstance(it, (ast.Tuple, ast.List, ast.Set)) and it.elts and all(isinstance(x, ast.Constant) and isinstance(x.value, str) for x in it.elts):
                    vals += [x.value for x in it.elts]
                else:
                    return None
            return vals
        for n in walk_body(func):
            if isinstance(n, ast.Assign) and any(isinstance(t, ast.Name) and t.id == e.id for t in n.targets):
                if isinstance(n.value, ast.Constant) and isinstance(n.value.value, str):
                    vals.append(n.value.value)
                elif isinstance(n.value, ast.IfExp) and all(isinstance(x, ast.Constant) and isinstance(x.value, str) for x in (n.value.body, n.value.orelse)):
                    vals += [n.value.body.value, n.value.orelse.value]
                else:
                    return None
            elif isinstance(n, (ast.For, ast.comprehension, ast.AugAssign, ast.withitem, ast.NamedExpr)):
                tg = getattr(n, "target", None) or getattr(n, "optional_vars", None)
                if tg is not None and any(isinstance(x, ast.Name) and x.id == e.id for x in ast.walk(tg)):
                    return None
        return vals or None
    return None


def reads_on_names(func, names, objlabel, calls, depth=0, via=()):
    """Reads performed in `func` on any local in `names` (aliases of the object), following helpers."""
    out = []
    par = _parents(func)
    names = set(names)
    # aliases: x = schema
    changed = True
    while changed:
        changed = False
        for n in walk_body(func):
            if isinstance(n, ast.Assign) and isinstance(n.value, ast.Name) and n.value.id in names:
                for t in n.targets:
                    if isinstance(t, ast.Name) and t.id not in names:
                        names.add(t.id)
                        changed = True
    for n in walk_body(func):
        if isinstance(n, ast.Call):
            fn = n.func
            if isinstance(fn, ast.Attribute) and isinstance(fn.value, ast.Name) and fn.value.id in names:
                keys = const_values(func, n.args[0]) if n.args else None
                for key in (keys or [None]):
                    out.append(Read(func, fn.attr, key, n, objlabel, _message_only(par, n), via))
                continue
            args = list(n.args) + [k.value for k in n.keywords]
            hit = [i for i, a in enumerate(args) if isinstance(a, ast.Name) and a.id in names]
            star = [a for a in n.args if isinstance(a, ast.Starred) and isinstance(a.value, ast.Name) and a.value.id in names]
            dstar = [k for k in n.keywords if k.arg is None and isinstance(k.value, ast.Name) and k.value.id in names]
            if star or dstar:
                out.append(Read(func, "star", None, n, objlabel, False, via))
            if not hit:
                continue
            for t in calls.callee(func, n):
                if t.kind == "builtin":
                    # only a *positional* argument is walked by these; `dict(schema=_schema)` stores the object under a key
                    pos_hit = any(isinstance(a, ast.Name) and a.id in names for a in n.args)
                    if pos_hit and t.name in ("len", "iter", "list", "dict", "set", "sorted", "tuple", "enumerate", "zip", "any", "all",
                                              "map", "filter", "next", "reversed", "sum", "max", "min", "frozenset"):
                        out.append(Read(func, "len" if t.name == "len" else "iter", None, n, objlabel, False, via))
                    # isinstance/repr/str/getattr: not key reads
                elif t.kind == "func" and t.func is not None and depth < 4:
                    g = t.func
                    if g.name == "__init__" or g is stamper(calls.prog):
                        continue
                    if g.cls is not None and g.cls is calls.V:
                        continue    # descent: the object becomes the schema of a recursive validation
                    # map args to params
                    off = 1 if (g.cls is not None and isinstance(fn, ast.Attribute)) else 0
                    gp = g.params
                    pnames = set()
                    for i, a in enumerate(n.args):
                        if isinstance(a, ast.Name) and a.id in names and i + off < len(gp):
                            pnames.add(gp[i + off])
                    for k in n.keywords:
                        if k.arg and isinstance(k.value, ast.Name) and k.value.id in names:
                            pnames.add(k.arg)
                    if pnames:
                        out += reads_on_names(g, pnames, objlabel, calls, depth + 1, via + (g.qual,))
                elif t.kind == "dynamic" and t.name in ("keyword-dispatch",):
                    continue
                elif t.kind == "dynamic" and t.name == "id_of":
                    for g in t.funcs:
                        out += reads_on_names(g, set(g.params[:1]), objlabel, calls, depth + 1, via + (g.qual,))
                elif t.kind == "class":
                    continue
                elif t.kind in ("ext",):
                    out.append(Read(func, "call:" + t.name, None, n, objlabel, _message_only(par, n), via))
        elif isinstance(n, ast.Subscript) and isinstance(n.value, ast.Name) and n.value.id in names and isinstance(n.ctx, ast.Load):
            for key in (const_values(func, n.slice) or [None]):
                out.append(Read(func, "getitem", key, n, objlabel, _message_only(par, n), via))
        elif isinstance(n, ast.Compare) and any(isinstance(o, (ast.In, ast.NotIn)) for o in n.ops):
            for c in n.comparators:
                if isinstance(c, ast.Name) and c.id in names:
                    for key in (const_values(func, n.left) or [None]):
                        out.append(Read(func, "in", key, n, objlabel, False, via))
        elif isinstance(n, (ast.For, ast.comprehension)) and isinstance(n.iter, ast.Name) and n.iter.id in names:
            out.append(Read(func, "iter", None, n.iter, objlabel, False, via))
        elif isinstance(n, ast.Dict):
            for k, v in zip(n.keys, n.values):
                if k is None and isinstance(v, ast.Name) and v.id in names:
                    out.append(Read(func, "star", None, n, objlabel, False, via))
    return out


def schema_reads(prog, func):
    """Reads on the parameter holding the enclosing schema object."""
    calls = calls_of(prog)
    sp = calls.param_with_role(func, "schema")
    if sp is None:
        return []
    return reads_on_names(func, {sp}, "schema", calls)


def _elem_names(prog, func, value_names):
    from .effects import effects_of
    eff = effects_of(prog)
    env = eff.origins(func)
    out = set()
    for name, tags in env.items():
        if name in value_names:
            continue
        if any(t[0] == "P" and t[1] in value_names for t in tags):
            out.add(name)
    return out


def child_reads(prog, func, value_names=None, depth=0, via=()):
    """Constant-key reads on elements of the keyword value (e.g. Draft 3 properties -> child's `required`;
    types_msg -> a union member's `name`), following helpers that receive the value or an element."""
    calls = calls_of(prog)
    if value_names is None:
        vp = calls.param_with_role(func, "value")
        if vp is None:
            return []
        value_names = {vp}
    elems = _elem_names(prog, func, value_names)
    out = []
    if elems:
        out += [r for r in reads_on_names(func, elems, "value-elem", calls, depth, via) if isinstance(r.key, str)]
    if depth < 3:
        for n in walk_body(func):
            if not isinstance(n, ast.Call):
                continue
            for t in calls.callee(func, n):
                if t.kind != "func" or t.func is None or t.func.cls is calls.V or t.func.name == "__init__" or t.func is stamper(calls.prog):
                    continue
                g = t.func
                off = 1 if (g.cls is not None and isinstance(n.func, ast.Attribute)) else 0
                gp = g.params
                sub = set()
                for i, a in enumerate(n.args):
                    if isinstance(a, ast.Name) and a.id in value_names and i + off < len(gp):
                        sub.add(gp[i + off])
                for k in n.keywords:
                    if k.arg and isinstance(k.value, ast.Name) and k.value.id in value_names:
                        sub.add(k.arg)
                if sub:
                    out += child_reads(prog, g, sub, depth + 1, via + (g.qual,))
    return out
