"""E6: write effects and aliasing (flow-insensitive origins per function, summaries over the call graph).

Origin tags of a value:
  ("P", name)   derived from parameter `name` (the object itself or anything reachable from it)
  ("G", mod, name) derived from a module-level binding
  ("C", cls, attr) derived from a class-level attribute
  ("D", name)   derived from a mutable default-argument object of parameter `name`
  ("S",)        `self` of an untyped class
  ("T", type)   an instance of a package class (fields handled by (type, attr))
  ("FLD", type, attr)   the object stored in field `attr` of a package-class instance
  ("F",)        fresh object created here (possibly a shallow copy: elements tracked separately by ("EL", inner))
  ("EL", tag)   *element* of a fresh container whose elements have origin `tag` (shallow copies)
  ("X",)        unknown
"""
import ast

from .prog import Func, Cls, norm, walk_local, AnalysisError, walk_body
from .calls import calls_of, BUILTINS

MUTATORS = {
    "append", "extend", "insert", "pop", "remove", "clear", "sort", "reverse", "update", "setdefault",
    "popitem", "add", "discard", "appendleft", "extendleft", "popleft", "rotate", "__setitem__",
    "__delitem__", "difference_update", "intersection_update", "symmetric_difference_update", "move_to_end",
}
# methods on a persistent map (pyrsistent.pmap) that share names with mutators but are pure
PMAP_PURE = {"update", "remove", "set", "discard", "evolver"}

FRESH_BUILTINS = {"list", "dict", "set", "sorted", "tuple", "frozenset", "deque", "defaultdict", "str", "repr",
                  "int", "float", "bool", "len", "any", "all", "isinstance", "sum", "object", "Fraction",
                  "type", "hasattr", "callable", "id", "range", "format"}
ELEMENT_BUILTINS = {"iter", "reversed", "enumerate", "zip", "map", "filter", "islice", "chain"}
SHALLOW_COPY = {"list", "dict", "set", "sorted", "tuple", "frozenset", "deque"}


class Write:
    def __init__(self, func, node, text, locs, how):
        self.func = func
        self.node = node
        self.text = text
        self.locs = locs    # frozenset of origin tags of the mutated object
        self.how = how      # 'store-subscript' | 'store-attr' | 'del' | 'mutator:<m>' | 'augassign' | 'via:<callee>'

    def __repr__(self):
        return "<Write %s %s %s>" % (self.func.qual, self.text, sorted(map(str, self.locs)))


class Effects:
    def __init__(self, prog):
        self.prog = prog
        self.calls = calls_of(prog)
        self._origins = {}
        self._direct = {}
        self._ret = {}
        self._closure = None
        self.pmap_fields = self._find_pmap_fields()

    def _find_pmap_fields(self):
        """(type, field) pairs declared attr.ib(converter=pmap): methods on them are pure."""
        out = set()
        for tag, c in self.calls.type_cls.items():
            for name, v in c.attrs.items():
                if isinstance(v, ast.Call) and norm(v.func) in ("attr.ib", "attrib", "attr.attrib"):
                    for kw in v.keywords:
                        if kw.arg == "converter" and norm(kw.value) in ("pmap", "pyrsistent.pmap"):
                            out.add((tag, name))
        return out

    # ---------------------------------------------------------------- origins
    def mutable_defaults(self, func):
        """{param: default expr} for defaults that are mutable objects (calls, literals)."""
        a = func.node.args
        names = [x.arg for x in a.posonlyargs + a.args]
        defaults = [None] * (len(names) - len(a.defaults)) + list(a.defaults)
        out = {}
        for n, d in list(zip(names, defaults)) + [(k.arg, v) for k, v in zip(a.kwonlyargs, a.kw_defaults)]:
            if d is None:
                continue
            if isinstance(d, (ast.List, ast.Dict, ast.Set, ast.ListComp, ast.DictComp, ast.SetComp)):
                out[n] = d
            elif isinstance(d, ast.Call):
                out[n] = d
        return out

    def origins(self, func):
        """{local name: frozenset(tags)} flow-insensitive fixpoint."""
        if func in self._origins:
            return self._origins[func]
        env = {}
        self._origins[func] = env
        for p in func.all_params:
            env[p] = {("P", p)}
        if func.cls is not None and func.params and func.cls.qual not in self.calls.cls_type and \
                "staticmethod" not in [norm(d) for d in func.decorators]:
            env[func.params[0]] = {("CLS", func.cls.qual)} if "classmethod" in [norm(d) for d in func.decorators] else {("S",)}
        for p in self.mutable_defaults(func):
            env[p] = env[p] | {("D", p)}
        body = func.node
        changed = True
        it = 0
        while changed and it < 12:
            changed = False
            it += 1
            for n in walk_body(func):
                pairs = []
                if isinstance(n, ast.Assign):
                    for t in n.targets:
                        pairs += self._assign_pairs(func, t, n.value, env)
                elif isinstance(n, ast.AnnAssign) and n.value is not None:
                    pairs += self._assign_pairs(func, n.target, n.value, env)
                elif isinstance(n, ast.AugAssign) and isinstance(n.target, ast.Name):
                    # x += y: a list is extended in place (it keeps its own identity and gains y's *elements*); a number or a
                    # string is re-bound to a fresh value.  Either way x does not become y.
                    pairs.append((n.target.id, {("F",)} | {("EL", t) for t in self._elements(self.expr_tags(func, n.value, env)) if t[0] != "F"}))
                elif isinstance(n, (ast.For, ast.comprehension)):
                    pairs += self._iter_pairs(func, n.target, n.iter, env)
                elif isinstance(n, ast.withitem) and n.optional_vars is not None:
                    pairs += self._assign_pairs(func, n.optional_vars, n.context_expr, env, via_with=True)
                elif isinstance(n, ast.ExceptHandler) and n.name:
                    pairs.append((n.name, {("F",)}))
                elif isinstance(n, ast.NamedExpr):
                    pairs += self._assign_pairs(func, n.target, n.value, env)
                for name, tags in pairs:
                    old = env.get(name, set())
                    new = old | set(tags)
                    if new != old:
                        env[name] = new
                        changed = True
        return env

    def _assign_pairs(self, func, target, value, env, via_with=False):
        if isinstance(target, ast.Name):
            tags = self.expr_tags(func, value, env)
            if via_with:
                tags = self._elements(tags)
            return [(target.id, tags)]
        if isinstance(target, (ast.Tuple, ast.List)):
            if isinstance(value, (ast.Tuple, ast.List)) and len(value.elts) == len(target.elts):
                out = []
                for t, v in zip(target.elts, value.elts):
                    out += self._assign_pairs(func, t, v, env)
                return out
            tags = self._elements(self.expr_tags(func, value, env))
            out = []
            for t in target.elts:
                out += self._bind_all(t, tags)
            return out
        return []

    def _bind_all(self, target, tags):
        if isinstance(target, ast.Name):
            return [(target.id, tags)]
        if isinstance(target, (ast.Tuple, ast.List)):
            out = []
            for t in target.elts:
                out += self._bind_all(t, self._elements(tags))
            return out
        if isinstance(target, ast.Starred):
            return self._bind_all(target.value, tags)
        return []

    def _iter_pairs(self, func, target, it, env):
        tags = self._elements(self.expr_tags(func, it, env))
        return self._bind_all(target, tags)

    def _elements(self, tags):
        """Origins of the elements/sub-objects of a value with origins `tags`."""
        out = set()
        for t in tags:
            if t[0] == "EL":
                out.add(t[1])
            elif t[0] == "F":
                pass            # elements of a fresh container are described by its EL tags
            else:
                out.add(t)      # sub-objects of P/G/... stay P/G/...
        if not out and any(t[0] == "F" for t in tags):
            out.add(("F",))
        return out

    def expr_tags(self, func, e, env=None):
        if env is None:
            env = self.origins(func)
        calls = self.calls
        if e is None or isinstance(e, ast.Constant):
            return {("F",)}
        if isinstance(e, ast.Name):
            if e.id in env:
                return set(env[e.id])
            # closure variable
            o = func.outer
            while o is not None:
                oe = self.origins(o)
                if e.id in oe:
                    return {("P", "closure:" + e.id) if t[0] == "P" else t for t in oe[e.id]}
                o = o.outer
            r = self.prog.resolve_name(func.mod, e.id, func)
            if isinstance(r, tuple) and r[0] == "expr":
                return {("G", r[1].name, e.id)}
            if isinstance(r, (Func, Cls)):
                return {("F",)} if isinstance(r, Func) else {("CLS", r.qual)}
            if isinstance(r, tuple) and r[0] in ("module", "ext"):
                return {("M", r[1])}
            if e.id in ("True", "False", "None") or e.id in BUILTINS:
                return {("F",)}
            return {("X",)}
        if isinstance(e, ast.Attribute):
            t = calls.type_of(func, e.value)
            if t:
                if t.startswith("cls:"):
                    return {("C", t[4:], e.attr)}
                return {("FLD", t, e.attr)}
            base = self.expr_tags(func, e.value, env)
            out = set()
            for b in base:
                if b[0] == "M":
                    pm = b[1]
                    if pm in self.prog.mods:
                        r = self.prog.resolve_name(self.prog.mods[pm], e.attr)
                        if isinstance(r, tuple) and r[0] == "expr":
                            out.add(("G", pm, e.attr))
                        else:
                            out.add(("F",))
                    else:
                        out.add(("F",))
                elif b[0] == "CLS":
                    out.add(("C", b[1], e.attr))
                elif b[0] == "S":
                    out.add(("SA", e.attr))
                else:
                    out |= self._elements({b})
            return out
        if isinstance(e, ast.Subscript):
            return self._elements(self.expr_tags(func, e.value, env))
        if isinstance(e, ast.Starred):
            return self.expr_tags(func, e.value, env)
        if isinstance(e, (ast.List, ast.Tuple, ast.Set)):
            out = {("F",)}
            for x in e.elts:
                for t in self.expr_tags(func, x, env):
                    if t[0] != "F":
                        out.add(("EL", t))
            return out
        if isinstance(e, ast.Dict):
            out = {("F",)}
            for x in e.values:
                if x is None:
                    continue
                for t in self.expr_tags(func, x, env):
                    if t[0] != "F":
                        out.add(("EL", t))
            for k, x in zip(e.keys, e.values):
                if k is None:  # **x : shallow copy
                    for t in self._elements(self.expr_tags(func, x, env)):
                        if t[0] != "F":
                            out.add(("EL", t))
            return out
        if isinstance(e, (ast.ListComp, ast.SetComp, ast.GeneratorExp)):
            inner = dict(env)
            for g in e.generators:
                for name, tags in self._iter_pairs(func, g.target, g.iter, inner):
                    inner[name] = set(inner.get(name, set())) | set(tags)
            out = {("F",)}
            for t in self.expr_tags(func, e.elt, inner):
                if t[0] != "F":
                    out.add(("EL", t))
            return out
        if isinstance(e, ast.DictComp):
            inner = dict(env)
            for g in e.generators:
                for name, tags in self._iter_pairs(func, g.target, g.iter, inner):
                    inner[name] = set(inner.get(name, set())) | set(tags)
            out = {("F",)}
            for t in self.expr_tags(func, e.value, inner):
                if t[0] != "F":
                    out.add(("EL", t))
            return out
        if isinstance(e, ast.IfExp):
            return self.expr_tags(func, e.body, env) | self.expr_tags(func, e.orelse, env)
        if isinstance(e, ast.BoolOp):
            out = set()
            for v in e.values:
                out |= self.expr_tags(func, v, env)
            return out
        if isinstance(e, (ast.BinOp, ast.UnaryOp, ast.Compare, ast.JoinedStr, ast.FormattedValue, ast.Lambda)):
            return {("F",)}
        if isinstance(e, (ast.Yield, ast.Await)):
            return {("X",)}
        if isinstance(e, ast.NamedExpr):
            return self.expr_tags(func, e.value, env)
        if isinstance(e, ast.Call):
            return self._call_tags(func, e, env)
        return {("X",)}

    def _call_tags(self, func, e, env):
        calls = self.calls
        if isinstance(e.func, ast.Name) and e.func.id == "getattr" and e.args and "getattr" not in env and not isinstance(
                self.prog.resolve_name(func.mod, "getattr", func), (Func, Cls, tuple)):
            # getattr(obj, name[, default]) with a computed name: some attribute of obj -- a sub-object of whatever obj is
            if len(e.args) >= 2 and isinstance(e.args[1], ast.Constant):
                fake = ast.Attribute(value=e.args[0], attr=e.args[1].value, ctx=ast.Load())
                out = set(self.expr_tags(func, fake, env))
            else:
                bt = calls.type_of(func, e.args[0])
                out = {("FLD", bt, "*")} if bt and not bt.startswith("cls:") else set(self._elements(self.expr_tags(func, e.args[0], env)))
            for a in e.args[2:]:
                out |= self.expr_tags(func, a, env)
            return out
        targets = calls.callee(func, e)
        out = set()
        args = list(e.args) + [kw.value for kw in e.keywords]
        for t in targets:
            if t.kind == "builtin" or (t.kind == "ext" and t.name.rsplit(".", 1)[-1] in FRESH_BUILTINS | ELEMENT_BUILTINS):
                nm = t.name.rsplit(".", 1)[-1]
                if nm in SHALLOW_COPY or nm in ELEMENT_BUILTINS:
                    out.add(("F",))
                    for a in args:
                        for tg in self._elements(self.expr_tags(func, a, env)):
                            if tg[0] != "F":
                                out.add(("EL", tg))
                elif nm in ("next",):
                    for a in args:
                        out |= self._elements(self.expr_tags(func, a, env))
                elif nm in ("getattr",):
                    if len(e.args) >= 2 and isinstance(e.args[1], ast.Constant):
                        fake = ast.Attribute(value=e.args[0], attr=e.args[1].value, ctx=ast.Load())
                        out |= self.expr_tags(func, fake, env)
                        for a in e.args[2:]:
                            out |= self.expr_tags(func, a, env)
                    else:
                        out |= self._elements(self.expr_tags(func, e.args[0], env)) if e.args else {("X",)}
                elif nm in ("max", "min"):
                    for a in e.args:
                        out |= self._elements(self.expr_tags(func, a, env))
                elif nm in ("vars",):
                    for a in e.args:
                        out |= self.expr_tags(func, a, env)
                elif nm in ("super",):
                    out.add(("F",))
                else:
                    out.add(("F",))
            elif t.kind == "class":
                out.add(("T", t.typ) if t.typ in calls.type_cls else ("F",))
                if t.typ not in calls.type_cls:
                    for a in args:
                        for tg in self.expr_tags(func, a, env):
                            if tg[0] != "F":
                                out.add(("EL", tg))
            elif t.kind == "func" and t.func is not None:
                out |= self._apply_summary(func, e, t.func, env)
            elif t.kind == "dynamic":
                if t.funcs:
                    for g in t.funcs:
                        out |= self._apply_summary(func, e, g, env, dynamic=True)
                else:
                    out.add(("X",))
            elif t.kind == "method":
                recv = e.func.value if isinstance(e.func, ast.Attribute) else None
                rt = self.expr_tags(func, recv, env) if recv is not None else {("X",)}
                m = t.name
                if m in ("get", "pop", "setdefault", "popitem", "popleft", "__getitem__"):
                    out |= self._elements(rt)
                    for a in e.args[1:]:
                        out |= self.expr_tags(func, a, env)
                elif m in ("items", "keys", "values", "copy", "union", "difference", "intersection"):
                    out.add(("F",))
                    for tg in self._elements(rt):
                        if tg[0] != "F":
                            out.add(("EL", tg))
                elif m in ("format", "join", "split", "replace", "lstrip", "strip", "rstrip", "lower", "upper", "title",
                           "startswith", "endswith", "decode", "encode", "is_integer", "isdigit", "geturl", "read",
                           "write", "json", "count", "index", "find", "removeprefix", "partition", "rpartition",
                           "splitlines", "casefold", "zfill"):
                    out.add(("F",))
                elif m in PMAP_PURE or m in ("evolve",):
                    out.add(("F",))
                else:
                    out.add(("F",)) if m in MUTATORS else out.add(("X",))
            elif t.kind == "ext":
                out.add(("F",))
            else:
                out.add(("X",))
        return out or {("X",)}

    def _apply_summary(self, func, call, g, env, dynamic=False):
        """Origins of the value returned/yielded by package function g when called at `call`."""
        ret = self.returns(g)
        out = set()
        binding = self._bind_args(func, call, g, dynamic)
        for t in ret:
            if t[0] == "P":
                a = binding.get(t[1])
                if a is not None:
                    out |= self.expr_tags(func, a, env)
                # unbound parameter (default): nothing from the caller
            elif t[0] == "EL" and t[1][0] == "P":
                a = binding.get(t[1][1])
                if a is not None:
                    for tg in self.expr_tags(func, a, env):
                        out.add(("EL", tg) if tg[0] != "F" else ("F",))
            else:
                out.add(t)
        if g.is_generator or any(norm(d).endswith("contextmanager") for d in g.decorators):
            # a generator object: fresh container of its yields
            out = {("F",)} | {("EL", t) if t[0] not in ("F", "EL") else t for t in out}
        return out

    def _bind_args(self, func, call, g, dynamic=False):
        params = g.params
        off = 0
        if g.cls is not None and "staticmethod" not in [norm(d) for d in g.decorators]:
            if isinstance(call.func, ast.Attribute) or dynamic is False and isinstance(call.func, ast.Name) and False:
                off = 1
        # class instantiation: __init__(self, ...)
        if g.name == "__init__":
            off = 1
        b = {}
        if off == 1 and isinstance(call.func, ast.Attribute) and params:
            b[params[0]] = call.func.value
        for i, a in enumerate(call.args):
            if isinstance(a, ast.Starred):
                continue
            if i + off < len(params):
                b[params[i + off]] = a
        for kw in call.keywords:
            if kw.arg:
                b[kw.arg] = kw.value
        return b

    def returns(self, g, _stack=None):
        """Origins (in terms of g's own params) of what g returns or yields."""
        if g in self._ret:
            return self._ret[g]
        self._ret[g] = set()     # bottom for recursion
        for _round in range(4):
            out = set()
            env = self.origins(g)
            for n in walk_body(g):
                v = None
                if isinstance(n, ast.Return):
                    v = n.value
                elif isinstance(n, ast.Yield):
                    v = n.value
                elif isinstance(n, ast.YieldFrom):
                    out |= self._elements(self.expr_tags(g, n.value, env))
                    continue
                if v is not None:
                    out |= self.expr_tags(g, v, env)
            if isinstance(g.node, ast.Lambda):
                out |= self.expr_tags(g, g.node.body, env)
            if out == self._ret[g]:
                break
            self._ret[g] = out
            # origins may depend on summaries of recursive calls: recompute
            self._origins.pop(g, None)
        return self._ret[g]

    # ------------------------------------------------------------------ writes
    def direct_writes(self, func):
        if func in self._direct:
            return self._direct[func]
        out = []
        env = self.origins(func)
        calls = self.calls

        def loc_of(target_base):
            return frozenset(self.expr_tags(func, target_base, env))

        for n in walk_body(func):
            if isinstance(n, (ast.Assign, ast.AugAssign, ast.AnnAssign, ast.Delete, ast.For, ast.withitem)):
                if isinstance(n, ast.Assign):
                    tgts = list(n.targets)
                elif isinstance(n, ast.Delete):
                    tgts = list(n.targets)
                elif isinstance(n, ast.For):
                    tgts = [n.target]
                elif isinstance(n, ast.withitem):
                    tgts = [n.optional_vars] if n.optional_vars is not None else []
                else:
                    tgts = [n.target]
                flat = []
                for t in tgts:
                    flat += _flatten_targets(t)
                for t in flat:
                    how = "del" if isinstance(n, ast.Delete) else ("augassign" if isinstance(n, ast.AugAssign) else "store")
                    if isinstance(t, ast.Subscript):
                        out.append(Write(func, n, norm(t), loc_of(t.value), how + "-subscript"))
                    elif isinstance(t, ast.Attribute):
                        bt = calls.type_of(func, t.value)
                        if bt:
                            if bt.startswith("cls:"):
                                loc = frozenset([("C", bt[4:], t.attr, "rebind")])
                            else:
                                loc = frozenset([("FLD", bt, t.attr, "rebind")])
                        else:
                            base = self.expr_tags(func, t.value, env)
                            loc = frozenset(
                                ("C", b[1], t.attr, "rebind") if b[0] == "CLS" else
                                ("G", b[1], t.attr, "rebind") if b[0] == "M" else
                                ("SA", t.attr, "rebind") if b[0] == "S" else b for b in base)
                        out.append(Write(func, n, norm(t), loc, how + "-attr"))
                    elif isinstance(t, ast.Name) and isinstance(n, ast.AugAssign):
                        # x += y mutates a list in place
                        tags = frozenset(env.get(t.id, set()))
                        if any(tg[0] not in ("F", "EL") for tg in tags):
                            out.append(Write(func, n, norm(n), tags, "augassign-name"))
            elif isinstance(n, ast.Global):
                for name in n.names:
                    out.append(Write(func, n, "global " + name, frozenset([("G", func.mod.name, name, "rebind")]), "global"))
            elif isinstance(n, ast.Call):
                f = n.func
                if isinstance(f, ast.Attribute) and f.attr in MUTATORS:
                    # a package method of that name is analysed through the call graph instead
                    tg = calls.callee(func, n)
                    if any(t.kind == "func" for t in tg):
                        continue
                    recv = f.value
                    # pure methods on persistent maps
                    if isinstance(recv, ast.Attribute):
                        rt = calls.type_of(func, recv.value)
                        if rt and (rt, recv.attr) in self.pmap_fields and f.attr in PMAP_PURE:
                            continue
                    if isinstance(recv, ast.Name) and self._is_pmap_local(func, recv.id) and f.attr in PMAP_PURE:
                        continue
                    out.append(Write(func, n, norm(n)[:90], loc_of(recv), "mutator:" + f.attr))
                elif isinstance(f, ast.Attribute) and f.attr in ("set", "reset") and isinstance(f.value, ast.Name) and self._is_context_cell(func, f.value.id):
                    # a module-level contextvars.ContextVar / threading.local: state shared by everything that runs in the same
                    # thread or task -- two validators interleaved there see each other's value
                    out.append(Write(func, n, norm(n)[:90], frozenset([("G", func.mod.name, f.value.id, "mutate")]), "context-cell:" + f.attr))
                elif isinstance(f, ast.Name) and f.id in ("setattr", "delattr") and n.args:
                    a0 = n.args[0]
                    bt = calls.type_of(func, a0)
                    attr = n.args[1].value if len(n.args) > 1 and isinstance(n.args[1], ast.Constant) else "*"
                    if bt:
                        loc = frozenset([("C", bt[4:], attr, "rebind")]) if bt.startswith("cls:") else frozenset([("FLD", bt, attr, "rebind")])
                    else:
                        loc = loc_of(a0)
                    out.append(Write(func, n, norm(n)[:90], loc, f.id))
        self._direct[func] = out
        return out

    def _is_context_cell(self, func, name):
        if name in func.all_params:
            return False
        r = self.prog.resolve_name(func.mod, name, func)
        if isinstance(r, tuple) and r[0] == "expr" and isinstance(r[2], ast.Call):
            return norm(r[2].func).split(".")[-1] in ("ContextVar", "local")
        return False

    def _is_pmap_local(self, func, name, _busy=()):
        """A local that only ever holds persistent maps: every binding is a pmap field, the result of a pure pmap method, or
        another such local.  (An unbound name -- a parameter -- is not one.)"""
        if name in _busy:
            return True
        seen = False
        for n in walk_body(func):
            if isinstance(n, ast.Assign) and any(isinstance(t, ast.Name) and t.id == name for t in n.targets):
                seen = True
                v = n.value
                if isinstance(v, ast.Attribute):
                    rt = self.calls.type_of(func, v.value)
                    if rt and (rt, v.attr) in self.pmap_fields:
                        continue
                    return False
                if isinstance(v, ast.Call) and isinstance(v.func, ast.Attribute) and v.func.attr in PMAP_PURE:
                    continue
                if isinstance(v, ast.Name) and v.id not in func.all_params and self._is_pmap_local(func, v.id, tuple(_busy) + (name,)):
                    continue
                return False
        return seen or name not in func.all_params

    def param_writes(self, func, _seen=None):
        """Set of this function's parameters whose object (or something reachable from it) may be mutated,
        directly or through callees: {param: [Write chain text]}."""
        if _seen is None:
            _seen = {}
        if func in _seen:
            return _seen[func]
        _seen[func] = {}
        res = {}
        env = self.origins(func)
        for w in self.direct_writes(func):
            for t in w.locs:
                if t[0] == "P":
                    res.setdefault(t[1], []).append(w)
        for (_n, call, targets) in self.calls.calls_in(func):
            for t in targets:
                gs = [t.func] if t.kind in ("func", "class") and t.func is not None else list(t.funcs)
                for g in gs:
                    sub = self.param_writes(g, _seen)
                    if not sub:
                        continue
                    binding = self._bind_args(func, call, g, dynamic=(t.kind == "dynamic"))
                    for p, ws in sub.items():
                        a = binding.get(p)
                        if a is None:
                            continue
                        for tg in self.expr_tags(func, a, env):
                            base = tg
                            if base[0] == "P":
                                res.setdefault(base[1], []).append(
                                    Write(func, call, norm(call)[:80], frozenset([base]), "via:" + g.qual))
        _seen[func] = res
        return res

    def nonlocal_writes(self, func):
        """Direct writes of func whose location is not a local/fresh object: list of (Write, tag)."""
        out = []
        for w in self.direct_writes(func):
            for t in w.locs:
                if t[0] in ("F", "EL"):
                    continue
                out.append((w, t))
        return out


def _flatten_targets(t):
    if isinstance(t, (ast.Tuple, ast.List)):
        out = []
        for e in t.elts:
            out += _flatten_targets(e)
        return out
    if isinstance(t, ast.Starred):
        return _flatten_targets(t.value)
    return [t]


_eff_cache = {}


def effects_of(prog):
    if id(prog) not in _eff_cache:
        _eff_cache[id(prog)] = Effects(prog)
    return _eff_cache[id(prog)]
