"""E1 (receiver typing by the package's own protocol) + E4 (call graph).

Types are short tags: "Validator", "RefResolver", "FormatChecker", "TypeChecker",
"URIDict", "ErrorTree", "Error", "Outputter", "PlainFormatter", "PrettyFormatter".
Roles of parameters holding user data: "validator", "value", "instance", "schema".
"""
import ast

from .prog import Func, Cls, AnalysisError, norm, walk_local, walk_body
from .cfg import cfg_of, node_exprs, walk_expr, reaching_defs, node_defs

BUILTINS = {
    "len", "isinstance", "set", "sorted", "list", "dict", "tuple", "iter", "next", "any", "all",
    "enumerate", "zip", "map", "repr", "str", "int", "float", "bool", "getattr", "setattr", "hasattr",
    "max", "min", "sum", "reversed", "open", "vars", "super", "type", "property", "staticmethod",
    "classmethod", "object", "frozenset", "range", "filter", "id", "print", "format", "callable", "issubclass",
}


class Target:
    """Resolved callee."""

    def __init__(self, kind, func=None, name=None, typ=None, funcs=()):
        self.kind = kind    # 'func' | 'ext' | 'builtin' | 'method' (on builtin container / external obj) | 'dynamic' | 'class' | 'unknown'
        self.func = func    # Func for kind func/class(__init__ may be None)
        self.name = name    # dotted name / method name / dynamic description
        self.typ = typ      # receiver type tag for methods / class name
        self.funcs = list(funcs)  # candidate Funcs for dynamic dispatch

    def __repr__(self):
        return "<T %s %s%s>" % (self.kind, self.name or (self.func.qual if self.func else ""),
                                 " x%d" % len(self.funcs) if self.funcs else "")


class Calls:
    def __init__(self, prog):
        self.prog = prog
        self.tables = prog.tables
        t = self.tables
        self.V = t.validator_cls
        self.type_cls = {
            "Validator": self.V,
            "RefResolver": prog.cls("validators.RefResolver"),
            "FormatChecker": prog.cls("_format.FormatChecker"),
            "TypeChecker": prog.cls("_types.TypeChecker"),
            "URIDict": prog.cls("_utils.URIDict"),
            "ErrorTree": prog.cls("exceptions.ErrorTree"),
            "Error": prog.cls("exceptions._Error"),
            "ValidationError": prog.cls("exceptions.ValidationError"),
            "SchemaError": prog.cls("exceptions.SchemaError"),
            "Outputter": prog.cls("cli._Outputter"),
            "PlainFormatter": prog.cls("cli._PlainFormatter"),
            "PrettyFormatter": prog.cls("cli._PrettyFormatter"),
        }
        self.cls_type = {c.qual: tag for tag, c in self.type_cls.items()}
        self.bases = {"ValidationError": "Error", "SchemaError": "Error"}
        # attribute protocol: (type, attr) -> type
        self.attr_types = {
            ("Validator", "resolver"): "RefResolver",
            ("Validator", "format_checker"): "FormatChecker",
            ("Validator", "TYPE_CHECKER"): "TypeChecker",
            ("RefResolver", "store"): "URIDict",
            ("Outputter", "_formatter"): "Formatter",
        }
        self.kwfuncs = t.keyword_funcs()
        self.format_funcs = None
        self._roles = {}
        self._local_types = {}
        self._edges = {}
        self._compute_roles()

    # ------------------------------------------------------------------ roles
    def _compute_roles(self):
        roles = self._roles
        for f in self.kwfuncs:
            ps = f.params
            if len(ps) != 4:
                raise AnalysisError("keyword function %s does not take 4 parameters" % f.qual)
            roles[f] = dict(zip(ps, ["validator", "value", "instance", "schema"]))
        for f in self.prog.funcs.values():
            r = roles.setdefault(f, {})
            if f.cls is not None and f.params:
                tag = self.cls_type.get(f.cls.qual)
                decos = [norm(d) for d in f.decorators]
                if tag and "staticmethod" not in decos:
                    r[f.params[0]] = ("cls:" if "classmethod" in decos else "") + tag
        # Validator methods: (instance, _schema)
        for name, m in self.V.methods.items():
            r = roles[m]
            for p in m.params[1:]:
                if p == "instance":
                    r[p] = "instance"
                elif p in ("_schema", "schema"):
                    r[p] = "schema"
        # the document a fragment is followed in is a schema document too (first argument of resolve_fragment)
        rc = self.prog.classes.get("validators.RefResolver")
        if rc is not None and "resolve_fragment" in rc.methods and len(rc.methods["resolve_fragment"].params) >= 2:
            roles[rc.methods["resolve_fragment"]].setdefault(rc.methods["resolve_fragment"].params[1], "schema")
        # propagate through calls by argument position
        changed = True
        n = 0
        while changed and n < 10:
            changed = False
            n += 1
            for f in list(self.prog.funcs.values()):
                fr = roles.get(f, {})
                if not fr:
                    continue
                for (_node, call, targets) in self.calls_in(f):
                    for t in targets:
                        if t.kind != "func" or t.func is None:
                            continue
                        g = t.func
                        gr = roles.setdefault(g, {})
                        gparams = g.params
                        off = 1 if (g.cls is not None and isinstance(call.func, ast.Attribute)
                                    and "staticmethod" not in [norm(d) for d in g.decorators]) else 0
                        for i, a in enumerate(call.args):
                            if isinstance(a, ast.Name) and a.id in fr and i + off < len(gparams):
                                role = fr[a.id]
                                if role in ("instance", "schema", "value", "validator") and gparams[i + off] not in gr:
                                    gr[gparams[i + off]] = role
                                    changed = True
                        for kw in call.keywords:
                            if kw.arg and isinstance(kw.value, ast.Name) and kw.value.id in fr and kw.arg in g.all_params:
                                role = fr[kw.value.id]
                                if role in ("instance", "schema", "value", "validator") and kw.arg not in gr:
                                    gr[kw.arg] = role
                                    changed = True
            self._edges.clear()

    def roles(self, func):
        return self._roles.get(func, {})

    def param_with_role(self, func, role):
        for p, r in self.roles(func).items():
            if r == role:
                return p
        return None

    # ------------------------------------------------------------------ typing
    def type_of(self, func, e, depth=0):
        """Type tag of expression e evaluated in func, or None."""
        if depth > 6:
            return None
        if isinstance(e, ast.Name):
            r = self.roles(func).get(e.id)
            if r == "validator":
                return "Validator"
            if r and r.startswith("cls:"):
                return r          # class object itself
            if r in self.type_cls:
                return r
            lt = self.local_types(func).get(e.id)
            if lt:
                return lt
            # closure variable of an enclosing function
            o = func.outer
            while o is not None:
                lt = self.local_types(o).get(e.id) or (
                    self.roles(o).get(e.id) if self.roles(o).get(e.id) in self.type_cls else None)
                if lt:
                    return lt
                o = o.outer
            # module-level instance
            r = self.prog.resolve_name(func.mod, e.id, func)
            if isinstance(r, Cls):
                tag = self.cls_type.get(r.qual)
                return "cls:" + tag if tag else None
            if isinstance(r, tuple) and r[0] == "expr" and isinstance(r[2], ast.Call):
                c = self.prog.resolve_expr(r[1], r[2].func)
                if isinstance(c, Cls) and c.qual in self.cls_type:
                    return self.cls_type[c.qual]
            return None
        if isinstance(e, ast.Attribute):
            bt = self.type_of(func, e.value, depth + 1)
            if bt:
                base = bt[4:] if bt.startswith("cls:") else bt
                if e.attr == "__class__":
                    return "cls:" + base
                return self.attr_types.get((base, e.attr))
            r = self.prog.resolve_expr(func.mod, e, func)
            if isinstance(r, Cls) and r.qual in self.cls_type:
                return "cls:" + self.cls_type[r.qual]
            return None
        if isinstance(e, ast.Call):
            ft = self.type_of(func, e.func, depth + 1)
            if ft and ft.startswith("cls:"):
                return ft[4:]
            if isinstance(e.func, ast.Name) and e.func.id == "type" and len(e.args) == 1:
                at = self.type_of(func, e.args[0], depth + 1)
                return "cls:" + at if at and not at.startswith("cls:") else None
            tg = self.callee(func, e)
            for t in tg:
                if t.kind == "func" and t.func is not None:
                    rt = self.return_type(t.func)
                    if rt:
                        return rt
                if t.kind == "dynamic" and t.name == "validator-class":
                    return "Validator"
            return None
        if isinstance(e, ast.Subscript):
            bt = self.type_of(func, e.value, depth + 1)
            if bt == "ErrorTree":
                return "ErrorTree"
            if isinstance(e.value, ast.Name):
                r = self.prog.resolve_name(func.mod, e.value.id, func)
                if isinstance(r, tuple) and r[0] == "expr":
                    v = r[2]
                    vals = None
                    if isinstance(v, ast.Dict):
                        vals = v.values
                    elif isinstance(v, ast.Call) and isinstance(v.func, ast.Name) and v.func.id == "dict" and not v.args:
                        vals = [kw.value for kw in v.keywords]
                    if vals:
                        fake = Func(r[1], r[1].name + ".<module>", ast.Lambda(args=ast.arguments(posonlyargs=[], args=[], kwonlyargs=[], kw_defaults=[], defaults=[]), body=ast.Constant(value=None), lineno=0, col_offset=0))
                        ts = {self.type_of(fake, x, depth + 1) for x in vals}
                        if len(ts) == 1 and None not in ts:
                            return ts.pop()
            if isinstance(e.value, ast.Attribute) and e.value.attr == "_contents":
                if self.type_of(func, e.value.value, depth + 1) == "ErrorTree":
                    return "ErrorTree"
            return None
        if isinstance(e, ast.IfExp):
            return self.type_of(func, e.body, depth + 1) or self.type_of(func, e.orelse, depth + 1)
        return None

    def return_type(self, g):
        if g.name == "from_schema" and g.cls is not None:
            return self.cls_type.get(g.cls.qual)
        if g.name == "from_arguments" and g.cls is not None:
            return self.cls_type.get(g.cls.qual)
        if g.name == "create_from":
            return "Error"
        if g.name in ("validator_for",):
            return "cls:Validator"
        if g.name in ("create", "extend"):
            return "cls:Validator"
        return None

    def local_types(self, func):
        if func in self._local_types:
            return self._local_types[func]
        out = {}
        self._local_types[func] = out
        for _pass in range(2):
            for n in walk_body(func):
                tgt = val = None
                if isinstance(n, ast.Assign) and len(n.targets) == 1 and isinstance(n.targets[0], ast.Name):
                    tgt, val = n.targets[0].id, n.value
                elif isinstance(n, ast.For) and isinstance(n.target, ast.Name):
                    # errors drawn from iter_errors/descend
                    it = n.iter
                    if isinstance(it, ast.Call) and isinstance(it.func, ast.Attribute) and it.func.attr in (
                            "iter_errors", "descend"):
                        out[n.target.id] = "Error"
                    elif isinstance(it, ast.Name) and it.id in ("errors", "context") and n.target.id == "error":
                        out[n.target.id] = "Error"
                    continue
                elif isinstance(n, ast.withitem) and isinstance(n.optional_vars, ast.Name):
                    continue
                if tgt is None:
                    continue
                t = self.type_of(func, val)
                if t:
                    if tgt in out and out[tgt] != t:
                        out[tgt] = None
                    else:
                        out[tgt] = t
        for k in [k for k, v in out.items() if v is None]:
            del out[k]
        # naming protocol for error objects
        for p in func.all_params:
            if p in ("error", "other", "best") and p not in self.roles(func):
                out.setdefault(p, "Error")
        return out

    def method(self, typ, name):
        seen = set()
        t = typ
        while t and t not in seen:
            seen.add(t)
            c = self.type_cls.get(t)
            if c is not None:
                if name in c.methods:
                    return c.methods[name]
                if name in c.aliases:
                    pass
                # class-level alias like cls_checks = classmethod(checks)
                if name in c.attrs:
                    v = c.attrs[name]
                    if isinstance(v, ast.Call) and isinstance(v.func, ast.Name) and v.func.id in (
                            "classmethod", "staticmethod", "property") and v.args and isinstance(v.args[0], ast.Name):
                        inner = v.args[0].id
                        if inner in c.methods:
                            return c.methods[inner]
                        r = self.prog.resolve_name(c.mod, inner)
                        if isinstance(r, Func):
                            return r
            t = self.bases.get(t)
        return None

    # ------------------------------------------------------------------ callees
    def callee(self, func, call):
        """List of Targets for a Call node evaluated inside func."""
        prog = self.prog
        f = call.func
        if isinstance(f, ast.Name):
            name = f.id
            # local variable holding a callable drawn from a registry?
            dyn = self._dynamic_local(func, name)
            if dyn:
                return [dyn]
            r = prog.resolve_name(func.mod, name, func)
            if isinstance(r, Func):
                return [Target("func", func=r)]
            if isinstance(r, Cls):
                return [self._class_target(r)]
            if isinstance(r, tuple):
                if r[0] == "ext":
                    return [Target("ext", name=r[1])]
                if r[0] == "expr":
                    v = r[2]
                    if isinstance(v, ast.Attribute) or isinstance(v, ast.Name):
                        rr = prog.resolve_expr(r[1], v)
                        if isinstance(rr, Func):
                            return [Target("func", func=rr)]
                        if isinstance(rr, tuple) and rr[0] == "ext":
                            return [Target("ext", name=rr[1])]
                    if isinstance(v, ast.Call):
                        # e.g. relevance = by_relevance()
                        inner = prog.resolve_expr(r[1], v.func)
                        if isinstance(inner, Func):
                            nested = [x for x in inner.nested.values() if isinstance(x, Func)]
                            if nested:
                                return [Target("func", func=nested[0])]
                    return [Target("unknown", name=name)]
            # parameter / closure parameter that is a callable
            if name in func.all_params or any(name in o.all_params for o in self._outers(func)):
                # id_of closure in create(): every draft's id_of
                if name == self._param_name_of_create("id_of"):
                    return [Target("dynamic", name="id_of", funcs=sorted({d.id_of for d in self.tables.drafts.values()}, key=lambda x: x.qual))]
                t = self.type_of(func, f)
                if t and t.startswith("cls:"):
                    c = self.type_cls.get(t[4:])
                    if c is not None:
                        return [self._class_target(c)]
                return [Target("dynamic", name="param:" + name)]
            if name in BUILTINS:
                return [Target("builtin", name=name)]
            t = self.type_of(func, f)
            if t and t.startswith("cls:"):
                return [self._class_target(self.type_cls[t[4:]])]
            return [Target("unknown", name=name)]
        if isinstance(f, ast.Attribute):
            # module attribute / class attribute
            r = prog.resolve_expr(func.mod, f, func)
            if isinstance(r, Func):
                return [Target("func", func=r)]
            if isinstance(r, Cls):
                return [self._class_target(r)]
            if isinstance(r, tuple) and r[0] == "ext":
                return [Target("ext", name=r[1])]
            # typed receiver
            rt = self.type_of(func, f.value)
            if rt:
                base = rt[4:] if rt.startswith("cls:") else rt
                if base == "Formatter":
                    cands = [m for tag in ("PlainFormatter", "PrettyFormatter")
                             for m in [self.method(tag, f.attr)] if m]
                    if cands:
                        return [Target("func", func=m) for m in cands]
                m = self.method(base, f.attr)
                if m is not None:
                    return [Target("func", func=m)]
                # callable attributes with known identity
                if base == "RefResolver" and f.attr == "_remote_cache":
                    return [Target("func", func=self.method("RefResolver", "resolve_from_url"))]
                if base == "RefResolver" and f.attr == "_urljoin_cache":
                    return [Target("ext", name="urllib.parse.urljoin")]
                if base == "Validator" and f.attr == "ID_OF":
                    return [Target("dynamic", name="id_of", funcs=sorted({d.id_of for d in self.tables.drafts.values()}, key=lambda x: x.qual))]
                if base == "URIDict" and f.attr in ("update", "get", "items", "keys", "values", "pop", "setdefault", "clear", "popitem"):
                    return [Target("method", name=f.attr, typ="URIDict")]
                return [Target("method", name=f.attr, typ=base)]
            # subscripted registries: self.handlers[scheme](uri)
            return [Target("method", name=f.attr, typ=None)]
        if isinstance(f, ast.Subscript):
            v = f.value
            if isinstance(v, ast.Attribute) and v.attr == "handlers":
                return [Target("dynamic", name="handler")]
            return [Target("dynamic", name="subscript:" + norm(v))]
        if isinstance(f, ast.Call):
            # decorator-factory application f(x)(y): resolve inner
            inner = self.callee(func, f)
            outs = []
            for t in inner:
                if t.kind == "func" and t.func is not None:
                    nested = [x for x in t.func.nested.values() if isinstance(x, Func)]
                    outs += [Target("func", func=n) for n in nested]
                elif t.kind == "ext":
                    outs.append(Target("ext", name=t.name + "()"))
            return outs or [Target("unknown", name=norm(f)[:40])]
        return [Target("unknown", name=norm(f)[:40])]

    def _outers(self, func):
        o = func.outer
        while o is not None:
            yield o
            o = o.outer

    def _param_name_of_create(self, which):
        return which if which in self.tables.create.all_params else None

    def _class_target(self, c):
        init = None
        tag = self.cls_type.get(c.qual)
        if tag:
            init = self.method(tag, "__init__")
        elif "__init__" in c.methods:
            init = c.methods["__init__"]
        return Target("class", func=init, typ=tag or c.name, name=c.qual)

    def _dynamic_local(self, func, name):
        """Is `name` a local whose value is drawn from a registry of callables?"""
        srcs = []
        for n in walk_body(func):
            if isinstance(n, ast.Assign):
                for t in n.targets:
                    names = [t.id] if isinstance(t, ast.Name) else (
                        [e.id for e in t.elts if isinstance(e, ast.Name)] if isinstance(t, (ast.Tuple, ast.List)) else [])
                    if name in names:
                        srcs.append(n.value)
        if not srcs or name in func.all_params:
            return None
        for v in srcs:
            txt = norm(v)
            if ".VALIDATORS" in txt:
                return Target("dynamic", name="keyword-dispatch", funcs=sorted(self.kwfuncs, key=lambda x: x.qual))
            if ".checkers[" in txt or ".checkers.get(" in txt:
                return Target("dynamic", name="format-dispatch", funcs=self.registered_format_funcs())
            if "._type_checkers[" in txt or "._type_checkers.get(" in txt:
                fs = sorted({fn for d in self.tables.drafts.values() for fn in d.types.values()}, key=lambda x: x.qual)
                return Target("dynamic", name="type-dispatch", funcs=fs)
            if isinstance(v, ast.Call) and isinstance(v.func, ast.Name) and v.func.id == "getattr":
                # resolve = getattr(validator.resolver, "resolve", None)
                if len(v.args) >= 2 and isinstance(v.args[1], ast.Constant):
                    rt = self.type_of(func, v.args[0])
                    if rt:
                        m = self.method(rt, v.args[1].value)
                        if m:
                            return Target("func", func=m)
        return None

    def registered_format_funcs(self):
        if self.format_funcs is None:
            from .formats import format_registry
            self.format_funcs = sorted({e.func for e in format_registry(self.prog)}, key=lambda x: x.qual)
        return self.format_funcs

    # --------------------------------------------------------------- call graph
    def calls_in(self, func):
        """[(cfg node or None, ast.Call, [Target])] for every call lexically in func (not nested defs)."""
        if func in self._edges:
            return self._edges[func]
        out = []
        seen = set()
        for n in walk_body(func):
            if isinstance(n, ast.Call) and id(n) not in seen:
                seen.add(id(n))
                out.append((None, n, self.callee(func, n)))
        if isinstance(func.node, ast.Lambda):
            pass
        self._edges[func] = out
        return out

    def successors(self, func):
        """Package functions that may be invoked (directly) by func, incl. dynamic dispatch, properties and
        generator/context-manager protocol."""
        out = set()
        for (_n, call, targets) in self.calls_in(func):
            for t in targets:
                if t.kind in ("func", "class") and t.func is not None:
                    out.add(t.func)
                if t.kind == "dynamic":
                    out.update(t.funcs)
        # property reads
        for n in walk_body(func):
            if isinstance(n, ast.Attribute) and isinstance(n.ctx, ast.Load):
                rt = self.type_of(func, n.value)
                if rt and not rt.startswith("cls:"):
                    m = self.method(rt, n.attr)
                    if m is not None and any(norm(d) in ("property",) for d in m.decorators):
                        out.add(m)
            # subscript protocol on package classes
            if isinstance(n, ast.Subscript):
                rt = self.type_of(func, n.value)
                if rt in ("ErrorTree", "URIDict"):
                    for dn in ("__getitem__", "__setitem__", "__delitem__"):
                        m = self.method(rt, dn)
                        if m is not None:
                            out.add(m)
            if isinstance(n, ast.Compare) and any(isinstance(o, (ast.In, ast.NotIn)) for o in n.ops):
                for c in n.comparators:
                    rt = self.type_of(func, c)
                    if rt in ("ErrorTree", "URIDict"):
                        m = self.method(rt, "__contains__") or self.method(rt, "__getitem__")
                        if m is not None:
                            out.add(m)
        # nested defs are considered callable from their definer
        for x in func.nested.values():
            if isinstance(x, Func):
                out.add(x)
        return out

    def registration_writers(self, which):
        """The functions that *are* the act of registering: the function validates() / FormatChecker.checks() hands back
        (whatever it is called), and helpers every one of whose call sites lies inside such a function (a `_register(version, cls)`
        split out of the decorator).  which: "validators" | "formats"."""
        key = ("regw", which)
        if key in self._edges:
            return self._edges[key]
        if which == "validators":
            outer = self.prog.func("validators.validates")
        else:
            outer = self.prog.cls("_format.FormatChecker").methods["checks"]
        ws = self.with_private_helpers({x for x in outer.nested.values() if isinstance(x, Func)})
        self._edges[key] = ws
        return ws

    def with_private_helpers(self, base):
        """base plus the module-level private functions (`_name`) of the same modules every one of whose call sites lies inside
        the set: a step of one of the base functions split out under its own name."""
        if ("preds",) not in self._edges:
            preds = {}
            for f in self.prog.funcs.values():
                for g in self.successors(f):
                    if not (isinstance(g, Func) and g in f.nested.values() and not any(
                            isinstance(n, ast.Call) and any(t.kind == "func" and t.func is g for t in self.callee(f, n)) for n in walk_body(f))):
                        preds.setdefault(g, set()).add(f)
            self._edges[("preds",)] = preds
        preds = self._edges[("preds",)]
        ws = set(base)
        mods = {f.mod for f in ws}
        classes = {f.cls for f in ws if f.cls is not None}
        changed = True
        while changed:
            changed = False
            for g, ps in preds.items():
                private = g.name.startswith("_") and not g.name.startswith("__")
                home = (g.cls is None and g.mod in mods) or (g.cls is not None and g.cls in classes)      # a private function of the module, or method of the class
                if g not in ws and g.outer is None and home and ps and ps <= ws | {g} and private:
                    ws.add(g)
                    changed = True
        return ws

    def reachable(self, roots):
        seen = set()
        todo = list(roots)
        while todo:
            f = todo.pop()
            if f in seen:
                continue
            seen.add(f)
            todo.extend(self.successors(f))
        return seen

    def validation_roots(self):
        V = self.V
        roots = [V.methods[m] for m in ("iter_errors", "descend", "is_valid", "validate", "is_type") if m in V.methods]
        roots += list(self.kwfuncs)
        fc = self.type_cls["FormatChecker"]
        roots += [fc.methods[m] for m in ("check", "conforms") if m in fc.methods]
        rr = self.type_cls["RefResolver"]
        roots += [m for name, m in rr.methods.items() if name not in ("__init__", "from_schema")]
        tc = self.type_cls["TypeChecker"]
        roots += [tc.methods["is_type"]]
        roots += [fn for d in self.tables.drafts.values() for fn in d.types.values()]
        roots += [d.id_of for d in self.tables.drafts.values()]
        return roots


_calls_cache = {}


def calls_of(prog):
    if id(prog) not in _calls_cache:
        _calls_cache[id(prog)] = Calls(prog)
    return _calls_cache[id(prog)]
