"""E5 part 3: call semantics (builtins, container methods, package functions by inlining, external callees by model)."""
import ast

from .prog import Func, Cls, norm
from .kinds import AV, ANY, BOTTOM, JSON_KINDS, NUM, join, join_all, const_av
from .model import CALLEE_RAISES_ON_STR, base_name
from .interp import ITERABLE, HASHABLE, EMPTY_LIST, obj, is_obj, obj_types, METHODS

PURE_EXT = {"itertools.islice", "itertools.chain", "collections.deque", "collections.defaultdict", "warnings.warn", "pprint.pformat",
            "textwrap.dedent", "textwrap.indent", "functools.lru_cache", "contextlib.contextmanager", "attr.evolve", "attr.ib", "attr.s",
            "sys.exc_info", "traceback.format_exception"}


def eval_args(I, e, s):
    args = []
    for a in e.args:
        if isinstance(a, ast.Starred):
            v = I.eval(a.value, s)
            args.append(v.elem_av() if v.kinds & ITERABLE else AV(["opaque"]))
        else:
            args.append(I.eval(a, s))
    kwargs = {}
    for k in e.keywords:
        v = I.eval(k.value, s)
        if k.arg is not None:
            kwargs[k.arg] = v
    return args, kwargs


def iter_check(I, v, node, what):
    bad = v.kinds - ITERABLE - frozenset(["opaque"]) - frozenset(k for k in v.kinds if k.startswith("obj:"))
    I.need(not bad, "TypeError", node, "%s over a non-iterable" % what, v.describe())


def do_call(I, e, s):
    f = e.func
    # ---- method call
    if isinstance(f, ast.Attribute):
        recv = I.eval(f.value, s)
        args, kwargs = eval_args(I, e, s)
        return method_call(I, e, s, recv, f.attr, args, kwargs)
    fv = I.eval(f, s) if not isinstance(f, ast.Name) or f.id in s.env else None
    if isinstance(f, ast.Name) and f.id not in s.env:
        name = f.id
        r = I.prog.resolve_name(I.cur_func.mod, name, I.cur_func)
        args, kwargs = eval_args(I, e, s)
        if isinstance(r, Func):
            return call_package(I, e, s, r, args, kwargs)
        if isinstance(r, Cls):
            return construct(I, e, s, I.calls.cls_type.get(r.qual) or r.name, args, kwargs, r)
        if isinstance(r, tuple) and r[0] == "ext":
            return call_ext(I, e, s, r[1], args, kwargs)
        if isinstance(r, tuple) and r[0] == "expr":
            v = I.module_value(r[1], name, r[2])
            return call_value(I, e, s, v, args, kwargs)
        if name in BUILTIN_IMPL:
            return BUILTIN_IMPL[name](I, e, s, args, kwargs)
        # closure callables (id_of in create)
        o = I.cur_func.outer
        while o is not None:
            if name in o.all_params:
                if name == "id_of":
                    return call_value(I, e, s, AV(["func"], const=("id_of",)), args, kwargs)
                return AV(["opaque"])
            o = o.outer
        I.unmodelled.append("call of %s in %s" % (name, I.cur_func.qual))
        return AV(["opaque"])
    args, kwargs = eval_args(I, e, s)
    return call_value(I, e, s, fv, args, kwargs)


def call_value(I, e, s, fv, args, kwargs):
    """Call an abstract callable value."""
    c = fv.const
    outs = []
    if c is not None:
        if c[0] == "func":
            return call_package(I, e, s, c[1], args, kwargs)
        if c[0] == "bound":
            return call_package(I, e, s, c[1], [c[2]] + args, kwargs)
        if c[0] == "ext":
            return call_ext(I, e, s, c[1], args, kwargs)
        if c[0] == "builtin" and c[1] in BUILTIN_IMPL:
            return BUILTIN_IMPL[c[1]](I, e, s, args, kwargs)
        if c[0] == "cls":
            return construct(I, e, s, I.calls.cls_type.get(c[1].qual) or c[1].name, args, kwargs, c[1])
        if c[0] == "id_of":
            outs = [call_package(I, e, s, I.dr.id_of, args, kwargs)]
            return join_all(outs)
        if c[0] == "kwfunc":
            # the dispatcher's call of a keyword function: each (keyword, function) is analysed on its own with the shapes its
            # keyword admits; here only the documented exceptions may come back
            for x in sorted(I.allowed):
                I.raise_(x, e, "keyword function (analysed separately)")
            return AV(["gen", "null"], elem=AV(["err"]))
        if c[0] == "typefn":
            rets = []
            for fn in sorted(set(I.dr.types.values()), key=lambda x: x.qual):
                rets.append(call_package(I, e, s, fn, args, kwargs))
            return AV(["bool"])
        if c[0] == "checker":
            # a registered format function: by contract it raises only what its `raises` lists (custom checkers are outside C03)
            I.raise_("CheckerRaises", e, "registered format function")
            out = AV(["opaque", "bool"])
            if len(e.args) == 1 and isinstance(e.args[0], ast.Name):
                out.norm_tag = "checker-result:" + e.args[0].id
            return out
        if c[0] == "handler":
            I.raise_("AnyException", e, "retrieval handler")
            return ANY
        if c[0] == "method":
            return AV(["opaque"])
    for k in fv.kinds:
        if k.startswith("cls:"):
            return construct(I, e, s, k[4:], args, kwargs, None)
    if "func" in fv.kinds or "opaque" in fv.kinds:
        return AV(["opaque"])
    I.need(False, "TypeError", e, "call of a non-callable %s" % norm(e.func)[:40], fv.describe())
    return BOTTOM


def call_package(I, e, s, g, args, kwargs):
    # context managers / generators: effects are attributed at the call
    # translate key-of facts through parameter names
    # "key K is present in <argument>" facts established by the caller hold for the corresponding parameter of the callee
    facts = set()
    gp = g.params
    # a method reached through its receiver (`x.m(a)`): the receiver is the first parameter, the written arguments follow
    shift = 1 if (isinstance(e.func, ast.Attribute) and len(args) == len(e.args) + 1 and gp) else 0
    for i, a in enumerate(e.args):
        if i + shift < len(gp) and isinstance(a, (ast.Name, ast.Attribute)):
            cname = norm(a)
            for (d, k) in s.present:
                if d == cname and k[0] == "c":
                    facts.add((gp[i + shift], k))
    for kw in e.keywords:
        if kw.arg and isinstance(kw.value, (ast.Name, ast.Attribute)):
            cname = norm(kw.value)
            for (d, k) in s.present:
                if d == cname and k[0] == "c":
                    facts.add((kw.arg, k))
    sib = {}
    for i, a in enumerate(e.args):
        if i + shift < len(gp) and isinstance(a, ast.Name):
            for (var, key), v in s.sib.items():
                if var == a.id:
                    sib[(gp[i + shift], key)] = v
    for kw in e.keywords:
        if kw.arg and isinstance(kw.value, ast.Name):
            for (var, key), v in s.sib.items():
                if var == kw.value.id:
                    sib[(kw.arg, key)] = v
    # the scope stack may be different after any call into the package
    s.present = {f for f in s.present if f[0] != "__url_ok__" and not f[0].endswith(".__url_ok_if_nonempty__")}
    # callee parameter -> the caller's expression for it (receiver included), for the facts the callee establishes on every exit
    p2a = {}
    explicit = list(e.args)
    off = 0
    if isinstance(e.func, ast.Attribute) and len(args) == len(explicit) + 1 and gp:
        p2a[gp[0]] = norm(e.func.value)
        off = 1
    for i, a in enumerate(explicit):
        if i + off < len(gp) and isinstance(a, (ast.Name, ast.Attribute)):
            p2a[gp[i + off]] = norm(a)
    for kw in e.keywords:
        if kw.arg and isinstance(kw.value, (ast.Name, ast.Attribute)):
            p2a[kw.arg] = norm(kw.value)
    # a function defined inside the caller reads the caller's variables as they are now
    closure = dict(s.env) if (g.outer is not None and g.outer is I.cur_func) else None
    I.last_exit_facts = frozenset()
    ret = I.call_func(g, args, kwargs, node=e, present=frozenset(facts), sib=sib, closure_env=closure)
    for (d, k) in getattr(I, "last_exit_facts", ()):
        def to_caller(text):
            head, _dot, rest = text.partition(".")
            return (p2a[head] + _dot + rest) if head in p2a else None
        if d == "__url_ok__":
            t = to_caller(k)
            if t is not None:
                s.present.add(("__url_ok__", t))
        elif d.endswith(".__url_ok_if_nonempty__"):
            pn = d[:-len(".__url_ok_if_nonempty__")]
            t = to_caller(k[1])
            if t is not None and pn in p2a and "." not in p2a[pn]:
                s.present.add((p2a[pn] + ".__url_ok_if_nonempty__", ("u", t)))
    I.last_exit_facts = frozenset()
    # rename keys_of facts from callee parameter names to caller argument names
    def rename(av, depth=0):
        if av is None or depth > 2:
            return av
        ko = set()
        for nm in av.keys_of:
            for i, p in enumerate(g.params):
                off = shift
                if p == nm and i - off >= 0 and i - off < len(e.args) and isinstance(e.args[i - off], ast.Name):
                    ko.add(e.args[i - off].id)
            for k in e.keywords:
                if k.arg == nm and isinstance(k.value, ast.Name):
                    ko.add(k.value.id)
        new = av.copy(keys_of=frozenset(ko)) if (av.keys_of or ko) else av
        if av.elem is not None and av.elem is not ANY and av.elem is not av:
            ne = rename(av.elem, depth + 1)
            if ne is not av.elem:
                new = new.copy(elem=ne)
        return new
    return rename(ret)


def construct(I, e, s, t, args, kwargs, cls):
    if t in ("ValidationError", "SchemaError", "Error"):
        return AV(["err"])
    if t in ("RefResolutionError", "UnknownType", "UndefinedTypeCheck", "FormatError", "_CannotLoadFile", "_DontDoThat"):
        return AV(["err"], const=("exc", t))
    if t in I.calls.type_cls:
        init = I.calls.method(t, "__init__")
        if init is not None and t in ("RefResolver", "ErrorTree", "URIDict", "FormatChecker"):
            I.call_func(init, [obj(t)] + args, kwargs, node=e)
        elif t == "Validator" and init is not None:
            I.call_func(init, [obj(t)] + args, kwargs, node=e)
        return obj(t)
    return AV(["opaque"])


def call_ext(I, e, s, name, args, kwargs):
    short = name
    if name.endswith("parse.unquote") or name == "unquote":
        # the default error handler ("replace") never fails; `errors="strict"` makes an escape that is not UTF-8 (%ff) raise
        em = kwargs.get("errors") if kwargs else None
        if em is None and len(args) > 2:
            em = args[2]
        if em is not None and not (em.const is not None and em.const[0] == "c" and em.const[1] in ("replace", "ignore")):
            I.raise_("UnicodeDecodeError", e, "unquote(..., errors=%s)" % (em.const[1] if em.const else "?"))
    if name in CALLEE_RAISES_ON_STR:
        for a in args[:1] if (name.endswith("unquote")) else args:
            I.need(a.kinds <= frozenset(["str", "opaque"]), "TypeError", e, "%s on a non-string" % name, a.describe())
        # urljoin / urldefrag / urlsplit raise ValueError for one reason: the URL (the base, for urljoin) does not parse.  A second
        # parse of the resolver's current scope on a path where the first one returned cannot raise: `url = join(self.resolution_scope,
        # ref)` followed by `self.base_uri`.  The fact lives in the path state (intersected at joins, dropped at any package call).
        a0 = e.args[0] if e.args else None
        scope_fact = ("__url_ok__", norm(a0)) if isinstance(a0, ast.Attribute) and a0.attr == "resolution_scope" \
            and name.split(".")[-1] in ("urljoin", "urldefrag", "urlsplit", "urlparse") else None
        for x in CALLEE_RAISES_ON_STR[name]:
            if x == "ValueError" and scope_fact is not None and s is not None and scope_fact in s.present and name.split(".")[-1] != "urljoin":
                continue
            I.raise_(x, e, "%s(%s)" % (name, ", ".join(norm(a)[:25] for a in e.args)))
        if scope_fact is not None and s is not None:
            if name.split(".")[-1] != "urljoin":
                s.present.add(scope_fact)
            elif len(e.args) > 1 and isinstance(e.args[1], ast.Name):
                # urljoin(base, url) parses the base unless url is empty: the fact becomes usable where the path knows url is not
                # empty (`url.startswith("#")`, see Interp.refine); it is dropped when that name is assigned again
                s.present.add((e.args[1].id + ".__url_ok_if_nonempty__", ("u", norm(a0))))
        if name.endswith("urldefrag"):
            return AV(["tuple"], items=(AV(["str"]), AV(["str"])))
        if name.endswith("urlsplit"):
            return obj("SplitResult")
        if name.endswith("json.loads") or name.endswith("json.load"):
            return ANY
        return AV(["str"])
    if name.startswith("operator.") and name.split(".")[-1] in ("lt", "le", "gt", "ge", "<ordering>", "eq", "ne"):
        # the function form of a comparison: same demands on the operands as the operator
        if name.split(".")[-1] not in ("eq", "ne") and len(args) == 2:
            left, right = args
            num = frozenset(["int", "float", "bool", "obj:Fraction"])
            ok = (left.kinds <= num and right.kinds <= num) or (left.kinds <= frozenset(["str"]) and right.kinds <= frozenset(["str"])) \
                or (left.kinds <= frozenset(["tuple"]) and right.kinds <= frozenset(["tuple"])) \
                or (left.kinds <= frozenset(["opaque"]) and right.kinds <= frozenset(["opaque"]))
            I.need(ok, "TypeError", e, "ordering comparison between values that may not be comparable: %s" % norm(e)[:50], "%s vs %s" % (left.describe(), right.describe()))
        I.need(len(args) == 2 and not kwargs, "TypeError", e, "%s takes two operands" % name)
        return AV(["bool"])
    if name in ("functools.reduce", "reduce") and len(args) >= 2:
        # reduce(f, xs[, init]): f is applied to (what came out so far, next element) for every element
        fv, xs = args[0], args[1]
        iter_check(I, xs, e, "reduce")
        el = xs.elem_av() if xs.kinds & ITERABLE else AV(["opaque"])
        acc = args[2] if len(args) > 2 else el
        for _ in range(2):
            acc = join(acc, call_value(I, e, s, fv, [acc, el], {}))
        return acc
    if name.startswith("math."):
        fn = name.split(".")[-1]
        numk = frozenset(["int", "float", "bool"])
        for a in args:
            I.need(a.kinds <= numk, "TypeError", e, "%s of a non-number" % name, a.describe())
            # math functions work on C doubles: an integer beyond 1.8e308 cannot be converted
            I.need(not ("int" in a.kinds and a.big), "OverflowError", e, "%s converts an integer of unbounded size to a float" % name, a.describe())
        if fn in ("isnan", "isinf", "isfinite"):
            return AV(["bool"])
        if fn in ("floor", "ceil", "trunc"):
            for a in args:
                I.need(not ("float" in a.kinds), "OverflowError", e, "%s of a float that may be infinite" % name, a.describe())
            return AV(["int"])
        if fn in ("fmod", "remainder"):
            if len(args) > 1:
                I.need(args[1].pos or (args[1].const is not None and args[1].const[0] == "c" and args[1].const[1]), "ValueError", e, "%s by a value not known to be non-zero" % name, args[1].describe())
            return AV(["float"])
        return AV(["float"])
    if name.startswith("re."):
        fn = name.split(".")[-1]
        if fn in ("search", "match", "fullmatch", "compile", "sub", "split", "findall"):
            pat = args[0] if args else AV(["opaque"])
            I.need(pat.kinds <= frozenset(["str", "opaque"]), "TypeError", e, "%s with a non-string pattern" % name, pat.describe())
            for a in args[1:2]:
                I.need(a.kinds <= frozenset(["str", "opaque"]), "TypeError", e, "%s on a non-string subject" % name, a.describe())
            # proviso of C03: every regular expression *written in the schema* compiles; a pattern assembled at run time is not covered
            verbatim = not (e.args and isinstance(e.args[0], (ast.BinOp, ast.JoinedStr)) or
                            (e.args and isinstance(e.args[0], ast.Call) and isinstance(e.args[0].func, ast.Attribute) and e.args[0].func.attr in ("join", "format")))
            if e.args and isinstance(e.args[0], ast.Name):
                v = s.env.get(e.args[0].id)
                if v is not None and getattr(v, "norm_tag", False) == "assembled":
                    verbatim = False
            if not verbatim:
                I.raise_("re.error", e, "%s with a pattern assembled from several schema strings" % name)
            return AV(["match", "null"]) if fn != "compile" else obj("Pattern")
    if name in PURE_EXT or name.split(".")[-1] in ("islice", "chain", "deque", "defaultdict", "warn", "pformat", "dedent", "indent", "lru_cache"):
        last = name.split(".")[-1]
        if last in ("islice", "chain"):
            for a in args[:1]:
                iter_check(I, a, e, last)
            return AV(["gen"], elem=join_all([a.elem_av() for a in args if a.kinds & ITERABLE]) if args else BOTTOM,
                      nonempty=(last == "chain" and any(a.nonempty for a in args)))
        if last == "deque":
            if args:
                iter_check(I, args[0], e, "deque")
            return AV(["obj:deque"], elem=args[0].elem_av() if args and args[0].kinds & ITERABLE else BOTTOM)
        if last == "defaultdict":
            return AV(["obj:defaultdict"])
        if last == "lru_cache":
            return AV(["func"])
        return AV(["opaque"]) if last in ("warn",) else AV(["str"])
    if name.endswith("Fraction"):
        for a in args:
            I.need(a.kinds <= frozenset(["int", "float", "bool", "obj:Fraction", "str"]), "TypeError", e, "Fraction of a non-number", a.describe())
        out = AV(["obj:Fraction"], pos=bool(args) and all(a.pos for a in args))
        return out
    if name.endswith("urlopen") or "requests" in name:
        I.raise_("AnyException", e, name)
        return AV(["opaque"])
    if name.endswith("pkgutil.get_data") or name.endswith("namedAny"):
        return AV(["opaque"])
    I.unmodelled.append("external %s in %s" % (name, I.cur_func.qual))
    return AV(["opaque"])


# --------------------------------------------------------------------------- methods
def method_call(I, e, s, recv, attr, args, kwargs):
    outs = []
    handled_any = False
    # module attribute call: re.search(...), _utils.equal(...)
    if "module" in recv.kinds and recv.const and recv.const[0] == "ext":
        modname = recv.const[1]
        if modname in I.prog.mods:
            r = I.prog.resolve_name(I.prog.mods[modname], attr)
            if isinstance(r, Func):
                return call_package(I, e, s, r, args, kwargs)
            if isinstance(r, Cls):
                return construct(I, e, s, I.calls.cls_type.get(r.qual) or r.name, args, kwargs, r)
            if isinstance(r, tuple) and r[0] == "expr":
                return call_value(I, e, s, I.module_value(r[1], attr, r[2]), args, kwargs)
        return call_ext(I, e, s, modname + "." + attr, args, kwargs)
    if "func" in recv.kinds and recv.const and recv.const[0] == "ext":
        return call_ext(I, e, s, recv.const[1] + "." + attr, args, kwargs)
    for k in sorted(recv.kinds):
        if k.startswith("obj:") or k.startswith("cls:"):
            t = k[4:]
            outs.append(obj_method(I, e, s, t, recv, attr, args, kwargs, is_cls=k.startswith("cls:")))
        elif k == "err":
            outs.append(obj_method(I, e, s, "Error", recv, attr, args, kwargs))
        elif k in ("opaque", "func", "sentinel", "match", "module"):
            outs.append(AV(["opaque"]))
        elif k in METHODS:
            if attr not in METHODS[k]:
                I.need(False, "AttributeError", e, ".%s() on a %s value: %s" % (attr, {"null": "null", "bool": "boolean", "int": "integer", "float": "number",
                                                                                     "str": "string", "list": "array", "dict": "object"}.get(k, k), norm(e)[:60]), recv.describe())
            else:
                outs.append(container_method(I, e, s, k, recv, attr, args, kwargs))
    return join_all(outs) if outs else BOTTOM


def container_method(I, e, s, k, recv, attr, args, kwargs):
    if k == "dict":
        if attr == "items":
            key = AV(["str"])
            if isinstance(e.func.value, ast.Name):
                key = key.copy(keys_of=[e.func.value.id])
            return AV(["gen"], elem=AV(["tuple"], items=(key, recv.vals_av())))
        if attr == "keys":
            key = AV(["str"])
            if isinstance(e.func.value, ast.Name):
                key = key.copy(keys_of=[e.func.value.id])
            return AV(["gen"], elem=key)
        if attr == "values":
            return AV(["gen"], elem=recv.vals_av())
        if attr == "get":
            I.need(not (args and args[0].kinds & frozenset(["list", "dict", "set"])), "TypeError", e, "unhashable key in .get()", args[0].describe() if args else "")
            pl = I.sibling_place(e, s)
            if pl is not None:
                return I.peek(e, s)
            d = args[1] if len(args) > 1 else AV(["null"])
            return join(recv.vals_av(), d)
        if attr in ("copy",):
            return recv
        if attr in ("update", "clear"):
            return AV(["null"])
        if attr in ("pop", "setdefault", "popitem"):
            return join(recv.vals_av(), args[1] if len(args) > 1 else BOTTOM)
    if k == "list":
        if attr in ("append", "extend", "insert", "sort", "reverse", "clear", "remove"):
            if attr == "extend" and args:
                iter_check(I, args[0], e, "extend")
            if attr == "sort":
                el = recv.elem_av()
                I.need(len(el.kinds) <= 1 or el.kinds <= frozenset(["int", "float", "bool"]), "TypeError", e, "sort of mixed kinds", el.describe())
            # record growth on a local list
            if attr in ("append", "extend") and isinstance(e.func.value, ast.Name) and e.func.value.id in s.env and args:
                cur = s.env[e.func.value.id]
                add = args[0] if attr == "append" else args[0].elem_av()
                s.env[e.func.value.id] = AV(["list"], elem=join(cur.elem_av() if cur.elem is not None and not (cur.const == EMPTY_LIST) else BOTTOM, add),
                                             nonempty=(attr == "append") or cur.nonempty)
            return AV(["null"])
        if attr == "pop":
            I.need(recv.nonempty, "IndexError", e, "pop from a possibly empty list", recv.describe())
            return recv.elem_av()
        if attr in ("index",):
            I.raise_("ValueError", e, "list.index")
            return AV(["int"], big=False)
        if attr in ("count",):
            return AV(["int"], big=False)
        if attr == "copy":
            return recv
    if k == "str":
        for a in args:
            if attr in ("replace", "split", "rsplit", "lstrip", "rstrip", "strip", "startswith", "endswith", "find", "partition", "rpartition", "count",
                        "removeprefix", "removesuffix"):
                I.need(a.kinds <= frozenset(["str", "null", "int", "tuple", "opaque"]), "TypeError", e, "str.%s argument" % attr, a.describe())
        if attr in ("split", "rsplit", "splitlines"):
            return AV(["list"], elem=AV(["str"]), nonempty=True)
        if attr in ("startswith", "endswith", "isdigit", "isascii", "isalpha", "isalnum", "isnumeric", "isdecimal"):
            return AV(["bool"])
        if attr == "join":
            if args:
                iter_check(I, args[0], e, "join")
                el = args[0].elem_av()
                I.need(el.kinds <= frozenset(["str", "opaque"]), "TypeError", e, "join of non-string items: %s" % norm(e)[:50], el.describe())
            out = AV(["str"])
            out.norm_tag = "assembled"
            return out
        if attr == "format":
            for a in list(args) + list(kwargs.values()):
                I.to_text(a, e, "str.format")
            out = AV(["str"])
            return out
        if attr in ("find", "count", "index"):
            return AV(["int"], big=False)
        if attr == "encode":
            return AV(["opaque"])
        if attr in ("partition", "rpartition"):
            return AV(["tuple"], items=(AV(["str"]), AV(["str"]), AV(["str"])))
        return AV(["str"])
    if k == "float":
        if attr == "is_integer":
            return AV(["bool"])
        return AV(["opaque"])
    if k == "int":
        if attr == "is_integer":
            return AV(["bool"])
        return AV(["int"], big=False)
    if k in ("set",):
        if attr in ("add", "update", "discard", "remove", "clear"):
            return AV(["null"])
        return recv
    if k == "tuple":
        return AV(["int"], big=False)
    if k == "gen":
        return AV(["null"])
    return AV(["opaque"])


def obj_method(I, e, s, t, recv, attr, args, kwargs, is_cls=False):
    V = I.calls.V
    if t == "Validator":
        if attr in ("descend", "is_valid", "iter_errors") and not (I.cur_func is not None and I.cur_func.cls is V and attr == "iter_errors" and I.cur_func.name in ("descend", "is_valid", "validate")):
            # summary: the recursive validation needs a schema-shaped second argument and may raise the documented exceptions
            m = V.methods[attr]
            ps = m.params[1:]
            b = dict(zip(ps, args))
            b.update(kwargs)
            sch = b.get(ps[1])
            if sch is not None:
                ok_kinds = frozenset(["dict"]) | (frozenset(["bool"]) if I.draft in ("draft6", "draft7") else frozenset()) | (frozenset(["null"]) if attr != "descend" else frozenset())
                shaped = sch.kinds <= ok_kinds and ("dict" not in sch.kinds or sch.schema is not None)
                I.need(shaped, "AttributeError", e,
                       "%s() is handed a value that need not be schema-shaped as its schema" % attr,
                       "%s admits %s" % (norm(e.args[1]) if len(e.args) > 1 else "schema", sch.describe()))
            for x in sorted(I.allowed):
                I.raise_(x, e, "recursive validation")
            if attr == "is_valid":
                return AV(["bool"])
            return AV(["gen"], elem=AV(["err"]))
        if attr == "is_type" and len(args) == 2:
            ty = args[1]
            # inline the real code for its effects on the lookup
            m = V.methods["is_type"]
            I.call_func(m, [recv] + args, kwargs, node=e)
            return AV(["bool"])
        if attr == "check_schema":
            I.raise_("SchemaError", e, "check_schema")
            return AV(["null"])
    if t == "TypeChecker" and attr == "is_type":
        m = I.calls.method("TypeChecker", "is_type")
        return I.call_func(m, [recv] + args, kwargs, node=e)
    if t in ("deque",):
        if attr in ("appendleft", "append", "extend", "extendleft", "popleft", "pop", "clear", "rotate"):
            if attr in ("extend", "extendleft") and args:
                iter_check(I, args[0], e, "deque.%s" % attr)
            return AV(["null"])
        return AV(["opaque"])
    if t in ("defaultdict", "pmap"):
        if attr == "items":
            return AV(["gen"], elem=AV(["tuple"], items=(AV(["str", "int"]), recv.vals_av() if recv.vals is not None else AV(["opaque"]))))
        if attr in ("values",):
            return AV(["gen"], elem=recv.vals_av() if recv.vals is not None else AV(["opaque"]))
        if attr in ("update", "remove", "set", "discard", "get", "keys"):
            return AV(["opaque"])
        return AV(["opaque"])
    if t == "Pattern":
        for a in args[:1]:
            I.need(a.kinds <= frozenset(["str", "opaque"]), "TypeError", e, "regex %s on a non-string" % attr, a.describe())
        return AV(["match", "null"])
    if t == "Fraction":
        return AV(["obj:Fraction"])
    if t == "SplitResult":
        return AV(["str"])
    if t == "URIDict" and attr in ("update", "get", "items", "keys", "values", "pop", "setdefault"):
        # MutableMapping mixins route through __getitem__/__setitem__ (normalize -> urlsplit)
        gi = I.calls.method("URIDict", "__getitem__")
        if attr in ("get", "pop", "setdefault") and gi is not None and args:
            I.collectors.append([])
            I.call_func(gi, [recv, args[0]], node=e)
            eff = I.collectors.pop()
            I.collectors[-1].extend(x for x in eff if x.exc != "KeyError")
            return join(recv.vals if recv.vals is not None else ANY, args[1] if len(args) > 1 else AV(["null"]))
        if attr == "update" and args:
            si = I.calls.method("URIDict", "__setitem__")
            el = args[0]
            I.need(not (el.kinds - ITERABLE - frozenset(["opaque"]) - frozenset(k for k in el.kinds if k.startswith("obj:"))), "TypeError", e, "update from a non-mapping", el.describe())
            if si is not None:
                I.call_func(si, [recv, AV(["str"]), ANY], node=e)
            return AV(["null"])
        if attr == "items":
            return AV(["gen"], elem=AV(["tuple"], items=(AV(["str"]), AV(["cls:Validator"]))))
        return AV(["opaque"])
    m = I.calls.method(t, attr) if t in I.calls.type_cls else None
    if m is not None:
        decos = [norm(d) for d in m.decorators]
        if "staticmethod" in decos:
            return I.call_func(m, args, kwargs, node=e)
        if "classmethod" in decos:
            return I.call_func(m, [AV(["cls:" + t])] + args, kwargs, node=e)
        if is_cls:
            # Class.method(obj, ...): a plain function taken from the class; the first argument is the receiver
            return I.call_func(m, args, kwargs, node=e)
        ret = call_package(I, e, s, m, [recv] + args, kwargs)
        return ret
    if t in I.calls.type_cls:
        a = I.obj_attr(t, attr, recv, e, s)
        if "func" in a.kinds:
            return call_value(I, e, s, a, args, kwargs)
    return AV(["opaque"])


# --------------------------------------------------------------------------- builtins
def b_len(I, e, s, args, kw):
    v = args[0] if args else BOTTOM
    ok = v.kinds <= frozenset(["str", "list", "dict", "set", "tuple", "opaque", "obj:deque", "obj:defaultdict", "obj:ErrorTree", "obj:URIDict"])
    I.need(ok, "TypeError", e, "len() of %s" % norm(e.args[0])[:50], v.describe())
    return AV(["int"], big=False)


def b_isinstance(I, e, s, args, kw):
    return AV(["bool"])


def b_iter_like(kind):
    def f(I, e, s, args, kw):
        if not args:
            return AV([kind], elem=BOTTOM, const=EMPTY_LIST if kind == "list" else None)
        v = args[0]
        iter_check(I, v, e, kind + "()")
        el = v.elem_av() if v.kinds & ITERABLE else AV(["opaque"])
        if kind in ("set", "frozenset"):
            I.need(not (el.kinds & frozenset(["list", "dict", "set"])), "TypeError", e, "set() of unhashable elements: %s" % norm(e)[:50], el.describe())
            return AV(["set"], elem=el)
        if kind == "sorted" and "key" in kw:
            kr = _key_result(I, e, s, kw["key"], el)
            if kr is not None:
                I.need(_orderable(kr) is not False, "TypeError", e, "sorted() over keys that may not be mutually orderable", kr.describe())
            return AV(["list"], elem=el, nonempty=v.nonempty)
        if kind == "sorted":
            ks = el.kinds
            ok = ks <= frozenset(["int", "float", "bool"]) or ks <= frozenset(["str"]) or ks <= frozenset(["tuple"]) or not ks
            I.need(ok, "TypeError", e, "sorted() of values that may not be mutually orderable: %s" % norm(e)[:50], el.describe())
            return AV(["list"], elem=el, nonempty=v.nonempty)
        if kind == "dict":
            return AV(["dict"], vals=v.vals_av() if "dict" in v.kinds else AV(["opaque"]), schema=v.schema)
        out = AV(["gen" if kind in ("iter", "reversed") else kind], elem=el, nonempty=v.nonempty and kind not in ("iter", "reversed"),
                 const=EMPTY_LIST if (v.const == EMPTY_LIST or el.empty) and kind == "list" else None)
        return out
    return f


def b_next(I, e, s, args, kw):
    v = args[0] if args else BOTTOM
    if len(args) < 2:
        I.raise_("StopIteration", e, "next() without default")
    el = v.elem_av() if v.kinds & ITERABLE else AV(["opaque"])
    return join(el, args[1]) if len(args) > 1 else el


def b_anyall(I, e, s, args, kw):
    if args:
        iter_check(I, args[0], e, "any/all")
    return AV(["bool"])


def b_enumerate(I, e, s, args, kw):
    v = args[0] if args else BOTTOM
    iter_check(I, v, e, "enumerate")
    el = v.elem_av() if v.kinds & ITERABLE else AV(["opaque"])
    return AV(["gen"], elem=AV(["tuple"], items=(AV(["int"], big=False), el)), const=EMPTY_LIST if el.empty else None)


def b_zip(I, e, s, args, kw):
    items = []
    for v in args:
        iter_check(I, v, e, "zip")
        items.append(v.elem_av() if v.kinds & ITERABLE else AV(["opaque"]))
    return AV(["gen"], elem=AV(["tuple"], items=tuple(items)))


def b_map(I, e, s, args, kw):
    for v in args[1:]:
        iter_check(I, v, e, "map")
    return AV(["gen"], elem=AV(["str"]) if (e.args and norm(e.args[0]) in ("repr", "str")) else AV(["opaque"]))


def b_strlike(I, e, s, args, kw):
    for a in args[:1]:
        I.to_text(a, e, norm(e.func))
    return AV(["str"])


def b_int(I, e, s, args, kw):
    v = args[0] if args else const_av(0)
    if "float" in v.kinds:
        inf = getattr(v, "norm_tag", False) == "float-quotient"
        I.need(not inf, "OverflowError", e, "int() of a float quotient that may be infinite", v.describe())
    if "str" in v.kinds and getattr(v, "norm_tag", False) != "digits":
        I.raise_("ValueError", e, "int(<str>)")
    elif "str" in v.kinds:
        # a string of ASCII digits of unbounded length: since Python 3.11 int() refuses more than sys.int_max_str_digits (4300)
        I.raise_("ValueError", e, "int(<digit string of unbounded length>)")
    I.need(v.kinds <= frozenset(["int", "float", "bool", "str", "obj:Fraction", "opaque"]), "TypeError", e, "int() of %s" % norm(e)[:40], v.describe())
    return AV(["int"])


def b_float(I, e, s, args, kw):
    v = args[0] if args else const_av(0)
    I.need(not ("int" in v.kinds and v.big), "OverflowError", e, "float() of an integer of unbounded size", v.describe())
    I.need(v.kinds <= frozenset(["int", "float", "bool", "str", "opaque"]), "TypeError", e, "float() of %s" % norm(e)[:40], v.describe())
    return AV(["float"])


def b_bool(I, e, s, args, kw):
    return AV(["bool"])


def b_getattr(I, e, s, args, kw):
    if len(e.args) >= 2 and isinstance(e.args[1], ast.Constant):
        base = args[0]
        I.collectors.append([])
        v = I.getattr_av(base, e.args[1].value, e, s)
        eff = I.collectors.pop()
        if len(args) > 2:
            return join(v, args[2])
        I.collectors[-1].extend(eff)
        return v
    return AV(["opaque"])


def _orderable(av, depth=0):
    """True / False / None (unknown): can any two values described by av be compared with < ?"""
    if av is None or av.empty or depth > 3:
        return None
    ks = av.kinds
    if ks <= frozenset(["opaque", "func", "err", "gen", "match", "module"]) or (ks & frozenset(["opaque"])):
        return None
    if ks <= frozenset(["int", "float", "bool", "obj:Fraction"]) or ks <= frozenset(["str"]):
        return True
    if ks <= frozenset(["tuple"]):
        if av.items is None:
            return None
        res = [_orderable(x, depth + 1) for x in av.items]
        if any(x is False for x in res):
            return False
        return None if any(x is None for x in res) else True
    return False


def _key_result(I, e, s, fv, el):
    """what key(elem) is, for max/min/sorted(key=...): the key function is analysed on an element"""
    try:
        return call_value(I, e, s, fv, [el], {})
    except Exception:
        return None


def b_minmax(I, e, s, args, kw):
    v = args[0] if args else BOTTOM
    iter_check(I, v, e, "max/min")
    if len(args) == 1 and "default" not in kw:
        I.need(v.nonempty, "ValueError", e, "max/min of a possibly empty iterable", v.describe())
    if "key" not in kw:
        el = v.elem_av() if v.kinds & ITERABLE else BOTTOM
        I.need(len(el.kinds) <= 1 or el.kinds <= frozenset(["int", "float", "bool"]), "TypeError", e, "max/min of mixed kinds", el.describe())
    else:
        # the keys are what is compared: a component that may be None for one element and a string for another cannot be ordered
        kr = _key_result(I, e, s, kw["key"], v.elem_av() if v.kinds & ITERABLE else AV(["opaque"]))
        if kr is not None:
            I.need(_orderable(kr) is not False, "TypeError", e, "max/min over keys that may not be mutually orderable", kr.describe())
    return v.elem_av() if v.kinds & ITERABLE else AV(["opaque"])


def b_sum(I, e, s, args, kw):
    if args:
        iter_check(I, args[0], e, "sum")
    return AV(["int"], big=False)


def b_opaque(I, e, s, args, kw):
    return AV(["opaque"])


def b_super(I, e, s, args, kw):
    return AV(["opaque"])


BUILTIN_IMPL = {
    "len": b_len, "isinstance": b_isinstance, "issubclass": b_isinstance, "hasattr": b_isinstance, "callable": b_isinstance,
    "set": b_iter_like("set"), "frozenset": b_iter_like("set"), "sorted": b_iter_like("sorted"), "list": b_iter_like("list"),
    "tuple": b_iter_like("tuple"), "iter": b_iter_like("iter"), "reversed": b_iter_like("reversed"), "dict": b_iter_like("dict"),
    "next": b_next, "any": b_anyall, "all": b_anyall, "enumerate": b_enumerate, "zip": b_zip, "map": b_map, "filter": b_map,
    "repr": b_strlike, "str": b_strlike, "format": b_strlike, "int": b_int, "float": b_float, "bool": b_bool, "getattr": b_getattr,
    "max": b_minmax, "min": b_minmax, "sum": b_sum, "super": b_super, "type": b_opaque, "vars": b_opaque, "open": b_opaque,
    "id": b_opaque, "print": b_opaque, "setattr": b_opaque, "object": b_opaque, "property": b_opaque, "staticmethod": b_opaque,
    "classmethod": b_opaque, "range": b_enumerate,
}
