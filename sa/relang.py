"""Regular-language reasoning on regex *syntax trees* (re._parser): Thompson NFAs over a finite symbolic alphabet, product
emptiness and inclusion by on-the-fly subset construction.  Used to decide, without running anything, whether a regex
pre-filter inside a format checker cuts into the grammar the checker is meant to decide.

The alphabet is symbolic: each ASCII character of interest is its own symbol, every other character is the class OTHER (and
a second class OTHER_DIGIT for non-ASCII decimal digits, which `\\d` and `[0-9]` treat differently).  Unsupported constructs
(look-around, back-references, flags other than ASCII) raise Unsupported: the caller then records NOT DECIDED.
"""
import re._parser as sre_parse
import re._constants as C


class Unsupported(Exception):
    pass


OTHER, OTHER_DIGIT = "<other>", "<non-ascii-digit>"


class NFA:
    def __init__(self):
        self.n = 0
        self.eps = {}
        self.edges = {}      # state -> list of (predicate(symbol) -> bool, target)
        self.start = self.new()
        self.accept = None

    def new(self):
        s = self.n
        self.n += 1
        self.eps[s] = []
        self.edges[s] = []
        return s

    def closure(self, states):
        out, todo = set(states), list(states)
        while todo:
            s = todo.pop()
            for t in self.eps[s]:
                if t not in out:
                    out.add(t)
                    todo.append(t)
        return frozenset(out)

    def step(self, states, sym):
        nxt = set()
        for s in states:
            for pred, t in self.edges[s]:
                if pred(sym):
                    nxt.add(t)
        return self.closure(nxt)


def _sym_code(sym):
    return ord(sym) if len(sym) == 1 else None


def _in_pred(items, ascii_flag):
    negate = False
    tests = []
    for op, av in items:
        if op is C.NEGATE:
            negate = True
        elif op is C.LITERAL:
            tests.append(lambda s, av=av: _sym_code(s) == av)
        elif op is C.RANGE:
            lo, hi = av
            tests.append(lambda s, lo=lo, hi=hi: _sym_code(s) is not None and lo <= _sym_code(s) <= hi)
        elif op is C.CATEGORY:
            tests.append(_category(av, ascii_flag))
        else:
            raise Unsupported("character class item %s" % op)
    if negate:
        return lambda s: not any(t(s) for t in tests)
    return lambda s: any(t(s) for t in tests)


def _category(cat, ascii_flag):
    if cat is C.CATEGORY_DIGIT:
        return lambda s: (len(s) == 1 and s.isdigit()) or (s == OTHER_DIGIT and not ascii_flag)
    if cat is C.CATEGORY_NOT_DIGIT:
        return lambda s: not ((len(s) == 1 and s.isdigit()) or (s == OTHER_DIGIT and not ascii_flag))
    if cat is C.CATEGORY_SPACE:
        return lambda s: len(s) == 1 and s in " \t\n\r\f\v"
    if cat is C.CATEGORY_NOT_SPACE:
        return lambda s: not (len(s) == 1 and s in " \t\n\r\f\v")
    if cat is C.CATEGORY_WORD:
        return lambda s: (len(s) == 1 and (s.isalnum() or s == "_")) or (s in (OTHER_DIGIT,) and not ascii_flag)
    if cat is C.CATEGORY_NOT_WORD:
        return lambda s: not ((len(s) == 1 and (s.isalnum() or s == "_")) or (s in (OTHER_DIGIT,) and not ascii_flag))
    raise Unsupported("category %s" % cat)


def build(pattern, mode, ascii_flag=False):
    """NFA for the set of strings on which re.<mode>(pattern, s) succeeds: mode in fullmatch | match | search."""
    try:
        tree = sre_parse.parse(pattern)
    except Exception as e:
        raise Unsupported("unparsable pattern: %s" % e)
    if tree.state.flags & ~(C.SRE_FLAG_UNICODE | C.SRE_FLAG_ASCII):
        raise Unsupported("inline flags")
    ascii_flag = ascii_flag or bool(tree.state.flags & C.SRE_FLAG_ASCII)
    n = NFA()
    ANY = lambda s: True

    def seq(items, start):
        cur = start
        for op, av in items:
            cur = node(op, av, cur)
        return cur

    def node(op, av, start):
        if op is C.LITERAL:
            t = n.new()
            n.edges[start].append((lambda s, av=av: _sym_code(s) == av, t))
            return t
        if op is C.NOT_LITERAL:
            t = n.new()
            n.edges[start].append((lambda s, av=av: _sym_code(s) != av, t))
            return t
        if op is C.ANY:
            t = n.new()
            n.edges[start].append((lambda s: s != "\n", t))
            return t
        if op is C.IN:
            t = n.new()
            n.edges[start].append((_in_pred(av, ascii_flag), t))
            return t
        if op is C.SUBPATTERN:
            return seq(av[3], start)
        if op is C.BRANCH:
            end = n.new()
            for alt in av[1]:
                s0 = n.new()
                n.eps[start].append(s0)
                n.eps[seq(alt, s0)].append(end)
            return end
        if op in (C.MAX_REPEAT, C.MIN_REPEAT):
            lo, hi, sub = av
            cur = start
            for _ in range(lo):
                cur = seq(sub, cur)
            if hi is C.MAXREPEAT:
                loop = n.new()
                n.eps[cur].append(loop)
                back = seq(sub, loop)
                n.eps[back].append(loop)
                return loop
            if hi - lo > 64:
                raise Unsupported("large bounded repetition")
            end = n.new()
            n.eps[cur].append(end)
            for _ in range(hi - lo):
                cur = seq(sub, cur)
                n.eps[cur].append(end)
            return end
        if op is C.AT:
            # anchors: only at the very ends of the pattern are they handled (by the caller); elsewhere unsupported
            raise Unsupported("anchor inside the pattern")
        raise Unsupported("regex construct %s" % op)
    items = list(tree)
    lead = trail = False
    if items and items[0][0] is C.AT and items[0][1] in (C.AT_BEGINNING, C.AT_BEGINNING_STRING):
        lead, items = True, items[1:]
    if items and items[-1][0] is C.AT and items[-1][1] in (C.AT_END_STRING,):
        trail, items = True, items[:-1]
    elif items and items[-1][0] is C.AT and items[-1][1] is C.AT_END:
        raise Unsupported("`$` also matches before a trailing newline")
    start = n.start
    if mode == "search" and not lead:
        loop = n.new()
        n.eps[start].append(loop)
        n.edges[loop].append((ANY, loop))
        start = loop
    end = seq(items, start)
    if mode in ("search", "match") and not trail:
        n.edges[end].append((ANY, end))
    n.accept = end
    return n


def alphabet(*patterns):
    syms = set("0123456789.:-/ aAzZ_+\n")
    for p in patterns:
        syms |= {ch for ch in p if ord(ch) < 128}
    return sorted(syms) + [OTHER, OTHER_DIGIT]


def intersect_witness(a, b, sigma, b_complement=False, limit=200000):
    """A shortest string in L(a) & L(b) (or L(a) - L(b) when b_complement), as a list of symbols; None if the intersection is empty."""
    sa, sb = a.closure([a.start]), b.closure([b.start])
    seen = {(sa, sb)}
    todo = [((sa, sb), [])]
    while todo:
        nxt = []
        for (xa, xb), path in todo:
            in_b = b.accept in xb
            if a.accept in xa and (in_b != b_complement):
                return path
            for sym in sigma:
                ya = a.step(xa, sym)
                if not ya:
                    continue
                yb = b.step(xb, sym)
                key = (ya, yb)
                if key in seen:
                    continue
                seen.add(key)
                if len(seen) > limit:
                    raise Unsupported("state space too large")
                nxt.append((key, path + [sym]))
        todo = nxt
    return None


def show(path):
    return "".join(s if len(s) == 1 else ("٣" if s == OTHER_DIGIT else "é") for s in path)


IPV4 = r"(25[0-5]|2[0-4][0-9]|1[0-9][0-9]|[1-9][0-9]|[0-9])(\.(25[0-5]|2[0-4][0-9]|1[0-9][0-9]|[1-9][0-9]|[0-9])){3}"
FULL_DATE_SHAPE = r"[0-9]{4}-[0-9]{2}-[0-9]{2}"
