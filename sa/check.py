#!/venv/bin/python
"""Driver: check.py <ID> [--tier quick|thorough] [--repo DIR] [--no-write]

exit 0: every obligation discharged (known findings printed as KNOWN-FINDING)
exit 1: VIOLATION property=<id> replay=<path>
exit 2: ANALYSIS-ERROR (the analysis could not be carried out; not a verdict)
"""
import argparse
import importlib
import os
import sys
import traceback

HERE = os.path.dirname(os.path.abspath(__file__))
sys.path.insert(0, os.path.dirname(HERE))


def main(argv=None):
    ap = argparse.ArgumentParser()
    ap.add_argument("pid")
    ap.add_argument("--tier", default=os.environ.get("VERIF_TIER", "quick"), choices=["quick", "thorough"])
    ap.add_argument("--repo", default=None)
    ap.add_argument("--no-write", action="store_true")
    args = ap.parse_args(argv)
    if args.repo:
        os.environ["VERIF_REPO"] = args.repo
    pid = args.pid.upper()
    try:
        from sa import prog as progmod
        if args.repo:
            progmod.REPO = args.repo
        from sa.report import Ctx
        p = progmod.Prog(os.path.join(args.repo or progmod.REPO, progmod.PKG))
        ctx = Ctx(pid, args.tier, p)
        try:
            rules = importlib.import_module("sa.rules." + pid.lower())
        except ModuleNotFoundError:
            print("ANALYSIS-ERROR property=%s: no checker module" % pid)
            return 2
        rules.run(ctx)
        selftest_problem = None
        if args.tier == "thorough":
            if hasattr(rules, "thorough"):
                rules.thorough(ctx)
            # the rules are re-run on single-edit variants of the tree under test: every breaking variant must be
            # reported by the rule it targets, every behaviour-preserving variant must stay silent
            from sa.selftest import selftest
            summary, results, lines = selftest(pids=[pid], src_root=args.repo or progmod.REPO)
            ctx.extra["variant_selftest"] = {
                "summary": summary,
                "variants": [{"id": x["id"], "kind": x["kind"], "desc": x["desc"], "ok": x["ok"], "result": x["msg"][:200]} for x in results],
            }
            for ln in lines:
                print("SELFTEST " + ln)
            print("SELFTEST %s" % summary)
            if summary["breaking_missed"] or summary["preserving_flagged"]:
                selftest_problem = "variant self-test: %d breaking variants missed, %d preserving variants flagged" % (
                    summary["breaking_missed"], summary["preserving_flagged"])
        code, _v, _k = ctx.finish(write=not args.no_write)
        if code == 0 and selftest_problem:
            print("ANALYSIS-ERROR property=%s (checker defect, not a verdict on the property): %s" % (pid, selftest_problem))
            return 2
        return code
    except Exception as e:  # noqa
        from sa.prog import AnalysisError
        kind = "analysis" if isinstance(e, AnalysisError) else "crash"
        print("ANALYSIS-ERROR property=%s (%s): %s" % (pid, kind, e))
        if kind == "crash" or os.environ.get("VERIF_DEBUG"):
            traceback.print_exc()
        return 2


if __name__ == "__main__":
    sys.exit(main())
