#!/venv/bin/python
"""Driver: check.py <ID> [--tier quick|thorough] [--repo DIR] [--no-write]

exit 0: every obligation discharged (known findings printed as KNOWN-FINDING)
exit 1: VIOLATION property=<id> replay=<path>
exit 2: ANALYSIS-ERROR (the analysis could not be carried out; not a verdict)
"""
import argparse
import importlib
import os
import sys
import traceback

HERE = os.path.dirname(os.path.abspath(__file__))
sys.path.insert(0, os.path.dirname(HERE))


def main(argv=None):
    ap = argparse.ArgumentParser()
    ap.add_argument("pid")
    ap.add_argument("--tier", default=os.environ.get("VERIF_TIER", "quick"), choices=["quick", "thorough"])
    ap.add_argument("--repo", default=None)
    ap.add_argument("--no-write", action="store_true")
    args = ap.parse_args(argv)
    if args.repo:
        os.environ["VERIF_REPO"] = args.repo
    pid = args.pid.upper()
    try:
        from sa import prog as progmod
        if args.repo:
            progmod.REPO = args.repo
        from sa.report import Ctx
        p = progmod.Prog(os.path.join(args.repo or progmod.REPO, progmod.PKG))
        ctx = Ctx(pid, args.tier, p)
        try:
            rules = importlib.import_module("sa.rules." + pid.lower())
        except ModuleNotFoundError:
            print("ANALYSIS-ERROR property=%s: no checker module" % pid)
            return 2
        rules.run(ctx)
        if args.tier == "thorough" and hasattr(rules, "thorough"):
            rules.thorough(ctx)
        code, _v, _k = ctx.finish(write=not args.no_write)
        return code
    except Exception as e:  # noqa
        from sa.prog import AnalysisError
        kind = "analysis" if isinstance(e, AnalysisError) else "crash"
        print("ANALYSIS-ERROR property=%s (%s): %s" % (pid, kind, e))
        if kind == "crash" or os.environ.get("VERIF_DEBUG"):
            traceback.print_exc()
        return 2


if __name__ == "__main__":
    sys.exit(main())
