#!/venv/bin/python
"""Composite self-test: every breaking change applied *on top of* every behaviour-preserving refactoring it composes with.

A refactoring moves the code out of the shape a structural rule reads; the rule then falls back to a table, or records
NOT DECIDED.  This sweep asks whether the breaking changes of the corpora (own variants, sub-agent seeds) are still reported
after such a move: for each refactoring F in /verif/refactors and each breaking variant S that touches a file F touches and
still applies after F (patch context / anchor text intact), the check of S's own property must report something new.

Not part of the quick or thorough tier (about 15 CPU-minutes); results are summarised in DESIGN.md 12.11.
usage: composite.py [--jobs N] [--refactor R28-r3] [--seed S-C09-m1] [-v]
"""
import argparse
import json
import os
import re
import shutil
import subprocess
import sys
import tempfile
from concurrent.futures import ProcessPoolExecutor

HERE = os.path.dirname(os.path.abspath(__file__))
sys.path.insert(0, os.path.dirname(HERE))

from sa.selftest import load_variants, apply_variant, run_check   # noqa: E402


def files_of(v):
    if v.get("patchfile"):
        with open(v["patchfile"], encoding="utf-8", errors="replace") as f:
            return set(re.findall(r"^\+\+\+ b/(\S+)", f.read(), re.M))
    return {"jsonschema/" + rel for (rel, _o, _n) in v.get("edits", [])}


def run_pair(args):
    F, S, src_root = args
    tmp = tempfile.mkdtemp(prefix="sa-comp-")
    try:
        shutil.copytree(os.path.join(src_root, "jsonschema"), os.path.join(tmp, "jsonschema"),
                        ignore=shutil.ignore_patterns("tests", "benchmarks", "__pycache__"))
        if not apply_variant(F, tmp):
            return {"F": F["id"], "S": S["id"], "status": "skip-F"}
        if not apply_variant(S, tmp):
            return {"F": F["id"], "S": S["id"], "status": "skip-S"}
        for root, _d, names in os.walk(os.path.join(tmp, "jsonschema")):
            for n in names:
                if n.endswith(".py"):
                    with open(os.path.join(root, n), encoding="utf-8") as f:
                        try:
                            compile(f.read(), n, "exec")
                        except SyntaxError:
                            return {"F": F["id"], "S": S["id"], "status": "skip-syntax"}
        out = {}
        for pid in S["expect"]:
            code, keys, err = run_check(pid, tmp)
            out[pid] = {"code": code, "keys": keys, "err": err[:300]}
        return {"F": F["id"], "S": S["id"], "status": "ran", "results": out}
    finally:
        shutil.rmtree(tmp, ignore_errors=True)


def main():
    ap = argparse.ArgumentParser()
    ap.add_argument("--jobs", type=int, default=min(16, os.cpu_count() or 4))
    ap.add_argument("--refactor")
    ap.add_argument("--seed")
    ap.add_argument("--all-files", action="store_true", help="also pairs that share no file")
    ap.add_argument("-v", action="store_true")
    a = ap.parse_args()
    from sa import prog as progmod
    src_root = progmod.REPO
    variants = load_variants()
    Fs = [v for v in variants if v["kind"] == "preserving" and v.get("patchfile")]
    Ss = [v for v in variants if v["kind"] == "breaking" and v.get("expect")]
    if a.refactor:
        Fs = [v for v in Fs if a.refactor in v["id"]]
    if a.seed:
        Ss = [v for v in Ss if a.seed in v["id"]]
    ff = {v["id"]: files_of(v) for v in Fs}
    sf = {v["id"]: files_of(v) for v in Ss}
    pairs = [(F, S, src_root) for F in Fs for S in Ss if a.all_files or (ff[F["id"]] & sf[S["id"]])]
    pids = sorted({p for S in Ss for p in S["expect"]})
    baseline = {}
    for pid in pids:
        _c, keys, _e = run_check(pid, src_root)
        baseline[pid] = set(keys)
    with ProcessPoolExecutor(max_workers=a.jobs) as ex:
        outs = list(ex.map(run_pair, pairs, chunksize=4))
    summary = {"pairs": len(pairs), "composed": 0, "caught": 0, "missed": 0, "analysis_error": 0, "skipped": 0}
    missed = []
    for o in outs:
        if o["status"] != "ran":
            summary["skipped"] += 1
            continue
        summary["composed"] += 1
        # the seed's own property first; any listed property reporting something new counts
        new_any, err = False, False
        for pid, res in o["results"].items():
            if res["code"] == 2:
                err = True
            if [k for k in res["keys"] if k not in baseline.get(pid, ())]:
                new_any = True
        if new_any:
            summary["caught"] += 1
        elif err:
            summary["analysis_error"] += 1
            missed.append((o["F"], o["S"], "ANALYSIS-ERROR " + " / ".join(r["err"][:150] for r in o["results"].values() if r["code"] == 2)))
        else:
            summary["missed"] += 1
            missed.append((o["F"], o["S"], "missed by " + ",".join(sorted(o["results"]))))
    for m in missed:
        print("MISS %s + %s: %s" % m)
    print(json.dumps(summary))
    return 1 if missed else 0


if __name__ == "__main__":
    sys.exit(main())
