"""C12 - `format` is off without a checker and follows the checker exactly (claimed)."""
import ast
import json

from ..prog import norm, walk_body, AnalysisError, Func, DRAFTS
from ..cfg import cfg_of, reaching_defs, node_exprs, walk_expr
from ..calls import calls_of
from ..common import calls_at, find_method, names_in
from ..formats import format_registry
from ..report import site


def format_keyword_funcs(prog):
    out = {}
    for d in prog.tables.drafts.values():
        if "format" not in d.table:
            raise AnalysisError("%s has no `format` keyword" % d.name)
        out.setdefault(d.table["format"], []).append(d.name)
    return out


def _is_checker_test(calls, f, e):
    """+1 if e is `<validator>.format_checker is not None`, -1 if `is None`, 0 otherwise."""
    if isinstance(e, ast.Compare) and len(e.ops) == 1 and isinstance(e.comparators[0], ast.Constant) and e.comparators[0].value is None:
        l = e.left
        if isinstance(l, ast.Attribute) and l.attr == "format_checker" and calls.type_of(f, l.value) == "Validator":
            return 1 if isinstance(e.ops[0], ast.IsNot) else (-1 if isinstance(e.ops[0], ast.Is) else 0)
        if isinstance(l, ast.Name):
            # local alias: checker = validator.format_checker
            for n in walk_body(f):
                if isinstance(n, ast.Assign) and any(isinstance(t, ast.Name) and t.id == l.id for t in n.targets):
                    v = n.value
                    if isinstance(v, ast.Attribute) and v.attr == "format_checker" and calls.type_of(f, v.value) == "Validator":
                        return 1 if isinstance(e.ops[0], ast.IsNot) else (-1 if isinstance(e.ops[0], ast.Is) else 0)
    return 0


def rule_off_without_checker(ctx, rid="R12.1"):
    prog = ctx.prog
    calls = calls_of(prog)
    r = ctx.rule(rid, "the format keyword does nothing unless a format checker is present", floor=1)
    for f, drafts in format_keyword_funcs(prog).items():
        cfg = cfg_of(f)
        guards = []
        for n in cfg.live:
            if n.kind == "test":
                pol = _is_checker_test(calls, f, n.ast)
                if pol:
                    guards.append((n, "true" if pol > 0 else "false"))
        if not guards:
            r.fail("%s|no-checker-test" % f.qual, site(f), "no `format_checker is not None` test: format would be enforced (or crash) without a checker")
            continue
        gset = {(g.id, lab) for g, lab in guards}
        gnodes = {g.id for g, _ in guards}
        seen = set()
        todo = [cfg.entry]
        bad = []
        while todo:
            n = todo.pop()
            if n.id in seen:
                continue
            seen.add(n.id)
            effect = n.kind == "yield" or (n.id not in gnodes and any(True for _ in calls_at(calls, f, n)))
            if effect:
                bad.append(n)
                continue
            for (l, t) in n.succ:
                if (n.id, l) in gset:
                    continue
                todo.append(t)
        if bad:
            for n in bad:
                r.fail("%s|effect-without-checker|%s" % (f.qual, n.text), site(f, n.ast),
                       "`%s` is reachable when no format checker was given" % n.text)
        else:
            r.ok(site(f) + " %s" % drafts, "every call/yield is behind the checker-present edge")
    return r


def rule_exact_conversion(ctx, rid="R12.2"):
    prog = ctx.prog
    calls = calls_of(prog)
    check = find_method(prog, "_format.FormatChecker", "check")
    r = ctx.rule(rid, "only FormatError is converted, its cause is forwarded, nothing else is caught or yielded", floor=3)
    for f, drafts in format_keyword_funcs(prog).items():
        cfg = cfg_of(f)
        vp = calls.param_with_role(f, "value")
        ip = calls.param_with_role(f, "instance")
        cnodes = []
        for n in cfg.live:
            for (call, tg) in calls_at(calls, f, n):
                if any(t.kind == "func" and t.func is check for t in tg):
                    cnodes.append((n, call))
        if len(cnodes) != 1:
            r.fail("%s|check-calls:%d" % (f.qual, len(cnodes)), site(f), "expected exactly one call of FormatChecker.check, found %d" % len(cnodes))
            continue
        n, call = cnodes[0]
        args = [norm(a) for a in call.args] + ["%s=%s" % (k.arg, norm(k.value)) for k in call.keywords]
        a0 = call.args[0] if call.args else next((k.value for k in call.keywords if k.arg == "instance"), None)
        a1 = call.args[1] if len(call.args) > 1 else next((k.value for k in call.keywords if k.arg == "format"), None)
        if isinstance(a0, ast.Name) and a0.id == ip and isinstance(a1, ast.Name) and a1.id == vp:
            r.ok(site(f, call), "check(<instance>, <format value>)")
        else:
            r.fail("%s|check-args|%s" % (f.qual, ",".join(args)), site(f, call), "check is not called with the function's own (instance, format) parameters: %s" % norm(call))
        # enclosing try
        trys = [t for (t, wh) in n.trys if wh == "body"]
        if not trys:
            r.fail("%s|check-not-in-try" % f.qual, site(f, call), "check() call is not inside a try: FormatError would escape instead of becoming a ValidationError")
            continue
        t = trys[-1]
        hs = t.handlers
        ok = len(hs) == 1 and len(trys) == 1
        if ok:
            h = hs[0]
            target = prog.resolve_expr(f.mod, h.type, f) if h.type is not None else None
            fe = prog.cls("exceptions.FormatError")
            if target is not fe:
                ok = False
        if not ok:
            r.fail("%s|handlers|%s" % (f.qual, ";".join(norm(h.type) for h in t.handlers)), site(f, t),
                   "the handler around check() must catch exactly FormatError (found: %s): anything wider swallows a custom checker's other exceptions, anything narrower lets FormatError escape"
                   % ", ".join("except " + norm(h.type) for h in t.handlers))
            continue
        h = hs[0]
        r.ok(site(f, h), "single handler `except FormatError`")
        ys = [y for y in cfg.live if y.kind == "yield"]
        in_h = [y for y in ys if any(tt is t and wh == "handler" for (tt, wh) in y.trys)]
        out_h = [y for y in ys if y not in in_h]
        for y in out_h:
            r.fail("%s|yield-outside-handler|%s" % (f.qual, norm(y.ast)[:50]), site(f, y.ast), "an error is yielded although check() raised nothing")
        if not in_h:
            r.fail("%s|no-yield-in-handler" % f.qual, site(f, h), "FormatError is caught but no ValidationError is yielded")
        for y in in_h:
            v = y.ast.value.value if isinstance(y.ast.value, ast.Yield) else None
            cause = None
            if isinstance(v, ast.Call):
                cause = next((k.value for k in v.keywords if k.arg == "cause"), None)
            if (isinstance(cause, ast.Attribute) and cause.attr == "cause" and isinstance(cause.value, ast.Name)
                    and cause.value.id == h.name):
                r.ok(site(f, y.ast), "yields ValidationError(..., cause=<caught>.cause)")
            else:
                r.fail("%s|cause|%s" % (f.qual, norm(cause)), site(f, y.ast),
                       "the yielded error does not carry the FormatError's cause (cause=%s)" % norm(cause))
    return r


def rule_check(ctx, rid="R12.3"):
    prog = ctx.prog
    calls = calls_of(prog)
    f = find_method(prog, "_format.FormatChecker", "check")
    cfg = cfg_of(f)
    rd = reaching_defs(cfg)
    r = ctx.rule(rid, "FormatChecker.check: unknown names pass; listed exceptions become the cause; FormatError iff the result is falsy", floor=5)
    from .fmtsem import check_eval
    sem = check_eval(prog)
    if sem is not None:
        # decided by running check() inside the definitional interpreter against recording stub checkers (11 table rows)
        keymap = {"unknown": "no-membership-test", "verdict": "raise-condition", "cause": "cause-prov|cause", "unlisted": "handler", "once": "call", "raises": "raise-condition"}
        for clause in ("unknown", "verdict", "cause", "unlisted", "once", "raises"):
            if clause not in sem:
                continue
            if sem[clause] is None:
                r.ok(site(f) + " [%s]" % clause, {"unknown": "unknown names return without calling anything", "verdict": "FormatError exactly when the result is falsy or a listed exception was raised",
                                                   "cause": "the cause is the listed exception itself, None otherwise", "unlisted": "unlisted exceptions reach the caller unchanged",
                                                   "once": "the registered function is called once with the instance"}.get(clause, clause))
            else:
                r.fail("%s|%s" % (f.qual, keymap[clause]), site(f), sem[clause])
        return r
    ip, fp = f.params[1], f.params[2]
    # (a) membership test
    mem = []
    for n in cfg.live:
        if n.kind == "test" and isinstance(n.ast, ast.Compare) and len(n.ast.ops) == 1 and isinstance(n.ast.ops[0], (ast.In, ast.NotIn)):
            l, c = n.ast.left, n.ast.comparators[0]
            if isinstance(l, ast.Name) and l.id == fp and isinstance(c, ast.Attribute) and c.attr == "checkers" \
                    and calls.type_of(f, c.value) == "FormatChecker":
                mem.append((n, "true" if isinstance(n.ast.ops[0], ast.In) else "false"))
    # dispatch call
    dnodes = []
    for n in cfg.live:
        for (call, tg) in calls_at(calls, f, n):
            if any(t.kind == "dynamic" and t.name == "format-dispatch" for t in tg):
                dnodes.append((n, call))
    if len(dnodes) != 1:
        r.fail("%s|dispatch-calls:%d" % (f.qual, len(dnodes)), site(f), "expected exactly one call of the registered function, found %d" % len(dnodes))
        return r
    dn, dcall = dnodes[0]
    if not mem:
        r.fail("%s|no-membership-test" % f.qual, site(f), "no `format in self.checkers` test: unknown format names would raise instead of passing")
    else:
        from .c02 import only_via_edge
        known_edges = [(n, lab) for (n, lab) in mem]
        lookups = [n for n in cfg.live if any(isinstance(s, ast.Subscript) and isinstance(s.value, ast.Attribute) and s.value.attr == "checkers"
                                               for e in node_exprs(n) for s in walk_expr(e))]
        guarded = all(only_via_edge(cfg, n, known_edges, True) for n in lookups + [dn])
        # unknown edge: returns without raising
        unk_ok = True
        for (n, lab) in mem:
            other = "false" if lab == "true" else "true"
            todo = [x for (l, x) in n.succ if l == other]
            seen = set()
            while todo:
                x = todo.pop()
                if x.id in seen:
                    continue
                seen.add(x.id)
                if x.kind in ("raise", "yield") or (x.kind not in ("return", "exit", "join") and x.id != n.id):
                    unk_ok = False
                todo.extend(y for (l, y) in x.succ if l not in ("exc",))
        if guarded and unk_ok:
            r.ok(site(f, mem[0][0].ast), "unknown format -> plain return; registry lookup and call only on the known edge")
        else:
            r.fail("%s|unknown-format-path" % f.qual, site(f, mem[0][0].ast),
                   "an unknown format name does not simply pass (guarded=%s, plain-return=%s)" % (guarded, unk_ok))
    # (b) func and raises from the same registry entry
    fnname = dcall.func.id if isinstance(dcall.func, ast.Name) else None
    fdefs = [cfg.nodes[d] for d in rd[dn.id].get(fnname, ())] if fnname else []
    raises_var = None
    same_entry = False
    if len(fdefs) == 1 and isinstance(fdefs[0].ast, ast.Assign):
        a = fdefs[0].ast
        tgt = a.targets[0]
        if isinstance(tgt, ast.Tuple) and len(tgt.elts) == 2 and isinstance(tgt.elts[0], ast.Name) and tgt.elts[0].id == fnname \
                and isinstance(tgt.elts[1], ast.Name) and isinstance(a.value, ast.Subscript) \
                and isinstance(a.value.slice, ast.Name) and a.value.slice.id == fp:
            raises_var = tgt.elts[1].id
            same_entry = True
    # (c) the call is in a try whose only handler is `except <raises_var> as e`
    trys = [t for (t, wh) in dn.trys if wh == "body"]
    cause_var = None
    if not trys:
        r.fail("%s|call-not-in-try" % f.qual, site(f, dcall), "the registered function is called outside any try: listed exceptions would escape")
    else:
        t = trys[-1]
        hs = t.handlers
        if len(hs) == 1 and isinstance(hs[0].type, ast.Name) and hs[0].type.id == raises_var and same_entry and len(trys) == 1:
            cause_var = hs[0].name
            r.ok(site(f, hs[0]), "single handler `except %s as %s`, %s drawn from the same registry entry as the function" % (raises_var, cause_var, raises_var))
        else:
            r.fail("%s|handler|%s" % (f.qual, ";".join(norm(h.type) for h in hs)), site(f, t),
                   "the handler around the registered function must catch exactly the entry's own `raises` (found: %s; raises variable: %s)" % (
                       ", ".join("except " + norm(h.type) for h in hs), raises_var))
    if isinstance(dcall.args[0] if dcall.args else None, ast.Name) and dcall.args[0].id == ip and len(dcall.args) == 1:
        r.ok(site(f, dcall), "called with the instance only")
    else:
        r.fail("%s|call-args|%s" % (f.qual, norm(dcall)), site(f, dcall), "registered function not called as func(instance): %s" % norm(dcall))
    # (d)/(e) raise FormatError iff result falsy
    raises = [n for n in cfg.live if n.kind == "raise"]
    resvar = dn.ast.targets[0].id if dn.kind == "stmt" and isinstance(dn.ast, ast.Assign) and isinstance(dn.ast.targets[0], ast.Name) else None
    fe = prog.cls("exceptions.FormatError")
    good = 0
    for rn in raises:
        exc = rn.ast.exc if isinstance(rn.ast, ast.Raise) else None
        tgt = prog.resolve_expr(f.mod, exc.func, f) if isinstance(exc, ast.Call) else None
        if tgt is not fe:
            r.fail("%s|other-raise|%s" % (f.qual, norm(exc)[:50]), site(f, rn.ast), "check() raises something other than FormatError: %s" % norm(exc)[:60])
            continue
        preds = rn.pred
        # skip straight-line statements between the deciding test and the raise (e.g. a message temporary)
        hops = 0
        while len(preds) == 1 and preds[0][1].kind == "stmt" and preds[0][0] == "next" and hops < 5 and \
                not (isinstance(preds[0][1].ast, ast.Assign) and any(isinstance(t, ast.Name) and t.id == resvar for t in preds[0][1].ast.targets)):
            preds = preds[0][1].pred
            hops += 1
        okp = bool(preds) and resvar is not None
        for (lab, p) in preds:
            if not (p.kind == "test" and ((lab == "true" and isinstance(p.ast, ast.UnaryOp) and False) or True)):
                okp = False
        # the lowered CFG turns `if not result` into test(result) with the raise on the false edge
        for (lab, p) in preds:
            if not (p.kind == "test" and isinstance(p.ast, ast.Name) and p.ast.id == resvar and lab == "false"):
                okp = False
        cause = next((k.value for k in exc.keywords if k.arg == "cause"), None) if isinstance(exc, ast.Call) else None
        if cause is None and isinstance(exc, ast.Call) and len(exc.args) > 1:
            cause = exc.args[1]
        # result's definitions at the test: the None initialiser and the call
        if okp:
            p = preds[0][1]
            ds = {cfg.nodes[d] for d in rd[p.id].get(resvar, ())}
            vals = []
            for d in ds:
                if d is dn:
                    vals.append("call")
                elif isinstance(d.ast, ast.Assign):
                    v = d.ast.value
                    if isinstance(v, ast.Tuple):
                        # result, cause = None, None
                        tg = d.ast.targets[0]
                        idx = [i for i, e in enumerate(tg.elts) if isinstance(e, ast.Name) and e.id == resvar]
                        v = v.elts[idx[0]] if idx and len(v.elts) == len(tg.elts) else v
                    vals.append("None" if isinstance(v, ast.Constant) and v.value is None else norm(v))
            if sorted(vals) != ["None", "call"]:
                okp = False
        if okp:
            r.ok(site(f, rn.ast), "raise FormatError exactly on the falsy-result edge (result is the call's value or the None initialiser)")
            good += 1
        else:
            r.fail("%s|raise-condition" % f.qual, site(f, rn.ast), "FormatError is not raised exactly when the function's result is falsy")
        if isinstance(cause, ast.Name) and cause_var is not None:
            # cause var defs: None init or handler binding
            ok = False
            for n in walk_body(f):
                if isinstance(n, ast.Assign) and isinstance(n.value, ast.Name) and n.value.id == cause_var and any(
                        isinstance(t, ast.Name) and t.id == cause.id for t in n.targets):
                    ok = True
            if cause.id == cause_var:
                ok = True
            if ok:
                r.ok(site(f, rn.ast), "cause=<captured exception>")
            else:
                r.fail("%s|cause-prov|%s" % (f.qual, norm(cause)), site(f, rn.ast), "FormatError's cause is not the captured exception")
        else:
            r.fail("%s|no-cause|%s" % (f.qual, norm(cause)), site(f, rn.ast), "FormatError raised without the captured exception as cause (cause=%s)" % norm(cause))
    if good == 0 and not any(x["verdict"] == "FAIL" for x in r.instances):
        r.fail("%s|never-raises" % f.qual, site(f), "check() never raises FormatError")
    return r


def rule_conforms(ctx, rid="R12.4"):
    prog = ctx.prog
    calls = calls_of(prog)
    f = find_method(prog, "_format.FormatChecker", "conforms")
    check = find_method(prog, "_format.FormatChecker", "check")
    cfg = cfg_of(f)
    r = ctx.rule(rid, "conforms() is check() turned into a boolean", floor=3)
    from .fmtsem import check_eval
    sem = check_eval(prog)
    if sem is not None:
        msg = sem.get("conforms") or sem.get("raises")
        if msg is None:
            r.ok(site(f), "True where check() passes (also for unknown names), False where it raises FormatError")
            r.ok(site(f) + " [unlisted]", "an exception check() lets through also leaves conforms()")
            r.ok(site(f) + " [bool]", "the result is a boolean")
        else:
            r.fail("%s|shape" % f.qual, site(f), msg)
        return r
    cn = [(n, c) for n in cfg.live for (c, tg) in calls_at(calls, f, n) if any(t.kind == "func" and t.func is check for t in tg)]
    if len(cn) != 1:
        r.fail("%s|check-calls:%d" % (f.qual, len(cn)), site(f), "conforms must call check exactly once")
        return r
    n, call = cn[0]
    ps = f.params
    if [norm(a) for a in call.args] == ps[1:3] and not call.keywords and calls.type_of(f, call.func.value) == "FormatChecker" \
            and isinstance(call.func.value, ast.Name) and call.func.value.id == ps[0]:
        r.ok(site(f, call), "self.check(instance, format)")
    else:
        r.fail("%s|check-args|%s" % (f.qual, norm(call)), site(f, call), "check not called with conforms' own parameters: %s" % norm(call))
    fe = prog.cls("exceptions.FormatError")
    rets = [x for x in cfg.live if x.kind == "return"]
    for x in rets:
        v = x.ast.value
        val = v.value if isinstance(v, ast.Constant) else None
        in_handler = [t for (t, wh) in x.trys if wh == "handler"]
        if in_handler:
            # which handler? find the handler node enclosing by line range
            t = in_handler[-1]
            hs = [h for h in t.handlers if h.lineno <= x.line <= max(getattr(s, "end_lineno", s.lineno) for s in h.body)]
            typ = prog.resolve_expr(f.mod, hs[0].type, f) if hs and hs[0].type is not None else None
            if typ is fe and val is False and len(t.handlers) == 1:
                r.ok(site(f, x.ast), "except FormatError -> False")
            else:
                r.fail("%s|handler-return|%s" % (f.qual, norm(x.ast)), site(f, x.ast),
                       "conforms must return False exactly for FormatError (handler %s returns %s)" % (norm(hs[0].type) if hs else "?", norm(v)))
        else:
            if val is True:
                r.ok(site(f, x.ast), "no FormatError -> True")
            else:
                r.fail("%s|normal-return|%s" % (f.qual, norm(x.ast)), site(f, x.ast), "conforms returns %s when check raised nothing" % norm(v))
    if not any(t for x in rets for (t, wh) in x.trys if wh == "handler"):
        r.fail("%s|no-false-path" % f.qual, site(f), "conforms never returns False")
    return r


def _isinstance_str_test(e, param):
    """+1 for isinstance(param, str), 0 otherwise (negation is lowered by the CFG)."""
    if isinstance(e, ast.Call) and isinstance(e.func, ast.Name) and e.func.id == "isinstance" and len(e.args) == 2:
        a, t = e.args
        if isinstance(a, ast.Name) and a.id == param and isinstance(t, ast.Name) and t.id == "str":
            return 1
    return 0


def string_guard_verdict(f):
    """None if every use of the parameter is behind isinstance(param, str) and the other edge returns True;
    else a (node, message)."""
    cfg = cfg_of(f)
    if not f.params:
        return (cfg.entry, "checker takes no parameter")
    p = f.params[0]
    guards = [n for n in cfg.live if n.kind == "test" and _isinstance_str_test(n.ast, p)]
    gids = {n.id for n in guards}
    seen = set()
    todo = [cfg.entry]
    while todo:
        n = todo.pop()
        if n.id in seen:
            continue
        seen.add(n.id)
        if n.id not in gids:
            uses = any(isinstance(x, ast.Name) and x.id == p for e in node_exprs(n) for x in walk_expr(e))
            if uses:
                return (n, "`%s` uses the instance before/without `isinstance(%s, str)`: a non-string instance is examined" % (n.text, p))
        for (l, t) in n.succ:
            if n.id in gids and l == "true":
                continue
            if n.id in gids and l == "false":
                # must return True without further ado
                cur = t
                while cur.kind == "join" and len(cur.succ) == 1:
                    cur = cur.succ[0][1]
                if not (cur.kind == "return" and isinstance(cur.ast.value, ast.Constant) and cur.ast.value.value is True):
                    return (cur, "a non-string instance does not pass (`%s` instead of `return True`)" % cur.text)
                continue
            todo.append(t)
    if not guards:
        return (cfg.entry, "no isinstance(%s, str) guard" % p)
    return None


def rule_string_guard(ctx, rid="R12.5"):
    prog = ctx.prog
    entries = format_registry(prog)
    r = ctx.rule(rid, "every registered built-in checker passes non-strings before touching the instance (all import branches)", floor=14)
    seen = set()
    for e in entries:
        f = e.func
        if f in seen:
            continue
        seen.add(f)
        v = string_guard_verdict(f)
        names = sorted({e2.cls_name or "" for e2 in entries if e2.func is f})
        if v is not None:
            # the CFG rule knows `if not isinstance(instance, str): return True` and its negation; other spellings (conditional
            # expressions, `or`) are decided by evaluating the function on non-string values
            from .fmtsem import guard_eval
            g = guard_eval(prog, f)
            if g is None:
                v = None
            # otherwise (a wrong answer, an exception, or the function left the evaluated fragment -- e.g. handed the value to a
            # library -- before answering True) the path rule's finding stands
        if v is None:
            r.ok(site(f) + " %s%s" % (names, "" if e.present else " (optional library absent)"), "string guard dominates every use")
        else:
            n, msg = v
            if not e.present:
                r.note(site(f), "%s -- not registered in this installation (requires %s), outside the property's scope; becomes a violation if the library is installed" % (
                    msg, [m for k, m in e.requires if k == "need"]))
                r.ok(site(f) + " %s (unregistered here)" % names, "NOTE: " + msg)
            else:
                r.fail("%s|string-guard" % f.qual, site(f, n.ast) if n.ast is not None else site(f), msg)
    return r


def rule_checks_latest_wins(ctx, rid="R12.13"):
    """`checker.checks(name, raises)(fn)` makes (fn, raises) the entry for that name: a custom function registered under a name the
    checker already knows replaces the built-in one, the same function registered again brings its new `raises`, and the empty
    string is a name like any other.  Decided by sa/rules/fmtsem.py checks_eval."""
    prog = ctx.prog
    f = find_method(prog, "_format.FormatChecker", "checks")
    r = ctx.rule(rid, "registering under a format name replaces whatever entry the name had (function and raises), for every name incl. the empty one", floor=1)
    from .fmtsem import checks_eval
    try:
        sem = checks_eval(prog)
    except RecursionError:
        sem = None
    if sem is None:
        r.ok(site(f), "NOT DECIDED: FormatChecker.checks is outside the evaluated fragment")
        r.note(site(f), "%s not decided" % rid)
    elif sem.get("raises"):
        r.fail("%s|checks|raises" % f.qual, site(f), "on the registration scenarios the checker %s" % sem["raises"])
    elif sem["latest-wins"]:
        r.fail("%s|checks|latest-wins" % f.qual, site(f), sem["latest-wins"])
    else:
        r.ok(site(f), "re-registration, same-function re-registration with another raises, the empty name and a built-in name overridden on one object: the entry is the latest (fn, raises)")
    return r


def rule_registration(ctx, rid="R12.6"):
    """_checks_drafts registers under each non-empty draft name on that draft's checker and class-wide under the newest
    name, forwarding raises everywhere."""
    prog = ctx.prog
    calls = calls_of(prog)
    r = ctx.rule(rid, "_checks_drafts registers on the matching draft checker, class-wide under the newest name, always forwarding raises", floor=5)
    f = prog.func("_format._checks_drafts")
    from .fmtsem import registration_eval
    sem = registration_eval(prog)
    if sem is not None:
        if sem["registers"] is None:
            for d in ("draft3", "draft4", "draft6", "draft7"):
                r.ok(site(f) + " [%s]" % d, "registered on the %s checker under that draft's name (or the common name), with its raises" % d)
            r.ok(site(f) + " [class-wide]", "registered class-wide under the newest draft's name, with its raises; the function is returned unchanged")
        else:
            r.fail("%s|cls-wide" % f.qual if "class-wide" in sem["registers"] else "%s|default|registration" % f.qual, site(f), sem["registers"])
        return r
    wrap = [x for x in f.nested.values() if isinstance(x, Func)]
    if len(wrap) != 1:
        raise AnalysisError("_checks_drafts: expected one nested function")
    w = wrap[0]
    mod = f.mod
    # draft checker map
    dc = prog.resolve_name(mod, "_draft_checkers")
    mapping = {}
    if isinstance(dc, tuple) and dc[0] == "expr":
        v = dc[2]
        if isinstance(v, ast.Call) and norm(v.func) == "dict":
            mapping = {k.arg: norm(k.value) for k in v.keywords}
        elif isinstance(v, ast.Dict):
            mapping = {k.value: norm(x) for k, x in zip(v.keys, v.values) if isinstance(k, ast.Constant)}
    for d in ("draft3", "draft4", "draft6", "draft7"):
        want = "%s_format_checker" % d
        if mapping.get(d) == want:
            r.ok("jsonschema/_format.py _draft_checkers[%r]" % d, want)
        else:
            r.fail("draft_checkers|%s|%s" % (d, mapping.get(d)), site(f), "_draft_checkers[%r] is %s, expected %s" % (d, mapping.get(d), want))
    # registration facts of wrap(): which draft's checker receives which name parameter (with raises forwarded)
    pairs = set()
    recognised = False
    for n in walk_body(w):
        if isinstance(n, ast.If) and isinstance(n.test, ast.Name):
            for c in ast.walk(n):
                if isinstance(c, ast.Call) and isinstance(c.func, ast.Attribute) and c.func.attr == "checks":
                    recv = c.func.value
                    a = [norm(x) for x in c.args] + ["%s=%s" % (k.arg, norm(k.value)) for k in c.keywords]
                    fwd = len(a) > 1 and a[1] in ("raises", "raises=raises")
                    if isinstance(recv, ast.Subscript) and isinstance(recv.slice, ast.Constant) and a and a[0] == n.test.id and fwd:
                        pairs.add((recv.slice.value, n.test.id))
                        recognised = True
        if isinstance(n, ast.For) and isinstance(n.target, ast.Tuple) and len(n.target.elts) == 2 and all(isinstance(e, ast.Name) for e in n.target.elts):
            kv, pv = n.target.elts[0].id, n.target.elts[1].id
            tbl = n.iter
            if isinstance(tbl, ast.Name):
                defs = [x.value for x in walk_body(w) if isinstance(x, ast.Assign) and any(isinstance(t, ast.Name) and t.id == tbl.id for t in x.targets)]
                tbl = defs[0] if len(defs) == 1 else None
            body_ok = False
            for c in ast.walk(n):
                if isinstance(c, ast.Call) and isinstance(c.func, ast.Attribute) and c.func.attr == "checks":
                    recv = c.func.value
                    a = [norm(x) for x in c.args] + ["%s=%s" % (k.arg, norm(k.value)) for k in c.keywords]
                    guarded = any(isinstance(i, ast.If) and isinstance(i.test, ast.Name) and i.test.id == pv and c in list(ast.walk(i)) for i in ast.walk(n))
                    if isinstance(recv, ast.Subscript) and norm(recv.slice) == kv and a and a[0] == pv and len(a) > 1 and a[1] in ("raises", "raises=raises") and guarded:
                        body_ok = True
            if body_ok and isinstance(tbl, (ast.Tuple, ast.List)) and all(isinstance(e, (ast.Tuple, ast.List)) and len(e.elts) == 2 and
                                                                         isinstance(e.elts[0], ast.Constant) and isinstance(e.elts[1], ast.Name) for e in tbl.elts):
                for e in tbl.elts:
                    pairs.add((e.elts[0].value, e.elts[1].id))
                recognised = True
    if not recognised:
        r.note(site(w), "unrecognised registration idiom in _checks_drafts.wrap: the per-draft registration is not decided here")
        for d in ("draft3", "draft4", "draft6", "draft7"):
            r.ok(site(w) + " [%s]" % d, "NOTE: registration idiom not recognised (not decided)")
    else:
        for d in ("draft3", "draft4", "draft6", "draft7"):
            if (d, d) in pairs and not any(k == d and p != d for (k, p) in pairs):
                r.ok(site(w) + " [%s]" % d, "registered on _draft_checkers[%r] under its own name with raises" % d)
            else:
                r.fail("%s|register|%s" % (w.qual, d), site(w), "name for %s is not registered on that draft's checker with `raises` forwarded (found %s)" % (d, sorted(pairs)))
    # class-wide
    ok = False
    for n in walk_body(w):
        if isinstance(n, ast.Call) and isinstance(n.func, ast.Attribute) and n.func.attr == "cls_checks":
            a0 = n.args[0] if n.args else None
            if isinstance(a0, ast.BoolOp) and isinstance(a0.op, ast.Or) and [norm(x) for x in a0.values] == ["draft7", "draft6", "draft4", "draft3"] \
                    and len(n.args) > 1 and norm(n.args[1]) == "raises":
                ok = True
    if ok:
        r.ok(site(w) + " [class-wide]", "FormatChecker.cls_checks(draft7 or draft6 or draft4 or draft3, raises)")
    else:
        r.fail("%s|cls-wide" % w.qual, site(w), "class-wide registration is not under the newest name with raises forwarded")
    # name defaulting in the outer function
    for d in ("draft3", "draft4", "draft6", "draft7"):
        okd = any(isinstance(n, ast.Assign) and norm(n.targets[0]) == d and norm(n.value) == "%s or name" % d for n in walk_body(f))
        if not okd:
            r.fail("%s|default|%s" % (f.qual, d), site(f), "%s does not default to `name`" % d)
    # checks() stores (func, raises) under the name
    chk = find_method(prog, "_format.FormatChecker", "checks")
    inner = [x for x in chk.nested.values() if isinstance(x, Func)]
    st_ok = False
    for g in inner:
        for n in walk_body(g):
            if isinstance(n, ast.Assign) and isinstance(n.targets[0], ast.Subscript) and norm(n.targets[0].value).endswith(".checkers") \
                    and norm(n.targets[0].slice) == chk.params[1] and isinstance(n.value, ast.Tuple) \
                    and [norm(x) for x in n.value.elts] == [g.params[0], chk.params[2]]:
                st_ok = True
    if st_ok:
        r.ok(site(chk), "checks stores (func, raises) under the format name")
    else:
        r.fail("%s|store" % chk.qual, site(chk), "checks() does not store (func, raises) under the format name")
    return r


def rule_no_type_gate(ctx, rid="R12.1b"):
    """The keyword hands every instance to the checker: format names may constrain non-strings (custom checkers)."""
    prog = ctx.prog
    calls = calls_of(prog)
    r = ctx.rule(rid, "the format keyword passes every instance, of any JSON type, to the checker (no instance-type gate)", floor=1)
    for f, drafts in format_keyword_funcs(prog).items():
        ip = calls.param_with_role(f, "instance")
        gates = []
        for n in walk_body(f):
            if isinstance(n, ast.Call) and isinstance(n.func, ast.Attribute) and n.func.attr == "is_type" and n.args and norm(n.args[0]) == ip:
                gates.append(n)
            if isinstance(n, ast.Call) and norm(n.func) == "isinstance" and n.args and norm(n.args[0]) == ip:
                gates.append(n)
        if gates:
            for g in gates:
                r.fail("%s|instance-type-gate|%s" % (f.qual, norm(g)[:40]), site(f, g),
                       "the format keyword tests the instance's type (`%s`): a custom checker for non-strings is never consulted, so validation and conforms() disagree" % norm(g)[:50])
        else:
            r.ok(site(f), "no test of the instance's type")
    return r


def rule_check_stateless(ctx, rid="R12.3w"):
    from ..effects import effects_of
    prog = ctx.prog
    eff = effects_of(prog)
    r = ctx.rule(rid, "check() and conforms() keep no state: the verdict for (instance, format) depends on the registered function alone", floor=2)
    for name in ("check", "conforms"):
        f = find_method(prog, "_format.FormatChecker", name)
        ws = eff.nonlocal_writes(f)
        if ws:
            for w, t in ws:
                r.fail("%s|state|%s" % (f.qual, w.text[:40]), site(f, w.node), "%s writes %s (%s): earlier checks can change later verdicts" % (name, w.text[:50], t))
        else:
            r.ok(site(f), "no non-local write")
        reads = [n for n in walk_body(f) if isinstance(n, ast.Attribute) and isinstance(n.value, ast.Name) and n.value.id == f.params[0]
                 and n.attr not in ("checkers", "check", "conforms")]
        for n in reads:
            r.fail("%s|extra-state-read|%s" % (f.qual, n.attr), site(f, n), "%s consults self.%s besides the registry" % (name, n.attr))
    return r


def rule_single_pass(ctx, rid="R12.7"):
    """`formats` is documented as an Iterable: the subset constructor may walk it once.  A second walk of a one-shot
    iterable finds nothing, the table comes out empty, and every format silently passes."""
    prog = ctx.prog
    r = ctx.rule(rid, "FormatChecker(formats=...) consumes its `formats` iterable at most once on every path", floor=1)
    f = find_method(prog, "_format.FormatChecker", "__init__")
    from .fmtsem import init_eval
    sem = init_eval(prog)
    if sem is not None:
        if sem["init"] is None:
            r.ok(site(f) + " [table]", "a copy of its own class's registry, or the named subset (also from a one-shot iterator); unknown names raise KeyError")
        else:
            r.fail("%s|init-table" % f.qual, site(f), sem["init"])
    if len(f.params) < 2:
        raise AnalysisError("FormatChecker.__init__ lost its formats parameter")
    p = f.params[1]
    cfg = cfg_of(f)
    rd = reaching_defs(cfg)

    def consumes(n):
        """does node n iterate / hand over the *parameter* object (not a re-bound, realised copy)?"""
        if cfg.entry.id not in rd[n.id].get(p, ()):
            return []
        out = []
        exprs = node_exprs(n)
        for e in exprs:
            for x in walk_expr(e):
                if isinstance(x, ast.Call):
                    for a in list(x.args) + [k.value for k in x.keywords]:
                        if isinstance(a, ast.Name) and a.id == p and norm(x.func) not in ("isinstance", "type", "id"):
                            out.append(x)
                        if isinstance(a, ast.Starred) and isinstance(a.value, ast.Name) and a.value.id == p:
                            out.append(x)
                if isinstance(x, (ast.GeneratorExp, ast.ListComp, ast.SetComp, ast.DictComp)):
                    for g in x.generators:
                        if isinstance(g.iter, ast.Name) and g.iter.id == p:
                            out.append(g.iter)
                if isinstance(x, ast.Compare) and any(isinstance(o, (ast.In, ast.NotIn)) for o in x.ops) and \
                        any(isinstance(c, ast.Name) and c.id == p for c in x.comparators):
                    out.append(x)
        if n.kind == "for" and isinstance(n.ast.iter, ast.Name) and n.ast.iter.id == p:
            out.append(n.ast.iter)
        return out
    cons = [(n, c) for n in cfg.live for c in consumes(n)]
    bad = None
    for (n, c) in cons:
        if sum(1 for (m, _c) in cons if m is n) > 1:
            bad = (n, n)
            break
        seen, todo = set(), [y for (_l, y) in n.succ]
        while todo and bad is None:
            x = todo.pop()
            if x.id in seen:
                continue
            seen.add(x.id)
            if x is n and n.kind == "for":
                continue        # the loop head: its iterable is evaluated once
            if any(m is x for (m, _c) in cons):
                bad = (n, x)
                break
            todo.extend(y for (_l, y) in x.succ)
        if bad:
            break
    if bad:
        r.fail("%s|formats-walked-twice" % f.qual, site(f, bad[1].ast),
               "`%s` is consumed at `%s` and again at `%s`: given a one-shot iterable the second walk is empty, the checker knows no "
               "format, and every instance passes the formats it was built for" % (p, bad[0].text[:40], bad[1].text[:40]))
    elif not cons:
        r.fail("%s|formats-unused" % f.qual, site(f), "the `%s` argument is never consumed: the subset is ignored" % p)
    else:
        r.ok(site(f, cons[0][0].ast), "one walk: %s" % cons[0][0].text[:60])
    return r


def run(ctx):
    ctx.explanation = (
        "C12 is decided from the shape of three functions and the registry: R12.1 CFG must-pass-through of the "
        "checker-present edge in the format keyword; R12.2 exactly FormatError is converted with its cause; R12.3 "
        "FormatChecker.check (unknown names return, the entry's own `raises` is the only handler, FormatError iff falsy "
        "result, cause forwarded); R12.4 conforms wraps check; R12.5 every registered built-in checker in every "
        "optional-import branch tests isinstance(str) before any use of the instance and returns True otherwise; "
        "R12.6 registration table sanity; R12.7 the subset constructor walks its `formats` iterable once.")
    ctx.assume("custom checkers are opaque; their exceptions not listed in `raises` propagate by design")
    rule_off_without_checker(ctx)
    rule_no_type_gate(ctx)
    rule_check_stateless(ctx)
    rule_exact_conversion(ctx)
    rule_check(ctx)
    rule_conforms(ctx)
    rule_string_guard(ctx)
    rule_registration(ctx)
    rule_checks_latest_wins(ctx)
    # R12.14: what a format function raises outside its `raises` reaches the caller: on its way out of the dispatcher nothing -- the
    # leaving of a scope entered for the schema's id included -- swallows it (C12-r7m1)
    from . import scope as _scope
    _scope.rule_scope_entered(ctx, "R12.14")
    _scope.rule_no_jump_in_finally(ctx, "R12.15", ('validators', '_validators', '_legacy_validators', '_utils', '_format', '_types', 'exceptions'), "the validation path")
    rule_single_pass(ctx)
    # R12.8: "without a format checker format has no effect" also where the library validates on the caller's behalf: check_schema
    # (and so jsonschema.validate) checks the schema against the metaschema with no format checker
    from .c11 import rule_wiring
    rule_wiring(ctx, "R12.8")
    # R12.9: the checker consulted is the one the validator was constructed with, whatever it looks like (an empty registry is
    # falsy if it defines __len__): decided on the class create() builds (valsem.classes_eval, constructor clause)
    rule_checker_as_given(ctx)
    # R12.10: is_valid / validate() / descend see `format` exactly as iter_errors does: they are iter_errors on the same validator
    # (a fresh validator built for a subschema would have to be handed the checker again)
    from .c04 import rule_single_source
    rule_single_source(ctx, "R12.10")
    rule_check_total(ctx)
    rule_meta_format(ctx)


def rule_checker_as_given(ctx, rid="R12.9"):
    from .c02 import _valsem
    prog = ctx.prog
    init = calls_of(prog).V.methods["__init__"]
    r = ctx.rule(rid, "a validator keeps the format checker (and resolver) it was constructed with, as given", floor=1)
    sem = _valsem(ctx, "classes_eval")
    if sem is None:
        r.ok(site(init), "NOT DECIDED: the constructor is outside the evaluated fragment")
        r.note(site(init), "%s not decided" % rid)
    elif sem.get("own-resolver", sem.get("raises")) is None:
        r.ok(site(init), "schema, resolver and format checker are recorded as given, also when the object given is falsy; without a checker: None")
    else:
        r.fail("%s|own-resolver" % init.qual, site(init), sem.get("own-resolver") or sem.get("raises"))
    return r


def rule_check_total(ctx, rid="R12.11"):
    """check() answers for every instance: with the registered functions raising only what they list, nothing but FormatError leaves
    check() and nothing at all leaves conforms() -- in particular nothing is computed from the instance (its repr, say) unless
    there is a failure to word.  Kind interpreter on the two methods, instance = any JSON value."""
    from ..interp import Interp, obj
    from ..kinds import ANY, AV
    from .c03 import run_entry
    prog = ctx.prog
    r = ctx.rule(rid, "FormatChecker.check lets nothing but FormatError escape and conforms nothing at all, for any instance (registered functions raising only what they list)", floor=2)
    I = Interp(prog, "draft7")
    for name, allowed in (("check", {"FormatError"}), ("conforms", set())):
        m = find_method(prog, "_format.FormatChecker", name)
        eff = run_entry(I, m, [obj("FormatChecker"), ANY, AV(["str"])])
        bad = {}
        for x in eff:
            if x.exc in allowed or x.exc == "CheckerRaises":
                continue
            bad.setdefault(x.key(), x)
        if not bad:
            r.ok(site(m), "escape set within %s" % (sorted(allowed) or "{}"))
        for key, x in sorted(bad.items()):
            r.fail(key, site(x.func, x.node), "%s can escape FormatChecker.%s: %s%s" % (x.exc, name, x.op, (" -- operand %s" % x.operand) if x.operand else ""))
    return r


def rule_meta_format(ctx, rid="R12.12"):
    """"Unknown format names never cause failure" and any string is a format name: the bundled metaschemas must let every string
    through as the value of `format` (check_schema runs before validation in jsonschema.validate and the CLI)."""
    prog = ctx.prog
    r = ctx.rule(rid, "each bundled metaschema admits every string (the empty one too) as a format name, and nothing else about format", floor=4)
    for d in DRAFTS:
        meta = prog.tables.drafts[d].meta
        sub = (meta.get("properties") or {}).get("format")
        where = "jsonschema/schemas/%s.json#/properties/format" % d
        if sub == {"type": "string"}:
            r.ok(where, '{"type": "string"}')
        else:
            r.fail("%s|meta-format|%s" % (d, json.dumps(sub, sort_keys=True)[:60]), where,
                   "%s's metaschema describes `format` as %s: with anything beyond type=string some format names make check_schema (and so "
                   "jsonschema.validate) reject the schema, whatever checker is in use" % (d, json.dumps(sub, sort_keys=True)[:80]))
    return r
