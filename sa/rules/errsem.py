"""exceptions.py evaluated by sa/tokeval.py: the package's own _Error / ValidationError / SchemaError / ErrorTree classes are
instantiated inside the definitional interpreter (nothing of /repo is imported) and asked what the properties say about them.
Each function returns {clause: None (holds) | message}, or None when the code is outside the evaluated fragment (the caller then
falls back to its structural rule)."""
from ..tokeval import Ev, ClsRef, Obj, Tok, Undecided, PyRaise


def _classes(prog):
    ev = Ev(prog, fuel=60000, real_errors=True)
    Obj.ev = ev
    VE = ClsRef(ev, prog.cls("exceptions.ValidationError"))
    SE = ClsRef(ev, prog.cls("exceptions.SchemaError"))
    return ev, VE, SE


def _attr(ev, o, name):
    return ev.obj_getattr(o, name)


def paths_eval(prog):
    """C06: parent links, absolute = parent's absolute ++ relative (three levels), relative_* alias the stored deques."""
    out = {}
    try:
        ev, VE, SE = _classes(prog)
        child = VE("c", path=["b", 1], schema_path=["items", 1])
        grand = VE("g", path=["z"], schema_path=["not"])
        child2 = VE("c2", path=[], schema_path=["x"], context=[grand])
        parent = VE("p", path=["a", 0], schema_path=["properties", "a"], context=[child, child2])
        g = lambda o, n: _attr(ev, o, n)
        out["parent-links"] = None
        if not (g(child, "parent") is parent and g(child2, "parent") is parent and g(grand, "parent") is child2 and g(parent, "parent") is None):
            out["parent-links"] = "context errors do not get their parent link (child.parent is %r)" % (g(child, "parent"),)
        if list(g(parent, "context")) != [child, child2]:
            out["parent-links"] = "the context list is not stored as given"
        for name, rel, want in (("absolute_path", "relative_path", {child: ["a", 0, "b", 1], grand: ["a", 0, "z"], child2: ["a", 0], parent: ["a", 0]}),
                                ("absolute_schema_path", "relative_schema_path",
                                 {child: ["properties", "a", "items", 1], grand: ["properties", "a", "x", "not"], child2: ["properties", "a", "x"], parent: ["properties", "a"]})):
            out[name] = None
            for e, w in want.items():
                got = list(g(e, name))
                if got != w:
                    out[name] = "%s of %r is %r, expected %r (parent's absolute path followed by the relative one)" % (name, e.attrs.get("message"), got, w)
                    break
            # reading an absolute path must not change the stored relative one
            if out[name] is None and (list(g(child, rel)) != want[child][2:] or list(g(grand, rel)) != want[grand][-1:]):
                out[name] = "computing %s modifies the stored relative path" % name
        out["alias"] = None
        for fld, rel in (("path", "relative_path"), ("schema_path", "relative_schema_path")):
            if g(parent, fld) is not g(parent, rel):
                out["alias"] = "%s and %s are not one deque: prepending to one (descend does) would not show in the other" % (fld, rel)
            if list(g(parent, fld)) != {"path": ["a", 0], "schema_path": ["properties", "a"]}[fld]:
                out["alias"] = "%s is not built from the %s argument" % (fld, fld)
            dq = g(parent, fld)
            if not hasattr(dq, "appendleft"):
                out["alias"] = "%s is not a deque" % fld
    except Undecided:
        return None
    except PyRaise as pr:
        out["raises"] = "raises %s (%s)" % (pr.name, pr.msg)
    return out


def json_path_eval(prog):
    out = {"json_path": None}
    try:
        ev, VE, SE = _classes(prog)
        child = VE("c", path=["b", 1], schema_path=["items", 1])
        parent = VE("p", path=["a", 0], schema_path=["properties", "a"], context=[child])
        cases = [(child, "$.a[0].b[1]"), (parent, "$.a[0]"), (VE("r"), "$"), (VE("d", path=["0", 0, "10", 10]), "$.0[0].10[10]")]
        for e, want in cases:
            got = _attr(ev, e, "json_path")
            if got != want:
                out["json_path"] = "json_path of the error at %r is %r, expected %r (the absolute instance path; indices in brackets, names dotted)" % (
                    list(_attr(ev, e, "absolute_path")), got, want)
                break
    except Undecided:
        return None
    except PyRaise as pr:
        out["json_path"] = "raises %s (%s)" % (pr.name, pr.msg)
    return out


FIELDS = ("message", "cause", "context", "validator", "validator_value", "path", "schema_path", "instance", "schema", "parent")


def create_from_eval(prog):
    """C04: SchemaError.create_from(e) carries every field of e (message, paths, keyword and values, cause, context, parent)."""
    out = {"create_from": None}
    try:
        ev, VE, SE = _classes(prog)
        c = VE("inner", path=["i"])
        par = VE("outer")
        vals = {"validator": "kw", "validator_value": Tok("vv"), "instance": Tok("inst"), "schema": Tok("sch"), "cause": Tok("cause")}
        # second table row: the JSON values null / false / 0 / "" / [] as instance, keyword value and schema (all legitimate)
        falsy = {"validator": "const", "validator_value": None, "instance": None, "schema": False, "cause": None}
        for row, kw, ctxt, parent_ in (("distinct values", vals, [c], par), ("null/false values", falsy, [], None),
                                      ("zero/empty values", {"validator": "enum", "validator_value": [], "instance": 0, "schema": {}, "cause": None}, [], None)):
            e = VE("m", path=["p", 3] if ctxt else [], schema_path=["sp", 0] if ctxt else [], context=ctxt, parent=parent_, **kw)
            s = ev.call_func(ev.find_method(SE.cls, "create_from"), [SE, e], {})
            if not (isinstance(s, Obj) and s.cls is SE.cls):
                out["create_from"] = "create_from does not build an instance of the class it is called on"
                return out
            for f in FIELDS:
                a, b = _attr(ev, e, f), _attr(ev, s, f)
                same = (list(a) == list(b)) if f in ("path", "schema_path", "context") else (a is b or (type(a) is type(b) and a == b))
                if not same:
                    out["create_from"] = "field %s is not carried over with %s (%r became %r)" % (f, row, a, b)
                    return out
    except Undecided:
        return None
    except PyRaise as pr:
        out["create_from"] = "raises %s (%s)" % (pr.name, pr.msg)
    return out


def tree_eval(prog):
    """C17: an ErrorTree built from five errors (root, two at one node, one elsewhere, one with a repeated keyword) inside the
    interpreter: filing by own path and keyword, recorded instances, accessor agreement, totals, lookups of error-free indices."""
    out = {}
    try:
        ev, VE, SE = _classes(prog)
        T = ClsRef(ev, prog.cls("exceptions.ErrorTree"))
        inst = {"x": [10, 20], "y": 1, "a.b": 2, "a": {"b": 3}, "2024": "digit-named member", "0": "zero"}
        e0 = VE("n", validator="pattern", path=[], instance="x")      # an error under propertyNames: its instance is a member *name*
        e1 = VE("a", validator="type", path=[], instance=inst)
        e2 = VE("b", validator="minimum", path=["x", 0], instance=10)
        e3 = VE("c", validator="type", path=["x", 0], instance=10)
        e4 = VE("d", validator="required", path=["y"], instance=1)
        e5 = VE("e", validator="minItems", path=["x"], instance=[10, 20])
        e6 = VE("f", validator="maximum", path=["a.b"], instance=2)
        e7 = VE("g", validator="minimum", path=["a", "b"], instance=3)
        tree = T([e0, e1, e2, e3, e4, e5, e6, e7])
        g = lambda o, n: _attr(ev, o, n)
        out["filing"] = None
        x = tree["x"]
        x0 = x[0]
        y = tree["y"]
        checks = [
            (dict(g(tree, "errors")) == {"pattern": e0, "type": e1}, "the root node holds %r, expected the two errors with an empty path" % (dict(g(tree, "errors")),)),
            (dict(g(tree["a.b"], "errors")) == {"maximum": e6} and dict(g(tree["a"]["b"], "errors")) == {"minimum": e7} and not dict(g(tree["a"], "errors")),
             "the member named 'a.b' and the member 'b' of 'a' are not kept apart (%r / %r)" % (dict(g(tree["a.b"], "errors")), dict(g(tree["a"]["b"], "errors")))),
            (dict(g(x, "errors")) == {"minItems": e5}, "node ['x'] holds %r, expected the minItems error" % (dict(g(x, "errors")),)),
            (dict(g(x0, "errors")) == {"minimum": e2, "type": e3}, "node ['x'][0] holds %r, expected both errors of that element under their own keywords" % (dict(g(x0, "errors")),)),
            (dict(g(y, "errors")) == {"required": e4}, "node ['y'] holds %r" % (dict(g(y, "errors")),)),
        ]
        for ok, msg in checks:
            if not ok:
                out["filing"] = msg
                break
        out["instance-record"] = None
        # the recorded instance is a private attribute, whatever its name: the one attribute of the root that holds `inst` itself
        rec = [k for k, v in tree.attrs.items() if v is inst]
        if len(rec) != 1 or not (g(x0, rec[0]) == 10 and g(y, rec[0]) == 1 and g(x, rec[0]) == [10, 20]):
            out["instance-record"] = "a node does not record the instance of the error filed there last (root attributes holding it: %r)" % (rec,)
        out["accessors"] = None
        if sorted(iter(tree)) != ["a", "a.b", "x", "y"] or not ("x" in tree) or ("z" in tree) or (0 not in x) or (1 in x):
            out["accessors"] = "`in` / iteration do not report exactly the indices that have errors (root iterates %r)" % (sorted(iter(tree)),)
        elif not (isinstance(x, Obj) and x.cls is T.cls and x0.cls is T.cls):
            out["accessors"] = "child nodes are not trees of the tree's own class"
        else:
            sub_ = T([])
            tree["new"] = sub_
            if not ("new" in tree and tree["new"] is sub_ and "new" in list(iter(tree))):
                out["accessors"] = "__setitem__ does not file the child where __contains__/__getitem__/__iter__ look"
            # take the probe child out again, from whatever attribute holds the children (a mapping with "new" in it)
            for _k, _v in list(tree.attrs.items()):
                if isinstance(_v, dict) and "new" in _v:
                    _v.pop("new")
        out["total"] = None
        totals = [(tree, 8), (x, 3), (x0, 2), (y, 1), (tree["a"], 1)]
        for node, want in totals:
            got = g(node, "total_errors")
            if got != want or len(node) != want:
                out["total"] = "total_errors/len of a node with %d errors at or below it is %r/%r" % (want, got, len(node))
                break
        out["absent-index"] = None
        quiet = x[1]
        if not (isinstance(quiet, Obj) and g(quiet, "total_errors") == 0):
            out["absent-index"] = "looking up an index that is in the instance but has no errors does not give an empty tree"
        # a node whose *last* error is a propertyNames error records a member name (a string) as its instance; its children are
        # still found, whatever subscripting that string would do
        tree2 = T([e1, e2, e4, e0])
        try:
            kids = (tree2["x"], tree2["y"], tree2["x"][0])
            if not all(isinstance(k, Obj) for k in kids) or dict(g(kids[2], "errors")) != {"minimum": e2}:
                out["absent-index"] = "children of a node whose recorded instance is a member name are not the filed ones"
        except PyRaise as pr:
            out["absent-index"] = "looking up a child that has errors raises %s when the node's recorded instance is a string (a propertyNames error was filed last)" % pr.name
        # arrival order is the validator's business: siblings first, then a deeper error under the first sibling (two allOf branches
        # over one object), shallow after deep, a shared prefix after an unrelated path
        out["order"] = None
        shared = {"the same": "object at two places"}       # one Python object may sit at several places of an instance
        f1 = VE("p", validator="type", path=["a"], instance=shared)
        f2 = VE("q", validator="type", path=["b"], instance=shared)
        f3 = VE("r", validator="minimum", path=["a", "b"], instance=3)
        f4 = VE("s", validator="maximum", path=["a", "b", "c"], instance=4)
        f5 = VE("t", validator="type", path=["a", "c"], instance=5)
        f6 = VE("u", validator="enum", path=[], instance=6)
        want_nodes = {(): {"enum": f6}, ("a",): {"type": f1}, ("b",): {"type": f2}, ("a", "b"): {"minimum": f3}, ("a", "b", "c"): {"maximum": f4}, ("a", "c"): {"type": f5}}
        import itertools as _it
        orders = [[f1, f2, f3, f4, f5, f6], [f4, f3, f1, f2, f6, f5], [f2, f4, f1, f5, f3, f6], [f6, f5, f4, f3, f2, f1], [f1, f3, f2, f4, f5, f6], [f3, f2, f4, f1, f6, f5]]
        for order in orders:
            t3 = T(list(order))
            for pth, werrs in want_nodes.items():
                node = t3
                try:
                    for el in pth:
                        node = node[el]
                    got_errs = dict(g(node, "errors"))
                except PyRaise as pr:
                    got_errs = "<%s>" % pr.name
                if got_errs != werrs:
                    out["order"] = "errors arriving as %s: the node at %r holds %r, expected %r" % ([list(g(e, "path")) for e in order], list(pth), got_errs, werrs)
                    break
            if out["order"] is None and (g(t3, "total_errors") != 6 or sorted(iter(t3)) != ["a", "b"] or sorted(iter(t3["a"])) != ["b", "c"]):
                out["order"] = "errors arriving as %s: %d errors in the tree / children %r, expected 6 / ['a', 'b']" % (
                    [list(g(e, "path")) for e in order], g(t3, "total_errors"), sorted(iter(t3)))
            if out["order"] is not None:
                break
        # one element value may occur several times in a path (a member "a" of a member "a", element 0 of element 0): each error is
        # filed at the end of its *own* path, whichever of the shorter paths arrived before it
        h1 = VE("h1", validator="required", path=["a"], instance={"a": "s"})
        h2 = VE("h2", validator="type", path=["a", "a"], instance="s")
        h3 = VE("h3", validator="maxItems", path=[0], instance=[1, 2])
        h4 = VE("h4", validator="type", path=[0, 0], instance=1)
        h5 = VE("h5", validator="type", path=["n", "m", "n"], instance=5)
        h6 = VE("h6", validator="minimum", path=["n"], instance={"m": {"n": 5}})
        h7 = VE("h7", validator="enum", path=["n", "m"], instance={"n": 5})
        for order, want in (([h1, h2], {("a",): {"required": h1}, ("a", "a"): {"type": h2}}), ([h2, h1], {("a",): {"required": h1}, ("a", "a"): {"type": h2}}),
                            ([h3, h4], {(0,): {"maxItems": h3}, (0, 0): {"type": h4}}), ([h6, h7, h5], {("n",): {"minimum": h6}, ("n", "m"): {"enum": h7}, ("n", "m", "n"): {"type": h5}}),
                            ([h6, h5, h7], {("n",): {"minimum": h6}, ("n", "m"): {"enum": h7}, ("n", "m", "n"): {"type": h5}})):
            t4 = T(list(order))
            for pth, werrs in want.items():
                node = t4
                try:
                    for el in pth:
                        node = node[el]
                    got_errs = dict(g(node, "errors"))
                except PyRaise as pr:
                    got_errs = "<%s>" % pr.name
                if got_errs != werrs and out["order"] is None:
                    out["order"] = "errors arriving as %s (an element value occurring twice in a path): the node at %r holds %r, expected %r" % (
                        [list(g(e, "path")) for e in order], list(pth), got_errs, werrs)
            if out["order"] is None and g(t4, "total_errors") != len(order):
                out["order"] = "errors arriving as %s: %d errors in the tree, expected %d" % ([list(g(e, "path")) for e in order], g(t4, "total_errors"), len(order))
        # errors below the root only (a Draft 4+ `required` error: its instance is the object that lacks the member): the nodes above
        # them know nothing about their own instances, and looking up an error-free sibling must not consult somebody else's
        whole = {"a": {}, "b": 1, "c": [{}, {"id": 1}]}
        q1 = VE("'x' is a required property", validator="required", validator_value=["x"], path=["a"], instance=whole["a"])
        q2 = VE("'id' is a required property", validator="required", validator_value=["id"], path=["c", 0], instance=whole["c"][0])
        t5 = T([q1, q2])
        try:
            probes = (t5["b"], t5["c"][1], t5["a"])
            if not all(isinstance(k, Obj) for k in probes) or g(probes[0], "total_errors") != 0 or g(probes[1], "total_errors") != 0 or dict(g(probes[2], "errors")) != {"required": q1}:
                out["absent-index"] = out.get("absent-index") or "with `required` errors below the root only, error-free siblings are not empty trees / the filed error is not found"
        except PyRaise as pr:
            out["absent-index"] = ("with `required` errors below the root only (each error's instance is the object lacking the member), looking up an error-free sibling "
                                   "of the root or of an array raises %s: a node consulted an instance that is not its own" % pr.name)
        # the error of a `false` schema has no keyword (validator is None): it is filed under None like any other, first in line or not;
        # of two errors with the same place and keyword the one that arrived last is the one kept
        n1 = VE("False schema does not allow 1", validator=None, path=[], instance=1)
        n2 = VE("dup-a", validator="pattern", path=["p"], instance="x")
        n3 = VE("dup-b", validator="pattern", path=["p"], instance="x")
        n4 = VE("False schema does not allow 2", validator=None, path=["p"], instance=2)
        for order, want_root, want_p in (([n1], {None: n1}, None), ([n1, n2, n3], {None: n1}, {"pattern": n3}), ([n2, n3, n4, n1], {None: n1}, {"pattern": n3, None: n4}),
                                         ([n4, n2], {}, {None: n4, "pattern": n2})):
            t6 = T(list(order))
            got_root = dict(g(t6, "errors"))
            got_p = dict(g(t6["p"], "errors")) if want_p is not None else None
            if (got_root != want_root or got_p != want_p) and out["filing"] is None:
                out["filing"] = ("errors arriving as %s: the root holds %r and ['p'] holds %r; expected %r and %r (an error without a keyword is filed under None; of "
                                 "two errors with one place and keyword the later one is kept)" % (
                                     [(list(g(e, "path")), g(e, "validator")) for e in order], got_root, got_p, want_root, want_p))
        # a path is a sequence of elements, not a string: member names that contain whatever a printed form of a path would use as a
        # separator or escape ('/', '.', '~1', '][', the empty name) stay the names of single members, in either arrival order
        s1 = VE("s1", validator="type", path=["a/b"], instance=1)
        s2 = VE("s2", validator="minimum", path=["a", "b"], instance=2)
        s3 = VE("s3", validator="type", path=["", "a"], instance=3)
        s4 = VE("s4", validator="maximum", path=["/a"], instance=4)
        s5 = VE("s5", validator="enum", path=["a~1b"], instance=5)
        s6 = VE("s6", validator="const", path=["a.b"], instance=6)
        s7 = VE("s7", validator="pattern", path=["a']['b"], instance="7")
        s8 = VE("s8", validator="format", path=["a", "b", ""], instance="8")
        s9 = VE("s9", validator="maxLength", path=["a", "b/"], instance="9")
        want_sep = {("a/b",): {"type": s1}, ("a", "b"): {"minimum": s2}, ("", "a"): {"type": s3}, ("/a",): {"maximum": s4}, ("a~1b",): {"enum": s5},
                    ("a.b",): {"const": s6}, ("a']['b",): {"pattern": s7}, ("a", "b", ""): {"format": s8}, ("a", "b/"): {"maxLength": s9}}
        for order in ([s1, s2, s3, s4, s5, s6, s7, s8, s9], [s9, s8, s7, s6, s5, s4, s3, s2, s1], [s2, s1, s4, s3, s6, s5, s9, s7, s8]):
            t7 = T(list(order))
            for pth, werrs in want_sep.items():
                node = t7
                try:
                    for el in pth:
                        node = node[el]
                    got_errs = dict(g(node, "errors"))
                except PyRaise as pr:
                    got_errs = "<%s>" % pr.name
                if got_errs != werrs and out["filing"] is None:
                    out["filing"] = ("errors arriving as %s (member names containing '/', '.', '~1' or nothing at all): the node at %r holds %r, expected %r -- a "
                                     "path is filed element by element, not under a joined spelling of it" % ([list(g(e, "path")) for e in order], list(pth), got_errs, werrs))
            if out["filing"] is None and (g(t7, "total_errors") != 9 or len(t7) != 9):
                out["filing"] = "nine errors at nine different places (member names containing separators): total_errors is %r" % (g(t7, "total_errors"),)
        # building a tree reads the errors; it does not change them (their paths are looked at again afterwards)
        out["errors-untouched"] = None
        for e, pth in ((e0, []), (e2, ["x", 0]), (e5, ["x"]), (e7, ["a", "b"]), (f4, ["a", "b", "c"]), (f6, [])):
            if list(g(e, "path")) != pth or list(g(e, "relative_path")) != pth or list(g(e, "absolute_path")) != pth:
                out["errors-untouched"] = "after trees were built from it, an error filed at %r has path %r" % (pth, list(g(e, "path")))
                break
        # ... and a member of the object that has no errors is still "an element that exists in the instance": the name recorded at
        # the node (a string) cannot vouch for the object's members, and must not be asked
        try:
            quiet2 = tree2["a.b"]
            if not (isinstance(quiet2, Obj) and g(quiet2, "total_errors") == 0):
                out["name-instance"] = "an error-free member of a node whose recorded instance is a member name does not give an empty tree"
            else:
                out["name-instance"] = None
        except PyRaise as pr:
            out["name-instance"] = ("looking up an error-free member of the object raises %s when the node's recorded instance is a member *name* (a propertyNames "
                                    "error was filed there last: its instance is the name, a string, which is then subscripted)" % pr.name)
        # a member whose name is made of digits is a member (of an object), not an array position
        for idx in ("2024", "0"):
            try:
                qd = tree[idx]
                if not (isinstance(qd, Obj) and g(qd, "total_errors") == 0):
                    out["absent-index"] = "looking up the error-free member %r of an object does not give an empty tree" % idx
            except PyRaise as pr:
                out["absent-index"] = "looking up the error-free member %r of an object raises %s (a digit string is a member name there, not an index)" % (idx, pr.name)
        for node, idx, exc in ((tree, "z", "KeyError"), (x, 5, "IndexError")):
            try:
                node[idx]
                out["absent-index"] = "looking up %r, which is not in the instance, does not raise" % (idx,)
            except PyRaise as pr:
                if pr.name != exc:
                    out["absent-index"] = "looking up %r raises %s, expected the instance's own %s" % (idx, pr.name, exc)
    except Undecided:
        return None
    except PyRaise as pr:
        out["raises"] = "raises %s (%s)" % (pr.name, pr.msg)
    return out


def best_match_eval(prog):
    """C04: best_match on error lists built inside the interpreter returns None for none, otherwise one of the given errors or an
    error of the context tree below them that has no context of its own -- never a copy or a new object; with the default key the
    shallowest error wins and a anyOf/oneOf winner is replaced by its deepest context error."""
    out = {"selects": None}
    try:
        ev, VE, SE = _classes(prog)
        f = prog.func("exceptions.best_match")
        bm = lambda errs, **kw: ev.call_func(f, [errs], kw)

        def closure(errs):
            outl, todo = [], list(errs)
            while todo:
                e = todo.pop()
                outl.append(e)
                todo.extend(_attr(ev, e, "context"))
            return outl
        if bm([]) is not None or bm(iter([])) is not None:
            out["selects"] = "best_match of no errors is not None"
            return out
        deep = VE("deep", validator="type", path=["a", "b"])
        shallow = VE("shallow", validator="minimum", path=["a"])
        c1 = VE("c1", validator="type", path=["p", "q"])
        c2 = VE("c2", validator="type", path=["p"])
        nested = VE("nested", validator="oneOf", path=["p", "q", "r"], context=[VE("leaf", validator="enum", path=["p", "q", "r", "s"])])
        any_ = VE("any", validator="anyOf", path=[], context=[c1, c2, nested])
        cases = [([deep, shallow], shallow), ([shallow, deep], shallow), (iter([deep]), deep), ([deep, any_], None), ([any_], None)]
        for errs, want in cases:
            errs = list(errs)
            got = bm(iter(errs))
            clo = closure(errs)
            if not any(got is e for e in clo):
                out["selects"] = "the result %r is not one of the given errors nor in their context trees" % (got,)
                break
            if not any(got is e for e in errs) and list(_attr(ev, got, "context")):
                out["selects"] = "the result %r is a context error that still has a context of its own" % (got,)
                break
            if want is not None and got is not want:
                out["selects"] = "among %r the result is %r, expected the shallowest, %r" % ([_attr(ev, e, "message") for e in errs], _attr(ev, got, "message"), _attr(ev, want, "message"))
                break
    except Undecided:
        return None
    except PyRaise as pr:
        out["selects"] = "raises %s (%s)" % (pr.name, pr.msg)
    return out
