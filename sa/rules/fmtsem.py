"""_format.py evaluated by sa/tokeval.py: FormatChecker.check / conforms against recording stub checkers, the registration
decorator against the four draft checker objects and the class-wide table, and every registered built-in checker against
instances that are not strings.  Same conventions as errsem: {clause: None | message}, or None when outside the fragment."""
from ..tokeval import Ev, ClsRef, Obj, Tok, Undecided, PyRaise


class Boom(Exception):
    pass


def _checker(prog, table):
    ev = Ev(prog, fuel=40000, real_errors=True)
    Obj.ev = ev
    c = prog.cls("_format.FormatChecker")
    o = Obj(c, {"checkers": dict(table)})
    o.ev = ev
    return ev, o, c


def check_eval(prog):
    out = {"unknown": None, "verdict": None, "cause": None, "unlisted": None, "once": None, "conforms": None}
    try:
        calls = []

        def fn(result=None, exc=None):
            def f(instance):
                calls.append(instance)
                if exc is not None:
                    raise exc
                return result
            return f
        listed, unlisted = ValueError("listed"), KeyError("unlisted")
        table = {
            "truthy": (fn(True), ()), "one": (fn(1), ()), "text": (fn("x"), (ValueError,)),
            "false": (fn(False), ()), "zero": (fn(0), (ValueError,)), "none": (fn(None), ()), "empty": (fn(""), ()),
            "raises-listed": (fn(exc=listed), (ValueError, TypeError)), "raises-single": (fn(exc=listed), ValueError),
            "raises-unlisted": (fn(exc=unlisted), (ValueError,)), "raises-nolist": (fn(exc=unlisted), ()),
        }
        ev, o, c = _checker(prog, table)
        check, conforms = ev.find_method(c, "check"), ev.find_method(c, "conforms")
        X = Tok("instance", ("string",))

        def run(m, name):
            del calls[:]
            try:
                return ("ret", ev.call_func(m, [o, X, name], {}))
            except PyRaise as pr:
                return ("exc", pr)
        # unknown names pass, nothing is called
        for unk in ("no-such-format", "FALSE", "False", "Raises-Listed", " false", "false ", ""):
            k, v = run(check, unk)
            if k != "ret" or v is not None or calls:
                out["unknown"] = "the format name %r, which the checker does not know (names are exact), does not simply pass" % unk
            k, v = run(conforms, unk)
            if k != "ret" or v is not True:
                out["unknown"] = "conforms() is not True for the format name %r, which the checker does not know" % unk
        for name in ("truthy", "one", "text"):
            k, v = run(check, name)
            if k != "ret":
                out["verdict"] = "a checker function returning a truthy value (%r) makes check() raise %s" % (table[name][0](X), v.name)
            elif calls != [X]:
                out["once"] = "the checker function is not called exactly once with the instance (%d calls)" % len(calls)
        for name in ("false", "zero", "none", "empty"):
            k, v = run(check, name)
            if k != "exc" or v.name != "FormatError":
                out["verdict"] = "a checker function returning the falsy value %r does not make check() raise FormatError" % (table[name][0](X),)
            elif ev.obj_getattr(v.obj, "cause") is not None:
                out["cause"] = "a plain falsy result yields a FormatError with a cause"
        for name in ("raises-listed", "raises-single"):
            k, v = run(check, name)
            if k != "exc" or v.name != "FormatError":
                out["verdict"] = "an exception listed in `raises` does not become a FormatError (%s)" % (v.name if k == "exc" else "no exception")
            elif ev.obj_getattr(v.obj, "cause") is not listed:
                out["cause"] = "the FormatError's cause is not the exception the checker function raised"
        for name in ("raises-unlisted", "raises-nolist"):
            k, v = run(check, name)
            if k != "exc" or v.obj is not unlisted:
                out["unlisted"] = "an exception that `raises` does not list does not reach the caller unchanged (%s)" % (
                    v.name if k == "exc" else "swallowed")
        # conforms() is check() as a boolean
        want = {"no-such-format": True, "truthy": True, "text": True, "false": False, "none": False, "raises-listed": False}
        for name, w in want.items():
            k, v = run(conforms, name)
            if k != "ret" or v is not w:
                out["conforms"] = "conforms() gives %r for a format whose check() %s" % (v if k == "ret" else v.name, "passes" if w else "fails")
        k, v = run(conforms, "raises-unlisted")
        if k != "exc" or v.obj is not unlisted:
            out["conforms"] = "conforms() does not let an unlisted exception through"
    except Undecided:
        return None
    except PyRaise as pr:
        out["raises"] = "raises %s (%s)" % (pr.name, pr.msg)
    return out


DRAFTS = ("draft3", "draft4", "draft6", "draft7")


def init_eval(prog):
    """FormatChecker.__init__: the instance's table is a copy of the registry *of its own class* (a subclass may carry its own),
    or the named subset of it."""
    out = {"init": None}
    try:
        ev = Ev(prog, fuel=20000, real_errors=True)
        Obj.ev = ev
        c = prog.cls("_format.FormatChecker")
        init = ev.find_method(c, "__init__")
        f1, f2 = (lambda x: True), (lambda x: False)
        own = {"own-a": (f1, ()), "own-b": (f2, (ValueError,))}
        for formats, want in ((None, own), (["own-b"], {"own-b": own["own-b"]}), (iter(["own-a"]), {"own-a": own["own-a"]}), ((), {})):
            o = Obj(c, {"checkers": own})      # an instance of a class whose registry is `own` (what a subclass's instances see)
            o.ev = ev
            ev.call_func(init, [o] + ([formats] if formats is not None else []), {})
            got = o.attrs.get("checkers")
            if got is own:
                out["init"] = "the instance shares its class's registry object: registering on the instance would register class-wide"
            elif got != want:
                out["init"] = "FormatChecker(%s) of a class with the registry %s gets the table %s" % (
                    "formats=%r" % (formats,) if formats is not None else "", sorted(own), sorted(got) if isinstance(got, dict) else got)
        o = Obj(c, {"checkers": own})
        o.ev = ev
        try:
            ev.call_func(init, [o, ["no-such"]], {})
            out["init"] = "naming an unknown format in formats= raises nothing"
        except PyRaise as pr:
            if pr.name != "KeyError":
                out["init"] = "naming an unknown format in formats= raises %s" % pr.name
    except Undecided:
        return None
    except PyRaise as pr:
        out["init"] = "raises %s (%s)" % (pr.name, pr.msg)
    return out


def registration_eval(prog):
    """_checks_drafts(...)(fn): fn lands on each draft checker under that draft's name (or the common name), class-wide under
    the newest draft's name, always with the given raises, and is returned unchanged."""
    out = {"registers": None}
    try:
        ev = Ev(prog, fuel=40000, real_errors=True)
        Obj.ev = ev
        c = prog.cls("_format.FormatChecker")
        cd = prog.func("_format._checks_drafts")
        mod = prog.mod("_format")
        objs = {}
        for d in DRAFTS:
            r = prog.resolve_name(mod, "%s_format_checker" % d)
            objs[d] = ev.resolved(r, d)
        rows = [dict(name="n"), dict(draft3="a3"), dict(draft7="z7", raises=(ValueError,)), dict(name="n2", draft3="b3", raises=KeyError),
                dict(draft4="c4", draft6="c6")]
        for kw in rows:
            def fn(instance):
                return True
            ret = ev.call_func(cd, [], dict(kw))(fn)
            if ret is not fn:
                out["registers"] = "the decorator does not hand back the decorated function itself"
                break
            raises = kw.get("raises", ())
            names = {d: kw.get(d) or kw.get("name") for d in DRAFTS}
            for d in DRAFTS:
                table = ev.obj_getattr(objs[d], "checkers")
                nm = names[d]
                if nm and table.get(nm) != (fn, raises):
                    out["registers"] = "%s: %r is not registered on the %s checker with its raises (found %r)" % (kw, nm, d, table.get(nm))
                for other in set(v for v in names.values() if v) - {nm}:
                    if table.get(other, (None,))[0] is fn:
                        out["registers"] = "%s: %r, the name of another draft, is registered on the %s checker" % (kw, other, d)
            newest = names["draft7"] or names["draft6"] or names["draft4"] or names["draft3"]
            clsw = ev.class_attr(c, "checkers")
            if clsw.get(newest) != (fn, raises):
                out["registers"] = "%s: not registered class-wide under the newest draft's name %r with its raises (found %r)" % (kw, newest, clsw.get(newest))
            if out["registers"]:
                break
    except Undecided as u:
        return None
    except PyRaise as pr:
        out["registers"] = "raises %s (%s)" % (pr.name, pr.msg)
    return out


def checks_eval(prog):
    """FormatChecker.checks(format, raises)(fn) on a checker object: the entry for that name *is* (fn, raises) afterwards, whatever
    was there before -- a name the checker already knows, the same function again with another `raises`, the empty name -- and
    check() then consults exactly that entry.  -> {clause: message | None} or None."""
    out = {"latest-wins": None}
    try:
        ev = Ev(prog, fuel=40000, real_errors=True)
        Obj.ev = ev
        c = prog.cls("_format.FormatChecker")
        fc = ClsRef(ev, c)
        calls = []

        def mk(tag, result=True, exc=None):
            def fn(instance):
                calls.append(tag)
                if exc is not None:
                    raise exc
                return result
            return fn
        first, second = mk("first", True), mk("second", False)
        o = fc()
        g = lambda n: ev.obj_getattr(o, n)
        g("checks")("known")(first)
        ret = g("checks")("known", ValueError)(second)
        table = g("checkers")
        if ret is not second or table.get("known") != (second, ValueError):
            out["latest-wins"] = "registering a function under a name the checker already knows leaves the entry %r; the later registration must replace it" % (table.get("known"),)
        else:
            del calls[:]
            try:
                g("check")("x", "known")
                out["latest-wins"] = "after re-registering a rejecting function under a known name check() still passes (functions consulted: %r)" % (calls,)
            except PyRaise as pr:
                if pr.name != "FormatError" or calls != ["second"]:
                    out["latest-wins"] = "after re-registration check() consults %r and ends in %s" % (calls, pr.name)
        # the same function again, now with a `raises`: the new raises is in force
        boom = mk("boom", exc=PyRaise("ValueError", "bad"))
        g("checks")("again")(boom)
        g("checks")("again", raises=ValueError)(boom)
        if table.get("again") != (boom, ValueError) and g("checkers").get("again") != (boom, ValueError):
            out["latest-wins"] = out["latest-wins"] or ("registering the same function again with raises=ValueError leaves the entry %r: the earlier `raises` stays in force"
                                                        % (g("checkers").get("again"),))
        # the empty string is a format name like any other
        empty = mk("empty", False)
        g("checks")("")(empty)
        if g("checkers").get("") != (empty, ()):
            out["latest-wins"] = out["latest-wins"] or "a function registered under the empty format name is not in the table (found %r)" % (g("checkers").get(""),)
        else:
            try:
                g("check")(1, "")
                out["latest-wins"] = out["latest-wins"] or "the function registered under the empty format name is not consulted by check()"
            except PyRaise as pr:
                if pr.name != "FormatError":
                    raise
        # a built-in name overridden on one checker object: the class-wide table is untouched
        clsw_before = dict(ev.class_attr(c, "checkers"))
        g("checks")("email")(second)
        if dict(ev.class_attr(c, "checkers")) != clsw_before:
            out["latest-wins"] = out["latest-wins"] or "registering on a checker object changes the class-wide table"
    except Undecided:
        return None
    except PyRaise as pr:
        out["raises"] = "raises %s (%s)" % (pr.name, pr.msg)
    return out


def guard_eval(prog, f):
    """A built-in checker handed a value that is not a string: True, and the value is not looked at (any operation on the
    opaque token is outside the fragment).  -> None (holds) | message | "undecided"."""
    try:
        for kind in ("number", "object", "array", "boolean", "null"):
            t = Tok("non-string", (kind,))
            res = Ev(prog, fuel=3000).call_func(f, [t], {})
            if res is not True:
                return "returns %r for a %s instance: every built-in format passes every non-string" % (res, kind)
        for v in (0, 1.5, None, True, [], {}):
            res = Ev(prog, fuel=3000).call_func(f, [v], {})
            if res is not True:
                return "returns %r for the instance %r: every built-in format passes every non-string" % (res, v)
    except Undecided:
        return "undecided"
    except PyRaise as pr:
        return "raises %s for an instance that is not a string" % pr.name
    return None
