"""Table/data agreement rules shared by C01, C10, C11, C20."""
import ast

from ..prog import norm, AnalysisError, DRAFTS
from .. import spec
from ..report import site


def rule_table_vocab(ctx, rid):
    prog = ctx.prog
    t = prog.tables
    r = ctx.rule(rid, "each draft's keyword table has exactly the draft's vocabulary", floor=110)
    for d in DRAFTS:
        dr = t.drafts[d]
        have = set(dr.table)
        want = set(spec.VOCAB[d])
        where = "jsonschema/validators.py:%d %s" % (dr.call.lineno, dr.var)
        for k in sorted(have & want):
            r.ok("%s[%r]" % (where, k), "-> %s" % dr.table[k].qual)
        for k in sorted(want - have):
            r.fail("%s|missing|%s" % (d, k), where, "keyword %r of %s is missing from the table: it would be silently unvalidated" % (k, d))
        for k in sorted(have - want):
            r.fail("%s|extra|%s" % (d, k), where, "keyword %r is not part of %s but is in its table (bound to %s): foreign keyword is not inert" % (
                k, d, dr.table[k].qual))
    return r


def id_key_reads(prog, draft):
    """Constant keys the draft's id_of reads from its argument."""
    from ..schemareads import reads_on_names
    from ..calls import calls_of
    f = prog.tables.drafts[draft].id_of
    ps = f.params
    if not ps:
        raise AnalysisError("id_of of %s takes no parameter" % draft)
    return reads_on_names(f, {ps[0]}, "schema", calls_of(prog))


def _id_of_eval(prog, f, key):
    """id_of evaluated by sa/tokeval.py: the id is the member's value *as written* -- what the class is registered under, what the
    resolver starts from.  '' | difference | None (outside the fragment)."""
    from ..tokeval import Ev, Undecided, PyRaise
    other = "id" if key == "$id" else "$id"
    rows = [("http://example.com/schemas/meta#v1", None), ("http://example.com/s#", None), ("urn:example:x", None), ("sub/dir/", None), ("#anchor", None),
            ("HTTP://EXAMPLE.com/%7Euser/a%20b?q=1#/definitions/x", None), ("", None)]
    try:
        for val, _ in rows:
            got = Ev(prog, fuel=2000).call_func(f, [{key: val, other: "http://other/", "title": "t"}], {})
            if got != val:
                return "id_of of a schema whose %r is %r gives %r: the id must come back as written" % (key, val, got)
        for sch in ({}, {other: "http://other/"}, {"title": "x"}):
            got = Ev(prog, fuel=2000).call_func(f, [dict(sch)], {})
            if got != "":
                return "id_of of a schema without %r gives %r, expected ''" % (key, got)
        if key == "$id":
            for b in (True, False):
                got = Ev(prog, fuel=2000).call_func(f, [b], {})
                if got != "":
                    return "id_of of the boolean schema %r gives %r, expected ''" % (b, got)
    except Undecided:
        return None
    except PyRaise as pr:
        return "id_of raises %s (%s)" % (pr.name, pr.msg)
    return ""


def rule_id_key(ctx, rid):
    prog = ctx.prog
    r = ctx.rule(rid, "id_of of each draft reads exactly that draft's id key", floor=4)
    for d in DRAFTS:
        dr = prog.tables.drafts[d]
        rs = id_key_reads(prog, d)
        keys = {x.key for x in rs if x.kind in ("get", "getitem", "in", "pop")}
        bad_kinds = [x for x in rs if x.kind not in ("get", "getitem", "in")]
        where = site(dr.id_of)
        sem = _id_of_eval(prog, dr.id_of, spec.ID_KEY[d])
        if sem:
            r.fail("%s|id-value" % d, where, "%s: %s" % (d, sem))
        elif keys == {spec.ID_KEY[d]} and not bad_kinds:
            r.ok(where + " [%s]" % d, "reads %r%s" % (spec.ID_KEY[d], "" if sem is None else "; returns the member's value as written (fragments, escapes, relative forms kept), '' when absent / for a boolean schema"))
        else:
            r.fail("%s|id-key|%s" % (d, sorted(map(str, keys))), where,
                   "%s: id_of reads %s, the draft's id key is %r" % (d, sorted(map(str, keys)) + [x.kind for x in bad_kinds], spec.ID_KEY[d]))
    return r


def rule_meta_ids(ctx, rid):
    """R11.5 / R20.5: each bundled metaschema describes itself with the draft URI under the key the class reads."""
    from urllib.parse import urlsplit
    prog = ctx.prog
    r = ctx.rule(rid, "each metaschema carries its draft URI in $schema and under the id key its class reads; the four ids are distinct", floor=8)
    ids = {}
    for d in DRAFTS:
        dr = prog.tables.drafts[d]
        m = dr.meta
        where = "jsonschema/schemas/%s.json" % dr.meta_name
        rs = id_key_reads(prog, d)
        keys = {x.key for x in rs if isinstance(x.key, str)}
        found = [m.get(k) for k in keys if isinstance(m, dict) and isinstance(m.get(k), str) and m.get(k)]
        if not found:
            r.fail("%s|meta-id-missing" % d, where, "metaschema has no id under the key(s) %s its class reads: the draft would not register and could not be selected by $schema" % sorted(keys))
        else:
            mid = found[0]
            if urlsplit(mid).geturl() == urlsplit(spec.META_URI[d]).geturl():
                r.ok(where, "id %r under %s" % (mid, sorted(keys)))
            else:
                r.fail("%s|meta-id|%s" % (d, mid), where, "metaschema id %r is not the %s URI %r" % (mid, d, spec.META_URI[d]))
            ids.setdefault(urlsplit(mid).geturl(), []).append(d)
        sch = m.get("$schema") if isinstance(m, dict) else None
        if sch == spec.META_URI[d]:
            r.ok(where, "$schema %r" % sch)
        else:
            r.fail("%s|meta-$schema|%s" % (d, sch), where, "metaschema $schema is %r, expected %r" % (sch, spec.META_URI[d]))
    for mid, ds in ids.items():
        if len(ds) > 1:
            r.fail("meta-id-collision|%s" % mid, "jsonschema/schemas", "drafts %s share the metaschema id %r: the later registration replaces the earlier" % (ds, mid))
    return r



def rule_meta_properties(ctx, rid):
    """A draft's metaschema constrains only names that draft defines: a `properties` entry for a keyword of another draft
    (`$comment` in Draft 6, `const` in Draft 4) makes check_schema reject values of what is, in that draft, an unknown keyword."""
    prog = ctx.prog
    r = ctx.rule(rid, "each bundled metaschema constrains (properties / dependencies keys) only keywords of its own draft", floor=4)
    for d in DRAFTS:
        dr = prog.tables.drafts[d]
        m = dr.meta if isinstance(dr.meta, dict) else {}
        where = "jsonschema/schemas/%s.json" % dr.meta_name
        allowed = set(spec.VOCAB[d]) | spec.META_EXTRA[d]
        names = set(m.get("properties", {})) | set(m.get("dependencies", {}) if isinstance(m.get("dependencies"), dict) else ())
        extra = sorted(names - allowed)
        if extra:
            for k in extra:
                r.fail("%s|foreign-keyword|%s" % (d, k), where + "#/properties/%s" % k,
                       "the %s metaschema constrains %r, which %s does not define: a schema using that name freely is rejected by check_schema" % (d, k, d))
        else:
            r.ok(where, "%d constrained names, all of %s" % (len(names), d))
    return r
