"""Applicator truth tables: every keyword that applies subschemas is evaluated abstractly (sa/tokeval.py) on a finite
table of scenarios -- shape of the keyword value x shape of the instance x verdict of each (part, subschema) pair --
and compared with what the draft prescribes, written here independently in terms of the same verdicts.

Three aspects are compared, each reported under the property it is a necessary condition of:
  verdict : an error is produced exactly when the draft says the instance is invalid                      (C01)
  errors  : the sub-validations' errors are forwarded completely, once each; own errors: one per violation (C05)
  paths   : the path= / schema_path= stamped on each forwarded error (also inside `context`) address the
            instance part and the subschema that produced it                                             (C06)
The tables are bounded (at most three subschemas / elements / members); the functions are uniform in these sizes (no
branch on an index or a length other than through the documented `items` prefix rule), which is what R1.5 checks.
"""
import itertools

from ..prog import AnalysisError
from ..report import site
from ..tokeval import Ev, Tok, ValidatorStub, Err, Undecided, PyRaise, vkey


def S(i):
    return Tok("S%d" % i, ("object",))


def X(i, kinds=("number",)):
    return Tok("x%d" % i, kinds)


def sub(part, schema, n, path=(), schema_path=()):
    sk = schema.name if isinstance(schema, Tok) else (repr(schema) if isinstance(schema, bool) else vkey(schema))
    return [("sub", (vkey(part), sk, i), tuple(path), tuple(schema_path)) for i in range(n)]


def own(context=None, path=(), schema_path=()):
    """context None = not compared."""
    return ("own", None if context is None else tuple(context), tuple(path), tuple(schema_path))


def oracles(pairs, two=True):
    """All valid/invalid assignments over the (part, schema) pairs, plus one with two errors everywhere."""
    keys = [(vkey(p), s.name if isinstance(s, Tok) else vkey(s)) for p, s in pairs]
    keys = list(dict.fromkeys(keys))
    for bits in itertools.product((0, 1), repeat=len(keys)):
        yield dict(zip(keys, bits))
    if two and keys:
        yield {k: 2 for k in keys}


def nerr(o, part, schema):
    if schema is True:
        return 0
    if schema is False:
        return 1
    return o[(vkey(part), schema.name if isinstance(schema, Tok) else vkey(schema))]


class Row:
    def __init__(self, label, value, instance, schema, oracle, expected):
        self.label, self.value, self.instance, self.schema, self.oracle, self.expected = label, value, instance, schema, oracle, expected


ANY = X(9, ("object", "array", "string", "number", "integer", "boolean", "null"))


# ------------------------------------------------------------------------------------------------------------ tables
def t_allOf(d, k):
    for K in (1, 2, 3):
        val = [S(i) for i in range(K)]
        for o in oracles([(ANY, s) for s in val]):
            exp = []
            for i, s in enumerate(val):
                exp += sub(ANY, s, nerr(o, ANY, s), (), (i,))
            yield Row("%d subschemas %s" % (K, _bits(o)), val, ANY, {k: val}, o, exp)


def t_anyOf(d, k):
    for K in (1, 2, 3):
        val = [S(i) for i in range(K)]
        for o in oracles([(ANY, s) for s in val]):
            if all(nerr(o, ANY, s) for s in val):
                ctx = []
                for i, s in enumerate(val):
                    ctx += sub(ANY, s, nerr(o, ANY, s), (), (i,))
                exp = [own(ctx)]
            else:
                exp = []
            yield Row("%d subschemas %s" % (K, _bits(o)), val, ANY, {k: val}, o, exp)


def t_oneOf(d, k):
    for K in (1, 2, 3):
        val = [S(i) for i in range(K)]
        for o in oracles([(ANY, s) for s in val]):
            nvalid = sum(1 for s in val if not nerr(o, ANY, s))
            if nvalid == 1:
                exp = []
            elif nvalid == 0:
                ctx = []
                for i, s in enumerate(val):
                    ctx += sub(ANY, s, nerr(o, ANY, s), (), (i,))
                exp = [own(ctx)]
            else:
                exp = [own(None)]
            yield Row("%d subschemas %s" % (K, _bits(o)), val, ANY, {k: val}, o, exp)


def t_not(d, k):
    for o in oracles([(ANY, S(0))], two=False):
        yield Row(_bits(o), S(0), ANY, {k: S(0)}, o, [] if nerr(o, ANY, S(0)) else [own(None)])


def t_if(d, k):
    for has_then in (False, True):
        for has_else in (False, True):
            schema = {"if": S(0)}
            if has_then:
                schema["then"] = S(1)
            if has_else:
                schema["else"] = S(2)
            for o in oracles([(ANY, S(0)), (ANY, S(1)), (ANY, S(2))]):
                if not nerr(o, ANY, S(0)):
                    exp = sub(ANY, S(1), nerr(o, ANY, S(1)), (), ("then",)) if has_then else []
                else:
                    exp = sub(ANY, S(2), nerr(o, ANY, S(2)), (), ("else",)) if has_else else []
                yield Row("then=%s else=%s %s" % (has_then, has_else, _bits(o)), S(0), ANY, schema, o, exp)
    # boolean subschemas in the branches: `false` is falsy and empty, yet it must be applied
    for branch in ("then", "else"):
        for b in (True, False):
            schema = {"if": S(0), branch: b}
            for o in oracles([(ANY, S(0))], two=False):
                taken = (branch == "then") == (not nerr(o, ANY, S(0)))
                exp = sub(ANY, b, nerr(o, ANY, b), (), (branch,)) if taken else []
                yield Row("%s=%s %s" % (branch, b, _bits(o)), S(0), ANY, schema, o, exp)


def t_contains(d, k):
    for n in (0, 1, 2, 3):
        inst = [X(i) for i in range(n)]
        for o in oracles([(x, S(0)) for x in inst], two=False):
            exp = [] if any(not nerr(o, x, S(0)) for x in inst) else [own(None)]
            yield Row("array of %d %s" % (n, _bits(o)), S(0), inst, {k: S(0)}, o, exp)
    s = X(0, ("string",))
    yield Row("non-array", S(0), s, {k: S(0)}, {(vkey(s), "S0"): 1}, [])


def t_propertyNames(d, k):
    for names in ((), ("a",), ("a", "b")):
        inst = {nm: X(i) for i, nm in enumerate(names)}
        for o in oracles([(nm, S(0)) for nm in names]):
            exp = []
            for nm in names:
                exp += sub(nm, S(0), nerr(o, nm, S(0)))
            yield Row("names %s %s" % (list(names), _bits(o)), S(0), inst, {k: S(0)}, o, exp)
    s = X(0, ("string",))
    yield Row("non-object", S(0), s, {k: S(0)}, {(vkey(s), "S0"): 1}, [])


def t_items(d, k):
    forms = [("object form", S(0)), ("array form of 2", [S(0), S(1)]), ("array form of 1", [S(0)]), ("empty array form", [])]
    if d in ("draft6", "draft7"):
        forms += [("true", True), ("false", False)]
    for lab, val in forms:
        for n in (0, 1, 2, 3):
            inst = [X(i) for i in range(n)]
            if isinstance(val, list):
                pairs = [(x, s) for x, s in zip(inst, val)]
            elif isinstance(val, bool):
                pairs = []
            else:
                pairs = [(x, val) for x in inst]
            for o in oracles(pairs, two=(n == 2)):
                exp = []
                if isinstance(val, list):
                    for i, (x, s) in enumerate(zip(inst, val)):
                        exp += sub(x, s, nerr(o, x, s), (i,), (i,))
                else:
                    for i, x in enumerate(inst):
                        exp += sub(x, val, nerr(o, x, val), (i,), ())
                yield Row("%s, array of %d %s" % (lab, n, _bits(o)), val, inst, {k: val}, o, exp)
    s = X(0, ("string",))
    yield Row("non-array", S(0), s, {k: S(0)}, {(vkey(s), "S0"): 1}, [])
    # elements that are different JSON values but equal (and hash alike) in Python: 1 / true / 1.0, 0 / false, "" and so on;
    # each is validated on its own (a memo of "already passed" values keyed by == would skip the look-alike)
    for elems in ([1, True], [True, 1], [0, False, 0.0], [1.0, 1, True, 1], [None, 0, "", False], [[1], [True]], [{"a": 1}, {"a": True}]):
        for bad in range(len(elems)):
            o = {(vkey(x), "S0"): (1 if i == bad else 0) for i, x in enumerate(elems)}
            if len(o) != len(elems):
                continue        # two elements with the same key (1 twice): one verdict for both
            exp = []
            for i, x in enumerate(elems):
                exp += sub(x, S(0), 1 if i == bad else 0, (i,), ())
            yield Row("object form, look-alike elements %r, element %d invalid" % (elems, bad), S(0), list(elems), {k: S(0)}, o, exp)


def t_additionalItems(d, k):
    for ilab, items in (("items array of 1", [S(0)]), ("items array of 2", [S(0), S(1)]), ("items object form", S(0)), ("no items", None)):
        for vlab, val in (("schema", S(5)), ("false", False), ("true", True)):
            schema = {k: val}
            if items is not None:
                schema["items"] = items
            for n in (0, 1, 2, 3):
                inst = [X(i) for i in range(n)]
                L = len(items) if isinstance(items, list) else None
                rest = list(enumerate(inst))[L:] if L is not None else []
                for o in oracles([(x, val) for (_i, x) in rest] if isinstance(val, Tok) else [], two=(n == 3)):
                    exp = []
                    if L is not None:
                        if isinstance(val, Tok):
                            for i, x in rest:
                                exp += sub(x, val, nerr(o, x, val), (i,), ())
                        elif val is False and rest:
                            exp = [own(None)]
                    yield Row("%s, %s, array of %d %s" % (ilab, vlab, n, _bits(o)), val, inst, schema, o, exp)


def _prop_schema(d, i, required=None):
    if d == "draft3" or required is not None:
        s = {"title": "S%d" % i}
        if required is not None:
            s["required"] = required
        return s
    return S(i)


def t_properties(d, k):
    # from Draft 4 on `required` inside a property's subschema is that subschema's own keyword (a list of names): `properties` itself
    # says nothing about a member that is absent
    variants = [(None, None), (["zz"], ["a", "b"])] if d != "draft3" else [(None, None), (True, False), (True, True)]
    for ra, rb in variants:
        val = {"a": _prop_schema(d, 0, ra), "b": _prop_schema(d, 1, rb)}
        for members in ((), ("a",), ("a", "c"), ("a", "b"), ("c",)):
            inst = {m: X(i) for i, m in enumerate(members)}
            for o in oracles([(inst[m], val[m]) for m in members if m in val]):
                exp = []
                for p in ("a", "b"):
                    if p in inst:
                        exp += sub(inst[p], val[p], nerr(o, inst[p], val[p]), (p,), (p,))
                    elif d == "draft3" and val[p].get("required", False):
                        # documented exception (pinned by the repository's tests): the error names the missing member
                        exp.append(own(None, (p,), (p, "required")))
                yield Row("required=%s/%s members %s %s" % (ra, rb, list(members), _bits(o)), val, inst, {k: val}, o, exp)
    s = X(0, ("string",))
    yield Row("non-object", {"a": _prop_schema(d, 0)}, s, {}, {}, [])


def t_patternProperties(d, k):
    import re
    val = {"^a": S(0), "b$": S(1)}
    for members in ((), ("ab",), ("ab", "c"), ("a", "xb", "c")):
        inst = {m: X(i) for i, m in enumerate(members)}
        pairs = [(inst[m], s) for pat, s in val.items() for m in members if re.search(pat, m)]
        for o in oracles(pairs):
            exp = []
            for pat, s in val.items():
                for m in members:
                    if re.search(pat, m):
                        exp += sub(inst[m], s, nerr(o, inst[m], s), (m,), (pat,))
            yield Row("members %s %s" % (list(members), _bits(o)), val, inst, {k: val}, o, exp)
    s = X(0, ("string",))
    yield Row("non-object", val, s, {k: val}, {}, [])


def t_additionalProperties(d, k):
    import re
    for plab, props, pats, annot in (("no siblings", None, None, None), ("properties", {"a": S(0)}, None, None), ("patternProperties", None, {"^x": S(1)}, None),
                                     ("both", {"a": S(0)}, {"^x": S(1)}, None),
                                     # the schema's *other* members declare nothing: an instance member named like one of them is additional
                                     ("annotations only", None, None, {"title": "t", "b": 1, "required": ["c"]}),
                                     ("properties and annotations", {"a": S(0)}, None, {"title": "t", "b": 1})):
        for vlab, val in (("schema", S(5)), ("false", False), ("true", True)):
            schema = {k: val}
            if props is not None:
                schema["properties"] = props
            if pats is not None:
                schema["patternProperties"] = pats
            if annot is not None:
                schema.update(annot)
            # the empty string and "0" are member names like any other (and falsy / digit-like ones)
            member_sets = ((), ("a",), ("a", "xa"), ("a", "b"), ("b", "xa", "c"), ("",), ("", "b"), ("b", ""), ("a", "", "xa"), ("0",))
            if annot is not None:
                member_sets = (("title",), ("b", "title"), (k,), ("a", "b"), ("properties",))
            for members in member_sets:
                inst = {m: X(i) for i, m in enumerate(members)}
                extras = [m for m in members if not (props and m in props) and not (pats and any(re.search(p, m) for p in pats))]
                for o in oracles([(inst[m], val) for m in extras] if isinstance(val, Tok) else [], two=(len(extras) == 2)):
                    exp = []
                    if isinstance(val, Tok):
                        for m in extras:
                            exp += sub(inst[m], val, nerr(o, inst[m], val), (m,), ())
                    elif val is False and extras:
                        exp = [own(None)]
                    yield Row("%s, %s, members %s %s" % (plab, vlab, list(members), _bits(o)), val, inst, schema, o, exp)
    s = X(0, ("string",))
    yield Row("non-object", False, s, {k: False}, {}, [])


def t_dependencies(d, k):
    # "h" asks for a name "a" asks for as well: a name missing for two present members is two violations
    val = {"a": ["b", "c"], "d": S(0), "h": ["b", "zz"]}
    if d == "draft3":
        val["e"] = "b"
        val["e2"] = "zz"        # a second name-form entry: a satisfied entry before it ends nothing
    if d in ("draft6", "draft7"):
        val["f"] = False
        val["g"] = []
    for members in ((), ("a",), ("a", "b"), ("a", "b", "c"), ("d",), ("d", "a", "c"), ("e",), ("e", "b"), ("f",), ("g",), ("b", "c"), ("a", "h"), ("h", "a", "c"), ("h", "b"),
                    # an entry that is satisfied, then one that is not (whatever their forms)
                    ("a", "b", "c", "h"), ("e", "b", "e2"), ("a", "b", "c", "e2"), ("e", "b", "h")):
        inst = {m: X(i) for i, m in enumerate(members)}
        for o in oracles([(inst, S(0))] if "d" in members else []):
            exp = []
            for p, dep in val.items():
                if p not in inst:
                    continue
                if isinstance(dep, list):
                    exp += [own(None) for each in dep if each not in inst]
                elif isinstance(dep, str):
                    exp += [own(None)] if dep not in inst else []
                else:
                    exp += sub(inst, dep, nerr(o, inst, dep), (), (p,))
            yield Row("members %s %s" % (list(members), _bits(o)), val, inst, {k: val}, o, exp)
    s = X(0, ("string",))
    yield Row("non-object", val, s, {k: val}, {}, [])


def t_required(d, k):
    val = ["a", "b"]
    for members in ((), ("a",), ("b", "c"), ("a", "b")):
        inst = {m: X(i) for i, m in enumerate(members)}
        yield Row("members %s" % list(members), val, inst, {k: val}, {}, [own(None) for p in val if p not in inst])
    s = X(0, ("array",))
    yield Row("non-object", val, s, {k: val}, {}, [])


def t_extends(d, k):
    for o in oracles([(ANY, S(0))]):
        yield Row("object form %s" % _bits(o), S(0), ANY, {k: S(0)}, o, sub(ANY, S(0), nerr(o, ANY, S(0)), (), ()))
    for K in (1, 2):
        val = [S(i) for i in range(K)]
        for o in oracles([(ANY, s) for s in val]):
            exp = []
            for i, s in enumerate(val):
                exp += sub(ANY, s, nerr(o, ANY, s), (), (i,))
            yield Row("array form of %d %s" % (K, _bits(o)), val, ANY, {k: val}, o, exp)


def t_type_draft3(d, k):
    inst = X(0, ("string",))
    for lab, val in (("name matching", "string"), ("name not matching", "number"), ("names", ["number", "string"]), ("names none", ["number", "null"]),
                     ("schema", [S(0)]), ("name then schema", ["number", S(0)]), ("schema then matching name", [S(0), "string"]),
                     ("two schemas", [S(0), S(1)]), ("any", "any")):
        members = val if isinstance(val, list) else [val]
        schemas = [m for m in members if isinstance(m, Tok)]
        for o in oracles([(inst, s) for s in schemas]):
            ok = any((m in inst.kinds or m == "any") if isinstance(m, str) else not nerr(o, inst, m) for m in members)
            if ok:
                exp = []
            else:
                ctx = []
                for i, m in enumerate(members):
                    if isinstance(m, Tok):
                        ctx += sub(inst, m, nerr(o, inst, m), (), (i,))
                exp = [own(ctx)]
            yield Row("%s %s" % (lab, _bits(o)), val, inst, {k: val}, o, exp)


def t_disallow(d, k):
    inst = X(0, ("string",))
    for lab, val in (("one name", "string"), ("names", ["number", "string"]), ("schema", [S(0)]), ("name and schema", ["string", S(0)])):
        members = val if isinstance(val, list) else [val]
        pairs = [(inst, {"type": [m]}) for m in members]
        for o in oracles(pairs, two=False):
            exp = [own(None) for m in members if not nerr(o, inst, {"type": [m]})]
            # `type` semantics for the other spellings a rewrite may ask about: a bare member, the whole list -- valid iff some member is
            o2 = dict(o)
            for m in members:
                o2.setdefault((vkey(inst), vkey({"type": m})), nerr(o, inst, {"type": [m]}))
            if len(members) > 1:
                o2.setdefault((vkey(inst), vkey({"type": list(members)})), 0 if any(not nerr(o, inst, {"type": [m]}) for m in members) else 1)
            yield Row("%s %s" % (lab, _bits(o)), val, inst, {k: val}, o2, exp)


TABLES = {
    "allOf": t_allOf, "anyOf": t_anyOf, "oneOf": t_oneOf, "not": t_not, "if": t_if, "contains": t_contains,
    "propertyNames": t_propertyNames, "items": t_items, "additionalItems": t_additionalItems, "properties": t_properties,
    "patternProperties": t_patternProperties, "additionalProperties": t_additionalProperties, "dependencies": t_dependencies,
    "required": t_required, "extends": t_extends, "disallow": t_disallow,
}


def table_for(d, k):
    if k == "required" and d == "draft3":
        return None
    if k == "type":
        return t_type_draft3 if d == "draft3" else None
    return TABLES.get(k)


def _bits(o):
    return "verdicts{%s}" % ",".join("%s~%s:%s" % (a, b, "ok" if n == 0 else "%derr" % n) for (a, b), n in sorted(o.items()))


# --------------------------------------------------------------------------------------------------------- evaluation
def run_row(prog, f, row):
    """-> ("ok", [summaries]) | ("undecided", why) | ("raises", name)"""
    ev = Ev(prog)
    stub = ValidatorStub(row.oracle, root_schema=row.schema)
    try:
        res = ev.call_func(f, [stub, row.value, row.instance, row.schema], {})
        out = list(res) if res is not None else []
        row.asked = list(stub.asked)
    except Undecided as u:
        return "undecided", str(u)
    except PyRaise as p:
        return "raises", "%s (%s)" % (p.name, p.msg)
    items = []
    for e in out:
        if not isinstance(e, Err):
            return "undecided", "yields a non-error %r" % (e,)
        items.append(e.summary())
    return "ok", items


def _subs(items):
    return sorted((x[1] for x in items if x[0] == "sub"), key=repr)


def compare(aspect, actual, expected):
    """None if the row agrees under the aspect, else a short description."""
    if aspect == "verdict":
        if bool(actual) != bool(expected):
            return "reports %s where the draft says %s" % ("an error" if actual else "no error", "invalid" if expected else "valid")
        return None
    if aspect == "errors":
        a_sub, e_sub = _subs(actual), _subs(expected)
        if a_sub != e_sub:
            missing = [x for x in e_sub if x not in a_sub]
            extra = [x for x in a_sub if a_sub.count(x) > e_sub.count(x)]
            return "forwards %d sub-errors, expected %d (missing %s, surplus %s)" % (len(a_sub), len(e_sub), missing[:2], extra[:2])
        a_own = sum(1 for x in actual if x[0] == "own")
        e_own = sum(1 for x in expected if x[0] == "own")
        if a_own != e_own:
            return "%d errors of its own, expected %d" % (a_own, e_own)
        # contexts (compared as multisets of the sub-errors they hold)
        ea = [x for x in expected if x[0] == "own" and x[1] is not None]
        aa = [x for x in actual if x[0] == "own"]
        for e, a in zip(ea, aa):
            if sorted((c[1] for c in e[1]), key=repr) != sorted((c[1] for c in a[1] if c[0] == "sub"), key=repr):
                return "context holds %d errors, expected %d" % (len(a[1]), len(e[1]))
        return None
    if aspect == "paths":
        want = {}
        for x in expected:
            if x[0] == "sub":
                want[x[1]] = (x[2], x[3])
            elif x[1] is not None:
                for c in x[1]:
                    want[c[1]] = (c[2], c[3])
        got = {}
        for x in actual:
            if x[0] == "sub":
                got[x[1]] = (x[2], x[3])
            else:
                for c in x[1]:
                    if c[0] == "sub":
                        got[c[1]] = (c[2], c[3])
        for key, (p, sp) in want.items():
            if key in got and got[key] != (p, sp):
                return "error of (%s, %s) carries path=%s schema_path=%s, expected path=%s schema_path=%s" % (
                    key[0], key[1], list(got[key][0]), list(got[key][1]), list(p), list(sp))
        eo = [x for x in expected if x[0] == "own" and (x[2] or x[3])]
        ao = [x for x in actual if x[0] == "own"]
        for e in eo:
            if not any(a[2] == e[2] and a[3] == e[3] for a in ao) and ao:
                return "own error carries path=%s schema_path=%s, expected path=%s schema_path=%s" % (list(ao[0][2]), list(ao[0][3]), list(e[2]), list(e[3]))
        # an error of the keyword's own is about the instance it was handed: a path or schema path of its own on it (other than the
        # rows that expect one) points at a place the keyword never looked at -- possibly one that does not exist
        allowed_own = {(e[2], e[3]) for e in expected if e[0] == "own"} | {((), ())}
        for a in ao:
            if (a[2], a[3]) not in allowed_own:
                return "an error of the keyword's own carries path=%s schema_path=%s; nothing in this row is reported at such a place" % (list(a[2]), list(a[3]))
        return None
    raise ValueError(aspect)


_CACHE = {}


def evaluate_all(prog):
    """{(func, keyword, drafts...)}: evaluated once per source digest."""
    key = prog.digest.hexdigest()
    if key in _CACHE:
        return _CACHE[key]
    out = []
    seen = {}
    for d in sorted(prog.tables.drafts):
        table = prog.tables.drafts[d].table
        for k, f in sorted(table.items()):
            tf = table_for(d, k)
            if tf is None:
                continue
            sig = (f.qual, k, tf.__name__, d if tf in (t_items, t_properties, t_dependencies) else "")
            if sig in seen:
                seen[sig]["drafts"].append(d)
                continue
            rec = {"func": f, "keyword": k, "drafts": [d], "rows": 0, "undecided": None, "results": []}
            seen[sig] = rec
            out.append(rec)
            for row in tf(d, k):
                rec["rows"] += 1
                st, res = run_row(prog, f, row)
                if st == "undecided":
                    rec["undecided"] = res
                    break
                rec["results"].append((row, st, res))
    _CACHE[key] = out
    return out


def rule_applicators(ctx, rid, aspect, floor=18):
    titles = {
        "verdict": "applicator keywords, evaluated over the table of sub-verdicts, report an error exactly when the draft says invalid",
        "errors": "applicator keywords forward every sub-validation error exactly once and raise one error of their own per violation",
        "paths": "the path/schema_path stamped on each forwarded error (also inside context) address the part and subschema that produced it",
    }
    r = ctx.rule(rid, titles[aspect], floor=floor)
    prog = ctx.prog
    for rec in evaluate_all(prog):
        f, k = rec["func"], rec["keyword"]
        where = "%s [%s %s]" % (site(f), "/".join(rec["drafts"]), k)
        if rec["undecided"] is not None:
            r.ok(where, "NOT DECIDED: outside the evaluated fragment (%s)" % rec["undecided"])
            r.note(where, "applicator table for %r not decided: %s" % (k, rec["undecided"]))
            continue
        bad = None
        for row, st, res in rec["results"]:
            if st == "raises":
                bad = (row, "raises %s" % res)
                break
            why = compare(aspect, res, row.expected)
            if why:
                bad = (row, why)
                break
        if bad is None:
            r.ok(where, "%d rows agree" % rec["rows"])
        else:
            row, why = bad
            kind = why.split(" ")[0] if aspect != "verdict" else "verdict"
            r.fail("%s|%s|%s" % (f.qual, k, "raises" if why.startswith("raises") else aspect), where,
                   "%s %r, scenario [%s]: %s" % ("/".join(rec["drafts"]), k, row.label[:160], why))
    return r
