"""C04 - all entry points agree (partial)."""
import ast

from ..prog import norm, walk_body, AnalysisError, Func
from ..cfg import cfg_of, reaching_defs, node_exprs, walk_expr
from ..calls import calls_of
from ..common import calls_at, find_method, const_of
from ..report import site


def _iter_errors_calls(calls, f):
    ie = calls.V.methods["iter_errors"]
    out = []
    for (_n, c, tg) in calls.calls_in(f):
        if any(t.kind == "func" and t.func is ie for t in tg) or (isinstance(c.func, ast.Attribute) and c.func.attr == "iter_errors"):
            out.append(c)
    return out


def _cli_table_clean(ctx):
    if "_clisem" not in ctx.extra:
        from .clisem import cli_eval
        try:
            ctx.extra["_clisem"] = cli_eval(ctx.prog)
        except RecursionError:
            ctx.extra["_clisem"] = None
    sem = ctx.extra["_clisem"]
    return sem is not None and "raises" not in sem and not any(sem.get(c) for c in ("all-instances", "reports", "class", "exit"))


def rule_single_source(ctx, rid="R4.1"):
    prog = ctx.prog
    calls = calls_of(prog)
    V = calls.V
    r = ctx.rule(rid, "is_valid, validate(), jsonschema.validate and the CLI obtain errors only from iter_errors, arguments passed through", floor=4)
    kw = set(prog.tables.keyword_funcs())
    entries = [
        (V.methods["is_valid"], ["instance", "_schema"]),
        (V.methods["validate"], ["*args", "**kwargs"]),
        (prog.func("validators.validate"), ["instance"]),
        (prog.func("cli._validate_instance"), ["instance"]),
    ]
    for f, through in entries:
        ics = _iter_errors_calls(calls, f)
        direct = []
        for (_n, c, tg) in calls.calls_in(f):
            for t in tg:
                if (t.kind == "func" and (t.func in kw or t.func.name == "descend")) or (t.kind == "dynamic" and t.name == "keyword-dispatch"):
                    direct.append(c)
            if "VALIDATORS" in norm(c):
                direct.append(c)
        if direct:
            r.fail("%s|bypasses-iter_errors|%s" % (f.qual, norm(direct[0])[:50]), site(f, direct[0]), "%s reaches keyword functions without going through iter_errors" % f.name)
            continue
        if len(ics) != 1:
            r.fail("%s|iter_errors-calls:%d" % (f.qual, len(ics)), site(f), "%s calls iter_errors %d times (expected once)" % (f.name, len(ics)))
            continue
        c = ics[0]
        got = [("*" + norm(a.value)) if isinstance(a, ast.Starred) else norm(a) for a in c.args] + \
              [("**" + norm(k.value)) if k.arg is None else "%s=%s" % (k.arg, norm(k.value)) for k in c.keywords]
        want = through
        if f is V.methods["is_valid"]:
            ps = f.params
            want = [ps[1], ps[2]]
            ok = got == want or got == [ps[1], "_schema=%s" % ps[2]]
        elif f is V.methods["validate"]:
            a = f.node.args
            ok = got == ["*" + (a.vararg.arg if a.vararg else "?"), "**" + (a.kwarg.arg if a.kwarg else "?")] or got == f.params[1:]
        else:
            ok = got == [f.params[0]] if f.name == "validate" else got == [f.params[1]]
        if not ok and f.mod.name == "cli" and _cli_table_clean(ctx):
            r.ok(site(f, c), "decided on the CLI scenario table (sa/rules/clisem.py): every loadable instance is validated once, by the one "
                 "validator, and each error the validator yields is reported once -- whichever function holds the loop")
        elif ok:
            r.ok(site(f, c), "iter_errors(%s): own arguments, unchanged" % ", ".join(got))
        else:
            r.fail("%s|iter_errors-args|%s" % (f.qual, ",".join(got)), site(f, c),
                   "%s does not pass its own arguments through to iter_errors: iter_errors(%s)" % (f.name, ", ".join(got)))
    return r


def rule_verdict_shape(ctx, rid="R4.2"):
    prog = ctx.prog
    calls = calls_of(prog)
    V = calls.V
    r = ctx.rule(rid, "is_valid = `no first error`; validate() raises the first error; jsonschema.validate raises best_match iff not None", floor=3)
    from .c02 import _valsem
    sem = _valsem(ctx, "entry_points_eval")
    # is_valid
    f = V.methods["is_valid"]
    cfg = cfg_of(f)
    rets = [n for n in cfg.live if n.kind == "return"]
    ok = False
    if len(rets) == 1:
        v = rets[0].ast.value
        # error = next(iter_errors(..), None); return error is None   |  return next(..., None) is None
        def is_next_none(e):
            return (isinstance(e, ast.Call) and norm(e.func) == "next" and len(e.args) == 2 and const_of(e.args[1]) is None
                    and isinstance(e.args[1], ast.Constant) and isinstance(e.args[0], ast.Call) and norm(e.args[0].func).endswith("iter_errors"))
        if isinstance(v, ast.Compare) and len(v.ops) == 1 and isinstance(v.ops[0], ast.Is) and isinstance(v.comparators[0], ast.Constant) \
                and v.comparators[0].value is None:
            l = v.left
            if is_next_none(l):
                ok = True
            elif isinstance(l, ast.Name):
                rd = reaching_defs(cfg)
                defs = [cfg.nodes[d] for d in rd[rets[0].id].get(l.id, ())]
                ok = len(defs) == 1 and isinstance(defs[0].ast, ast.Assign) and is_next_none(defs[0].ast.value)
        elif isinstance(v, ast.UnaryOp) and isinstance(v.op, ast.Not) and isinstance(v.operand, ast.Call) and norm(v.operand.func) == "any":
            ok = True
    if sem is not None:
        ok = sem["is_valid"] is None
    if ok:
        r.ok(site(f), "returns (next(iter_errors(...), None) is None)" if sem is None else "True exactly when iter_errors yields nothing (six schemas evaluated)")
    else:
        r.fail("%s|verdict" % f.qual, site(f), (sem or {}).get("is_valid") or "is_valid is not `the error iterator has no first element`: %s" % [norm(x.ast.value) for x in rets])
    # validate (method): for error in iter_errors(...): raise error
    f = V.methods["validate"]
    cfg = cfg_of(f)
    loops = [n for n in cfg.live if n.kind == "for"]
    ok = False
    if len(loops) == 1 and isinstance(loops[0].ast.target, ast.Name):
        lv = loops[0].ast.target.id
        nxt = [x for (l, x) in loops[0].succ if l == "iter"]
        ok = (len(nxt) == 1 and nxt[0].kind == "raise" and isinstance(nxt[0].ast, ast.Raise) and isinstance(nxt[0].ast.exc, ast.Name)
              and nxt[0].ast.exc.id == lv and norm(loops[0].ast.iter.func).endswith("iter_errors"))
        done = [x for (l, x) in loops[0].succ if l == "done"]
        # nothing raised when there is no error
        seen, todo = set(), list(done)
        while todo and ok:
            x = todo.pop()
            if x.id in seen:
                continue
            seen.add(x.id)
            if x.kind == "raise":
                ok = False
            todo.extend(y for (l, y) in x.succ if l != "exc")
    if not ok:
        # equivalent form: e = next(<iter_errors(...)>, None); if e is not None: raise e
        raises = [n for n in cfg.live if n.kind == "raise" and isinstance(n.ast, ast.Raise) and isinstance(n.ast.exc, ast.Name)]
        if len(raises) == 1 and not loops:
            ev = raises[0].ast.exc.id
            rd = reaching_defs(cfg)
            preds = raises[0].pred
            guarded = bool(preds) and all(p.kind == "test" and ((norm(p.ast) == "%s is not None" % ev and l == "true") or (norm(p.ast) == "%s is None" % ev and l == "false"))
                                          for (l, p) in preds)
            defs = [cfg.nodes[d] for d in rd[raises[0].id].get(ev, ())]
            if guarded and len(defs) == 1 and isinstance(defs[0].ast, ast.Assign):
                v = defs[0].ast.value
                if isinstance(v, ast.Call) and norm(v.func) == "next" and len(v.args) == 2 and isinstance(v.args[1], ast.Constant) and v.args[1].value is None:
                    src = v.args[0]
                    if isinstance(src, ast.Name):
                        sd = [cfg.nodes[d] for d in rd[defs[0].id].get(src.id, ())]
                        src = sd[0].ast.value if len(sd) == 1 and isinstance(sd[0].ast, ast.Assign) else None
                    ok = isinstance(src, ast.Call) and norm(src.func).endswith("iter_errors")
    if sem is not None:
        ok = sem["validate"] is None
    if ok:
        r.ok(site(f), "raises the first error iter_errors yields (the very object), nothing otherwise")
    else:
        r.fail("%s|raise-first" % f.qual, site(f), (sem or {}).get("validate") or "validate() does not raise exactly the first error iter_errors yields")
    # module validate
    f = prog.func("validators.validate")
    cfg = cfg_of(f)
    raises = [n for n in cfg.live if n.kind == "raise"]
    ok = False
    if len(raises) == 1 and isinstance(raises[0].ast.exc, ast.Name):
        ev = raises[0].ast.exc.id
        preds = raises[0].pred
        ok = all(p.kind == "test" and norm(p.ast) == "%s is not None" % ev and l == "true" or
                 p.kind == "test" and norm(p.ast) == "%s is None" % ev and l == "false" for (l, p) in preds) and bool(preds)
        rd = reaching_defs(cfg)
        defs = [cfg.nodes[d] for d in rd[raises[0].id].get(ev, ())]
        if ok and len(defs) == 1 and isinstance(defs[0].ast, ast.Assign):
            v = defs[0].ast.value
            tg = calls.callee(f, v) if isinstance(v, ast.Call) else []
            arg = v.args[0] if isinstance(v, ast.Call) and len(v.args) == 1 else None
            if isinstance(arg, ast.Name):
                ad = [cfg.nodes[d] for d in rd[defs[0].id].get(arg.id, ())]
                arg = ad[0].ast.value if len(ad) == 1 and isinstance(ad[0].ast, ast.Assign) else None
            ok = (any(t.kind == "func" and t.func.name == "best_match" for t in tg) and arg is not None
                  and isinstance(arg, ast.Call) and norm(arg.func).endswith("iter_errors") and not v.keywords
                  and [norm(a) for a in arg.args] == [f.params[0]])
        else:
            ok = False
    if ok:
        r.ok(site(f), "error = best_match(validator.iter_errors(instance)); raised iff not None")
    else:
        r.fail("%s|raise-best" % f.qual, site(f), "jsonschema.validate does not raise best_match(iter_errors(instance)) exactly when it is not None")
    return r


def rule_schema_first(ctx, rid="R4.3"):
    prog = ctx.prog
    calls = calls_of(prog)
    f = prog.func("validators.validate")
    cfg = cfg_of(f)
    r = ctx.rule(rid, "in jsonschema.validate, check_schema(schema) precedes construction of the validator and any use of the instance", floor=2)
    from .c02 import _valsem
    sem = _valsem(ctx, "selection_eval")
    if sem is not None:
        if sem["validate"] is None:
            r.ok(site(f), "check_schema, then construction, then iter_errors -- on one class, schema and instance handed on unchanged (recorded by stub classes)")
            r.ok(site(f) + " [best_match]", "what is raised is best_match of the errors; nothing for none")
        else:
            r.fail("%s|before-check_schema|semantic" % f.qual, site(f), sem["validate"])
        return r
    cs = [(n, c) for n in cfg.live for (c, tg) in calls_at(calls, f, n) if isinstance(c.func, ast.Attribute) and c.func.attr == "check_schema"]
    if len(cs) != 1:
        r.fail("%s|check_schema-calls:%d" % (f.qual, len(cs)), site(f), "expected one check_schema call")
        return r
    cn, cc = cs[0]
    dom = cfg.dominators()
    ip, sp, clsp = f.params[0], f.params[1], f.params[2]
    if [norm(a) for a in cc.args] == [sp] and norm(cc.func.value) == clsp:
        r.ok(site(f, cc), "%s.check_schema(%s)" % (clsp, sp))
    else:
        r.fail("%s|check_schema-args|%s" % (f.qual, norm(cc)), site(f, cc), "check_schema is not applied to the given schema by the chosen class: %s" % norm(cc))
    late = []
    for n in cfg.live:
        uses_inst = any(isinstance(x, ast.Name) and x.id == ip for e in node_exprs(n) for x in walk_expr(e))
        constructs = any(norm(c.func) == clsp for (c, _t) in calls_at(calls, f, n))
        if (uses_inst or constructs) and cn.id not in dom[n.id]:
            late.append(n)
    if late:
        for n in late:
            r.fail("%s|before-check_schema|%s" % (f.qual, n.text), site(f, n.ast), "`%s` can run before check_schema: an invalid schema would be used" % n.text)
    else:
        r.ok(site(f), "check_schema dominates validator construction and every use of the instance")
    return r


def rule_create_from(ctx, rid="R4.4"):
    prog = ctx.prog
    calls = calls_of(prog)
    r = ctx.rule(rid, "SchemaError.create_from copies every field; check_schema re-types the first metaschema error and does nothing else", floor=3)
    E = prog.cls("exceptions._Error")
    init = E.methods["__init__"]
    cont = find_method(prog, "exceptions._Error", "_contents")
    from .errsem import create_from_eval, FIELDS
    sem = create_from_eval(prog)
    if sem is not None:
        # decided by instantiating the package's error classes inside the definitional interpreter (sa/tokeval.py): an error with
        # every field set to a distinct value, re-typed through create_from, must come back with every field equal
        params = init.params[1:]
        lost = sorted(set(params) - set(FIELDS))
        if sem["create_from"] is None and not lost:
            r.ok(site(cont), "every constructor field (%d) survives create_from" % len(params))
            r.ok(site(init), "every constructor parameter is stored and read back under its own name")
            r.ok(site(E.methods["create_from"]), "builds an instance of the class it is called on from the other error's contents")
        elif lost:
            for m in lost:
                r.fail("%s|missing-field|%s" % (cont.qual, m), site(init), "constructor parameter %r is not among the fields compared (new field: extend the table)" % m)
        else:
            msg = sem["create_from"]
            fld = msg.split(" ")[1] if msg.startswith("field ") else "shape"
            r.fail("%s|missing-field|%s" % (cont.qual, fld), site(cont), "SchemaError.create_from loses information: %s" % msg)
        return r
    params = init.params[1:]
    attrs = None
    for n in walk_body(cont):
        if isinstance(n, ast.Assign) and isinstance(n.value, ast.Tuple) and all(isinstance(e, ast.Constant) for e in n.value.elts):
            attrs = [e.value for e in n.value.elts]
    if attrs is None:
        r.fail("%s|attrs" % cont.qual, site(cont), "cannot find the tuple of attribute names in _contents")
    else:
        miss = sorted(set(params) - set(attrs))
        extra = sorted(set(attrs) - set(params))
        if not miss and not extra:
            r.ok(site(cont), "attribute names = constructor parameters (%d)" % len(params))
        for m in miss:
            r.fail("%s|missing-field|%s" % (cont.qual, m), site(cont), "_contents omits %r: a SchemaError built by create_from would lose it" % m)
        for m in extra:
            r.fail("%s|extra-field|%s" % (cont.qual, m), site(cont), "_contents lists %r which the constructor does not accept" % m)
        # dict comprehension reads each attr by its own name
        ok = any(isinstance(n, ast.Return) and "getattr(%s, " % cont.params[0] in norm(n.value) for n in walk_body(cont))
        # the mapping pairs each listed name with getattr(self, <that same name>)
        for n in walk_body(cont):
            if isinstance(n, ast.Return) and isinstance(n.value, (ast.DictComp,)):
                dc = n.value
                ok = norm(dc.value) == "getattr(%s, %s)" % (cont.params[0], norm(dc.key)) and norm(dc.key) == norm(dc.generators[0].target) and not dc.generators[0].ifs
        if not ok:
            r.fail("%s|getattr" % cont.qual, site(cont), "_contents does not read each listed attribute from self")
    stored = {}
    for n in walk_body(init):
        if isinstance(n, ast.Assign):
            for t in n.targets:
                if isinstance(t, ast.Attribute) and norm(t.value) == init.params[0]:
                    stored[t.attr] = n.value
    bad = []
    for p in params:
        v = stored.get(p)
        if v is None or p not in {x.id for x in ast.walk(v) if isinstance(x, ast.Name)}:
            bad.append(p)
    if bad:
        for p in bad:
            r.fail("%s|not-stored|%s" % (init.qual, p), site(init), "constructor parameter %r is not stored under its own name" % p)
    else:
        r.ok(site(init), "every constructor parameter is stored under its own name")
    cf = E.methods["create_from"]
    cname = cont.name
    ok = any(isinstance(n, ast.Return) and norm(n.value) == "%s(**%s.%s())" % (cf.params[0], cf.params[1], cname) for n in walk_body(cf))
    if not ok:
        tmp = [n for n in walk_body(cf) if isinstance(n, ast.Assign) and isinstance(n.targets[0], ast.Name) and norm(n.value) == "%s.%s()" % (cf.params[1], cname)]
        if len(tmp) == 1:
            ok = any(isinstance(n, ast.Return) and norm(n.value) == "%s(**%s)" % (cf.params[0], tmp[0].targets[0].id) for n in walk_body(cf))
    if ok:
        r.ok(site(cf), "cls(**other._contents())")
    else:
        r.fail("%s|shape" % cf.qual, site(cf), "create_from is not cls(**other._contents())")
    return r


def rule_best_match(ctx, rid="R4.5"):
    prog = ctx.prog
    f = prog.func("exceptions.best_match")
    cfg = cfg_of(f)
    r = ctx.rule(rid, "best_match returns an element of its input or of the context tree below it, never a new object", floor=3)
    from .errsem import best_match_eval
    sem = best_match_eval(prog)
    if sem is not None:
        if sem["selects"] is None:
            r.ok(site(f), "None for no errors; otherwise the very object of a given error or of a context-free error below it (5 lists evaluated)")
            r.ok(site(f) + " [order]", "with the default key the shallowest error wins, whichever comes first")
            r.ok(site(f) + " [descent]", "an anyOf/oneOf winner is followed into its context")
        else:
            r.fail("%s|def|selection" % f.qual, site(f), sem["selects"])
        return r
    rets = [n for n in cfg.live if n.kind == "return"]
    names = {n.ast.value.id for n in rets if isinstance(n.ast.value, ast.Name)}
    nonname = [n for n in rets if n.ast.value is not None and not isinstance(n.ast.value, ast.Name)
               and not (isinstance(n.ast.value, ast.Constant) and n.ast.value.value is None)]
    for n in nonname:
        r.fail("%s|return|%s" % (f.qual, norm(n.ast.value)), site(f, n.ast), "returns a computed value: %s" % norm(n.ast.value))
    ep = f.params[0]
    for var in sorted(names):
        for n in cfg.live:
            if n.kind == "stmt" and isinstance(n.ast, ast.Assign) and any(isinstance(t, ast.Name) and t.id == var for t in n.ast.targets):
                v = n.ast.value
                ok = False
                why = ""
                if isinstance(v, ast.Call) and norm(v.func) in ("next", "max", "min"):
                    a0 = v.args[0] if v.args else None
                    if isinstance(a0, ast.Name) and a0.id != ep:
                        # a temporary holding the candidates
                        td = [x.value for x in walk_body(f) if isinstance(x, ast.Assign) and any(isinstance(t, ast.Name) and t.id == a0.id for t in x.targets)]
                        if len(td) == 1:
                            a0 = td[0]
                    src = norm(a0) if a0 is not None else ""
                    if norm(v.func) == "next" and src == ep:
                        ok, why = True, "next(errors, None)"
                    elif src.startswith("itertools.chain([%s], %s)" % (var, ep)) or src == ep:
                        ok, why = True, "%s over the input (and the element already drawn)" % norm(v.func)
                    elif src == "%s.context" % var:
                        ok, why = True, "%s over the previous best's context" % norm(v.func)
                if ok:
                    r.ok(site(f, n.ast), "%s = %s" % (var, why))
                else:
                    r.fail("%s|def|%s" % (f.qual, norm(v)[:60]), site(f, n.ast), "the returned error is defined by %s, not a selection from the input or a context" % norm(v)[:80])
    # errors = iter(errors) aliasing is fine
    return r


def rule_check_schema(ctx, rid="R4.4b"):
    from .c11 import rule_wiring
    return rule_wiring(ctx, rid)


def rule_validate_total(ctx, rid="R4.7", schemas_only=False):
    """jsonschema.validate on ANY JSON value offered as schema: the class-selection step runs before check_schema, so it must
    not raise anything of its own: whenever check_schema would raise, the caller is promised SchemaError."""
    from ..interp import Interp
    from ..kinds import ANY
    from .c03 import run_entry
    prog = ctx.prog
    r = ctx.rule(rid, "jsonschema.validate raises SchemaError/ValidationError (or the documented resolver/type errors) for any JSON value "
                      "offered as schema: selecting the class cannot raise on its own", floor=1)
    I = Interp(prog, "draft7")
    f = prog.func("validators.validate")
    # C03 speaks about schemas that check_schema accepts (objects, and booleans from Draft 6 on); C04 about any JSON value
    eff = run_entry(I, f, [ANY, I.schema_av if schemas_only else ANY])
    allowed = {"SchemaError", "ValidationError", "RefResolutionError", "UnknownType"}
    found = {}
    for x in eff:
        if x.exc in allowed:
            continue
        found.setdefault(x.key(), x)
    if not found:
        r.ok(site(f), "escape set within %s" % sorted(allowed))
    else:
        r.pending(site(f), "escapes: %s" % sorted({x.exc for x in found.values()}))
    for key, x in sorted(found.items()):
        r.findings.append({"rule": r.id, "key": "%s|%s" % (r.id, key), "site": site(x.func, x.node),
                           "msg": "%s can escape jsonschema.validate before/instead of SchemaError: %s%s" % (x.exc, x.op, (" -- operand %s" % x.operand) if x.operand else ""),
                           "detail": {"call_chain": " <- ".join(reversed(x.chain)) if x.chain else ""}})
    return r


def run(ctx):
    ctx.explanation = (
        "C04 structural clauses: R4.1 who-calls (the four entry points reach keyword code only through iter_errors, with "
        "their own arguments), R4.2 the verdict expressions' provenance, R4.3 dominators in jsonschema.validate, R4.4 "
        "writer/reader table agreement between _Error.__init__ and _contents (create_from) and check_schema's wiring, "
        "R4.5 best_match only selects. Not decided: which error best_match picks, equality of concrete error lists.")
    ctx.assume("determinism of repeated calls follows from purity (C07, C18)")
    rule_single_source(ctx)
    rule_verdict_shape(ctx)
    rule_schema_first(ctx)
    rule_create_from(ctx)
    rule_check_schema(ctx)
    rule_best_match(ctx)
    rule_validate_total(ctx)
    # R4.6: "repeating any call yields identical results" needs the resolver's scope restored on every exit (is_valid and
    # validate() abandon the error iterator at its first element)
    from . import scope
    scope.rule_pairing(ctx, "R4.6")
    # "repeating any call yields identical results": no answer of the resolver is cached under a key that omits the scope
    scope.rule_memo_scope_free(ctx, "R4.6m")
    # R4.8: is_valid / iter_errors / validate() on an existing validator agree with jsonschema.validate (which builds a fresh one)
    # only if nothing done elsewhere -- constructing another validator or resolver, with whatever arguments -- reaches into its resolver
    from .c18 import rule_per_validator_resolver
    rule_per_validator_resolver(ctx, "R4.8")
    # R4.9: validate() and is_valid abandon the error iterator at its first element: it must not be kept in a local (the traceback of
    # the raised error keeps the frame, the frame the suspended iterator, the iterator its scopes: the next call starts inside them)
    from .c07 import rule_no_held_iterator
    rule_no_held_iterator(ctx, "R4.9")
    # R4.10: is_valid / validate take the first error: the chain that hands errors up yields them as they are produced
    scope.rule_first_error_path_lazy(ctx, "R4.10")
