"""C15 - reference retrieval and caching (partial)."""
import ast

from ..prog import norm, walk_body, AnalysisError, Func
from ..cfg import cfg_of, reaching_defs, node_exprs, walk_expr, handler_names
from ..calls import calls_of
from ..effects import effects_of
from ..common import calls_at, find_method, const_of
from ..report import site
from .c02 import only_via_edge


def _store_subscripts(calls, f, node, ctxtype=ast.Load):
    out = []
    for e in node_exprs(node):
        for s in walk_expr(e):
            if isinstance(s, ast.Subscript) and isinstance(s.value, ast.Attribute) and s.value.attr == "store" \
                    and calls.type_of(f, s.value.value) == "RefResolver" and isinstance(s.ctx, ctxtype):
                out.append(s)
    return out



def _sem_clauses(ctx, r, f, clauses, texts, keys):
    """Common front end of the RefResolver rules: the clauses of sa/rules/ressem.py (the resolver run inside the definitional
    interpreter against recording handlers) decide when they can; returns True when the rule is thereby finished."""
    from .ressem import retrieval_eval
    sem = ctx.extra.get("_ressem")
    if sem is None and "_ressem" not in ctx.extra:
        sem = retrieval_eval(ctx.prog)
        ctx.extra["_ressem"] = sem if sem is not None else False
    if not sem:
        return False
    for c in clauses:
        if "raises" in sem and sem.get(c, "?") is None or ("raises" in sem and c not in sem):
            # a scenario of the table ended in an exception the property does not allow there: nothing after it was decided
            r.fail("%s|%s" % (f.qual, keys[c]), site(f), "%s (clause %s: %s)" % (sem["raises"], c, texts[c]))
        elif sem.get(c, "?") is None:
            r.ok(site(f) + " [%s]" % c, texts[c])
        elif c in sem:
            r.fail("%s|%s" % (f.qual, keys[c]), site(f), sem[c])
        else:
            return False
    return True

def rule_store_first(ctx, rid="R15.1"):
    prog = ctx.prog
    calls = calls_of(prog)
    f = find_method(prog, "validators.RefResolver", "resolve_from_url")
    rr = find_method(prog, "validators.RefResolver", "resolve_remote")
    cfg = cfg_of(f)
    r = ctx.rule(rid, "the store is consulted before any retrieval; retrieval happens only when the store lookup failed", floor=2)
    if _sem_clauses(ctx, r, f, ("store-first", "key"),
                    {"store-first": "a stored document is used without any retrieval", "key": "a miss retrieves the fragment-free URL once and follows the fragment in the result"},
                    {"store-first": "retrieval-before-store", "key": "key|url"}):
        return r
    rcalls = [(n, c) for n in cfg.live for (c, tg) in calls_at(calls, f, n) if any(t.kind == "func" and t.func is rr for t in tg)]
    lookups = [(n, s) for n in cfg.live for s in _store_subscripts(calls, f, n)]
    lookups += [(n, c) for n in cfg.live for (c, tg) in calls_at(calls, f, n)
                if isinstance(c.func, ast.Attribute) and c.func.attr == "get" and isinstance(c.func.value, ast.Attribute)
                and c.func.value.attr == "store"]
    if len(rcalls) != 1 or len(lookups) != 1:
        r.fail("%s|shape" % f.qual, site(f), "expected one store lookup and one resolve_remote call, found %d and %d" % (len(lookups), len(rcalls)))
        return r
    (ln, ls), (rn, rc) = lookups[0], rcalls[0]
    # the retrieval node is reachable only through the KeyError handler of the lookup
    handlers = [x for x in cfg.live if x.kind == "except" and handler_names(x.ast) and any(h in ("KeyError", "LookupError") for h in handler_names(x.ast))]
    via = False
    for h in handlers:
        # handler belongs to the try whose body holds the lookup
        if any(t is tt for (t, wh) in ln.trys if wh == "body" for tt in [t] if h.ast in t.handlers):
            # every path entry -> rn passes h
            seen, todo, leak = set(), [cfg.entry], False
            while todo:
                x = todo.pop()
                if x.id in seen or x is h:
                    continue
                seen.add(x.id)
                if x is rn:
                    leak = True
                    break
                todo.extend(y for (_l, y) in x.succ)
            via = not leak
    if via:
        r.ok(site(f, rc), "resolve_remote only inside the KeyError handler of the store lookup")
    else:
        r.fail("%s|retrieval-before-store" % f.qual, site(f, rc), "resolve_remote can run without a failed store lookup first: documents in the store would still be fetched")
    # key of lookup and of retrieval: the defragmented URL
    dn = [n for n in cfg.live if n.kind == "stmt" and isinstance(n.ast, ast.Assign) and isinstance(n.ast.value, ast.Call)
          and any(t.kind == "ext" and t.name.endswith("urldefrag") for t in calls.callee(f, n.ast.value))]
    key = ls.slice if isinstance(ls, ast.Subscript) else (ls.args[0] if ls.args else None)
    urlvar = None
    if dn and isinstance(dn[0].ast.targets[0], ast.Tuple) and isinstance(dn[0].ast.targets[0].elts[0], ast.Name):
        urlvar = dn[0].ast.targets[0].elts[0].id
    if urlvar and isinstance(key, ast.Name) and key.id == urlvar and [norm(a) for a in rc.args] == [urlvar]:
        r.ok(site(f, ls), "store and retrieval are both keyed by the fragment-free URL")
    else:
        r.fail("%s|key|%s" % (f.qual, norm(key)), site(f, ls), "store lookup / retrieval are not keyed by the fragment-free URL (%s / %s)" % (norm(key), norm(rc)))
    # resolve_remote itself does not read the store
    cfg2 = cfg_of(rr)
    reads = [s for n in cfg2.live for s in _store_subscripts(calls, rr, n)]
    if reads:
        r.fail("%s|reads-store" % rr.qual, site(rr, reads[0]), "resolve_remote reads the store")
    return r


def rule_failures_wrapped(ctx, rid="R15.2"):
    prog = ctx.prog
    calls = calls_of(prog)
    f = find_method(prog, "validators.RefResolver", "resolve_from_url")
    rr = find_method(prog, "validators.RefResolver", "resolve_remote")
    cfg = cfg_of(f)
    r = ctx.rule(rid, "any failure of a retrieval surfaces as RefResolutionError", floor=1)
    if _sem_clauses(ctx, r, f, ("wrapped",), {"wrapped": "KeyError, ValueError, OSError and RuntimeError from a handler all surface as RefResolutionError; nothing is filed"},
                    {"wrapped": "unwrapped"}):
        return r
    for n in cfg.live:
        for (c, tg) in calls_at(calls, f, n):
            if not any(t.kind == "func" and t.func is rr for t in tg):
                continue
            trys = [t for (t, wh) in n.trys if wh == "body"]
            hs = [h for t in trys for h in t.handlers if handler_names(h) is None or "Exception" in handler_names(h) or "BaseException" in handler_names(h)]
            if not hs:
                r.fail("%s|unwrapped" % f.qual, site(f, c), "a handler failure would escape as itself, not as RefResolutionError")
                continue
            h = hs[0]
            hn = [x for x in cfg.live if x.kind == "except" and x.ast is h][0]
            ends = []
            seen, todo = set(), [hn]
            while todo:
                x = todo.pop()
                if x.id in seen:
                    continue
                seen.add(x.id)
                if x.kind == "raise":
                    ends.append(x)
                    continue
                if x.kind in ("return", "exit") or x.kind == "stmt" and not any(True for _ in x.succ):
                    ends.append(x)
                    continue
                nxt = [y for (l, y) in x.succ if l != "exc"]
                if not nxt:
                    ends.append(x)
                todo.extend(nxt)
            rre = prog.cls("exceptions.RefResolutionError")
            ok = bool(ends) and all(x.kind == "raise" and isinstance(x.ast, ast.Raise) and isinstance(x.ast.exc, ast.Call)
                                    and prog.resolve_expr(f.mod, x.ast.exc.func, f) is rre for x in ends)
            if ok:
                r.ok(site(f, h), "except %s -> raise RefResolutionError" % norm(h.type))
            else:
                r.fail("%s|handler-end" % f.qual, site(f, h), "the handler around the retrieval does not always raise RefResolutionError")
    return r


def rule_store_writes(ctx, rid="R15.3"):
    prog = ctx.prog
    calls = calls_of(prog)
    eff = effects_of(prog)
    r = ctx.rule(rid, "outside __init__ the store is written only in resolve_remote and only when cache_remote is true", floor=2)
    rr = find_method(prog, "validators.RefResolver", "resolve_remote")
    for f in sorted(prog.funcs.values(), key=lambda x: x.qual):
        for w in eff.direct_writes(f):
            if not any(t[:3] == ("FLD", "RefResolver", "store") for t in w.locs):
                continue
            if f.name == "__init__" and f.cls is not None and f.cls.qual == "validators.RefResolver":
                r.ok(site(f, w.node), "seeding: %s" % w.text)
                continue
            if f is not rr:
                r.fail("%s|store-write|%s" % (f.qual, w.text), site(f, w.node), "store written by %s" % f.qual)
                continue
            cfg = cfg_of(f)
            nodes = [n for n in cfg.live if n.ast is w.node]
            tests = [(n, "true") for n in cfg.live if n.kind == "test" and isinstance(n.ast, ast.Attribute) and n.ast.attr == "cache_remote"
                     and calls.type_of(f, n.ast.value) == "RefResolver"]
            from .c07 import store_key_verdict
            kv = store_key_verdict(prog, f, w)
            if kv is not None:
                r.fail("%s|store-key" % f.qual, site(f, w.node),
                       "%s: the retrieved document is not found again under the URI it was asked for (retrieved again every time), and is "
                       "served for a URI it was never retrieved for" % kv)
            elif nodes and tests and all(only_via_edge(cfg, n, tests, True) for n in nodes):
                r.ok(site(f, w.node), "%s only on the true edge of self.cache_remote" % w.text)
            else:
                r.fail("%s|unconditional-store-write|%s" % (f.qual, w.text), site(f, w.node),
                       "the store is written even when cache_remote is off: %s" % w.text)
        # update()/setdefault on the store outside __init__
        for n in walk_body(f):
            if isinstance(n, ast.Call) and isinstance(n.func, ast.Attribute) and n.func.attr in ("update", "setdefault", "pop", "clear", "popitem") \
                    and isinstance(n.func.value, ast.Attribute) and n.func.value.attr == "store" and calls.type_of(f, n.func.value.value) == "RefResolver":
                if f.name == "__init__":
                    r.ok(site(f, n), "seeding: %s" % norm(n)[:60])
                else:
                    r.fail("%s|store-%s" % (f.qual, n.func.attr), site(f, n), "store modified by %s outside __init__" % norm(n)[:60])
    return r


def rule_every_retrieval_cached(ctx, rid="R15.3b"):
    """With caching on, whatever branch retrieved the document, the store write is reached before returning."""
    prog = ctx.prog
    calls = calls_of(prog)
    f = find_method(prog, "validators.RefResolver", "resolve_remote")
    cfg = cfg_of(f)
    r = ctx.rule(rid, "every successful retrieval, by whichever branch, passes the cache_remote test (and so the store write) before returning", floor=1)
    _sem_clauses(ctx, r, f, ("cached", "uncached"),
                 {"cached": "with cache_remote on, whatever was retrieved ({} and false included) is filed under its URL and not retrieved again",
                  "uncached": "with cache_remote off nothing is filed"},
                 {"cached": "not-cached", "uncached": "unconditional-store-write"})
    tests = [n for n in cfg.live if n.kind == "test" and isinstance(n.ast, ast.Attribute) and n.ast.attr == "cache_remote"
             and calls.type_of(f, n.ast.value) == "RefResolver"]
    rets = [n for n in cfg.live if n.kind == "return"]
    if not tests:
        r.fail("%s|no-cache-test" % f.qual, site(f), "resolve_remote never consults cache_remote")
        return r
    dom = cfg.dominators()
    for n in rets:
        if any(t.id in dom[n.id] for t in tests):
            r.ok(site(f, n.ast), "return dominated by the cache_remote test")
        else:
            r.fail("%s|return-bypasses-cache|%s" % (f.qual, norm(n.ast)[:40]), site(f, n.ast),
                   "`%s` returns a retrieved document without passing the cache_remote test: with caching on it is fetched again for every new URL spelling/fragment" % norm(n.ast)[:50])
    return r


def registry_snapshot(f, e, depth=0):
    """e evaluates to the pairs/mapping (id -> class.META_SCHEMA) for *every* entry of meta_schemas.items()."""
    if depth > 3 or e is None:
        return False
    if isinstance(e, ast.Name):
        defs = [x.value for x in walk_body(f) if isinstance(x, ast.Assign) and any(isinstance(t, ast.Name) and t.id == e.id for t in x.targets)]
        # the temporary must hold exactly the snapshot: used once, never updated with other (raw) keys
        uses = [x for x in walk_body(f) if isinstance(x, ast.Name) and x.id == e.id and isinstance(x.ctx, ast.Load)]
        return len(defs) == 1 and len(uses) == 1 and registry_snapshot(f, defs[0], depth + 1)
    if isinstance(e, ast.Call) and norm(e.func) in ("dict", "list", "tuple") and len(e.args) == 1 and not e.keywords:
        return registry_snapshot(f, e.args[0], depth + 1)
    if isinstance(e, (ast.GeneratorExp, ast.ListComp)) and len(e.generators) == 1:
        g = e.generators[0]
        return (norm(g.iter) == "meta_schemas.items()" and not g.ifs and isinstance(e.elt, ast.Tuple) and len(e.elt.elts) == 2
                and isinstance(g.target, ast.Tuple) and len(g.target.elts) == 2 and norm(e.elt.elts[0]) == norm(g.target.elts[0])
                and norm(e.elt.elts[1]) == norm(g.target.elts[1]) + ".META_SCHEMA")
    if isinstance(e, ast.DictComp) and len(e.generators) == 1:
        g = e.generators[0]
        return (norm(g.iter) == "meta_schemas.items()" and not g.ifs and isinstance(g.target, ast.Tuple) and len(g.target.elts) == 2
                and norm(e.key) == norm(g.target.elts[0]) and norm(e.value) == norm(g.target.elts[1]) + ".META_SCHEMA")
    return False


def _in_ctor_step(prog, calls, m, call):
    steps = calls.with_private_helpers({find_method(prog, "validators.RefResolver", "__init__")})
    return any(f.mod is m and any(x is call for x in walk_body(f)) for f in steps)


def _init_sem(ctx):
    from .ressem import init_eval
    if "_initsem" not in ctx.extra:
        ctx.extra["_initsem"] = init_eval(ctx.prog) or False
    return ctx.extra["_initsem"]


def rule_seeding(ctx, rid="R15.4"):
    prog = ctx.prog
    f = find_method(prog, "validators.RefResolver", "__init__")
    r = ctx.rule(rid, "the store is a URIDict seeded with every registered metaschema, then the caller's store, then the referrer", floor=3)
    sem = _init_sem(ctx)
    if sem and "raises" not in sem:
        # decided by constructing resolvers inside the definitional interpreter, with two registered metaschemas and a caller's
        # store that has competing entries for a registered id and for the base URI
        for clause, text in (("seed", "registered metaschemas and the caller's entries are all in the new store (a URIDict)"),
                             ("seed-order", "caller's entry beats the registry's, the referrer beats both under its base URI")):
            if sem[clause] is None:
                r.ok(site(f) + " [%s]" % clause, text)
            else:
                r.fail("%s|%s|%s" % (f.qual, clause, "semantic"), site(f), sem[clause])
        if sem["seed"] is None and sem["seed-order"] is None:
            r.ok(site(f) + " [second resolver]", "a second resolver starts from the registry alone")
        return r
    stmts = [n for n in f.body]
    order = []
    for n in stmts:
        s = norm(n)
        if isinstance(n, ast.Assign) and norm(n.targets[0]) == "self.store":
            v = n.value
            ok = (isinstance(v, ast.Call) and norm(v.func).endswith("URIDict") and len(v.args) == 1 and not v.keywords
                  and registry_snapshot(f, v.args[0]))
            if ok:
                order.append("registry")
                r.ok(site(f, n), "URIDict((id, class.META_SCHEMA) for every (id, class) in meta_schemas.items())")
            else:
                r.fail("%s|seed|%s" % (f.qual, s[:60]), site(f, n), "the store is not a URIDict seeded from every registry entry: %s" % s[:90])
        elif s == "self.store.update(store)":
            order.append("caller")
            r.ok(site(f, n), "then the caller's store")
        elif s == "self.store[base_uri] = referrer":
            order.append("referrer")
            r.ok(site(f, n), "then the referrer under base_uri")
    if order != ["registry", "caller", "referrer"]:
        r.fail("%s|seed-order|%s" % (f.qual, ",".join(order)), site(f), "store seeding steps are %s, expected registry, caller, referrer" % order)
    return r


URI_TABLE = ["http://x/y", "http://x/y#", "http://x/Y#", "http://x/y#/definitions/a", "urn:a:b#", "", "#", "x/../y", "http://x/a%2Fb",
             "http://x/a+b?q=1#", "HTTP://x/y", "http://x/y/#a%20b"]


def _uridict_eval(prog, c):
    """URIDict evaluated by sa/tokeval.py: normalize on a table of URIs (the oracle is urlsplit(u).geturl(): an empty fragment
    goes, nothing else changes) and the three accessors against the inner dict.  -> {clause: None | message} or None."""
    from urllib.parse import urlsplit
    from ..tokeval import Ev, Obj, Tok, Undecided, PyRaise
    ev = Ev(prog, fuel=20000)
    out = {}
    try:
        o = Obj(c, {"store": {}})
        nm = ev.find_method(c, "normalize")
        out["normalize"] = None
        for u in URI_TABLE:
            got = ev.call_func(nm, [o, u], {})
            want = urlsplit(u).geturl()
            if got != want:
                out["normalize"] = "normalize(%r) = %r, expected %r (only an empty fragment may be dropped)" % (u, got, want)
                break
        v1, v2 = Tok("doc1"), Tok("doc2")
        for name in ("__getitem__", "__setitem__", "__delitem__"):
            m = ev.find_method(c, name)
            if m is None:
                out[name] = "accessor %s vanished" % name
                continue
            out[name] = None
            o = Obj(c, {"store": {}})
            raw, norm_ = "http://x/y#", ev.call_func(nm, [o, "http://x/y#"], {})
            if name == "__setitem__":
                ev.call_func(m, [o, raw, v1], {})
                if list(o.attrs["store"].items()) != [(norm_, v1)]:
                    out[name] = "storing under %r leaves the inner dict as %r" % (raw, o.attrs["store"])
            elif name == "__getitem__":
                o.attrs["store"][norm_] = v1
                if ev.call_func(m, [o, raw], {}) is not v1:
                    out[name] = "lookup of %r does not find the entry filed under %r" % (raw, norm_)
                try:
                    ev.call_func(m, [o, "http://other/"], {})
                    out[name] = "lookup of an absent URI does not raise KeyError"
                except PyRaise as pr:
                    if pr.name != "KeyError":
                        out[name] = "lookup of an absent URI raises %s" % pr.name
            else:
                o.attrs["store"][norm_] = v1
                o.attrs["store"]["http://z/"] = v2
                ev.call_func(m, [o, raw], {})
                if list(o.attrs["store"].items()) != [("http://z/", v2)]:
                    out[name] = "deleting %r leaves the inner dict as %r" % (raw, o.attrs["store"])
    except Undecided:
        return None
    except PyRaise as pr:
        out["raises"] = "raises %s (%s)" % (pr.name, pr.msg)
    return out


def rule_uridict(ctx, rid="R15.5"):
    prog = ctx.prog
    calls = calls_of(prog)
    c = prog.cls("_utils.URIDict")
    r = ctx.rule(rid, "URIDict normalises the key on every accessor; constructor call sites pass only already-normal keys", floor=5)
    sem = _uridict_eval(prog, c)
    for name in ("__getitem__", "__setitem__", "__delitem__"):
        if sem is not None:
            m = c.methods.get(name)
            msg = sem.get(name, sem.get("raises"))
            if msg is None:
                r.ok(site(m), "goes through normalize() (evaluated against the inner dict)")
            else:
                r.fail("%s|raw-key" % (m.qual if m else "_utils.URIDict." + name), site(m) if m else "jsonschema/_utils.py", "%s: %s" % (name, msg))
            continue
        m = c.methods.get(name)
        if m is None:
            r.fail("_utils.URIDict|missing|%s" % name, "jsonschema/_utils.py URIDict", "accessor %s vanished" % name)
            continue
        up = m.params[1]
        subs = [n for n in walk_body(m) if isinstance(n, ast.Subscript) and norm(n.value) == "%s.store" % m.params[0]]
        good = subs and all(isinstance(s.slice, ast.Call) and norm(s.slice.func) == "%s.normalize" % m.params[0]
                            and [norm(a) for a in s.slice.args] == [up] for s in subs)
        if good:
            r.ok(site(m), "store[self.normalize(%s)]" % up)
        else:
            r.fail("%s|raw-key" % m.qual, site(m), "%s touches the inner dict with a key that did not go through normalize()" % name)
    for name in ("__contains__", "get", "update", "pop", "setdefault", "keys", "items", "values"):
        if name in c.methods:
            m = c.methods[name]
            raw = [n for n in walk_body(m) if isinstance(n, (ast.Subscript, ast.Compare, ast.Call)) and "%s.store" % m.params[0] in norm(n) and "normalize" not in norm(n)]
            if raw and name in ("__contains__", "get", "pop", "setdefault"):
                r.fail("%s|raw-key" % m.qual, site(m), "overridden %s bypasses normalize()" % name)
    bases = [norm(b) for b in c.node.bases]
    if any(b.endswith("MutableMapping") for b in bases):
        r.ok("jsonschema/_utils.py URIDict", "MutableMapping mixin: __contains__/get/update go through the normalising accessors")
    else:
        r.fail("_utils.URIDict|bases|%s" % ",".join(bases), "jsonschema/_utils.py URIDict", "URIDict no longer derives from MutableMapping: membership/get are not routed through __getitem__")
    nm = c.methods.get("normalize")
    if sem is not None and nm is not None:
        if sem.get("normalize", sem.get("raises")) is None:
            r.ok(site(nm), "normalize drops an empty fragment and changes nothing else (table of %d URIs)" % len(URI_TABLE))
        else:
            r.fail("_utils.URIDict.normalize|shape", site(nm), sem.get("normalize") or sem.get("raises"))
    elif nm and any(isinstance(n, ast.Return) and norm(n.value) == "urlsplit(%s).geturl()" % nm.params[1] for n in walk_body(nm)):
        r.ok(site(nm), "normalize = urlsplit(uri).geturl()")
    else:
        r.fail("_utils.URIDict.normalize|shape", site(nm) if nm else "URIDict", "normalize is not urlsplit(uri).geturl()")
    # constructor call sites
    isem = _init_sem(ctx)
    n_sites = 0
    for m in prog.mods.values():
        for n in ast.walk(m.tree):
            if isinstance(n, ast.Call) and norm(n.func).split(".")[-1] == "URIDict":
                n_sites += 1
                where = "jsonschema/%s.py:%d" % (m.name, n.lineno)
                if not n.args and not n.keywords:
                    r.ok(where, "URIDict() empty")
                elif len(n.args) == 1 and not n.keywords and _site_snapshot(prog, m, n):
                    r.ok(where, "entries drawn from another URIDict's items(): keys already normal")
                elif _in_ctor_step(prog, calls, m, n) and isem and "raises" not in isem and isem["seed"] is None and isem["seed-order"] is None:
                    # however the initial entries are assembled: resolvers built inside the definitional interpreter find registered
                    # metaschemas and caller-supplied entries (one written with an empty fragment) under their normal keys
                    r.ok(where, "[semantic] in the resolver constructor: every seeded entry is found under its normalised URI")
                else:
                    r.fail("%s|URIDict-raw-entries|%s" % (m.name, norm(n)[:60]), where, "URIDict constructed with raw keys (the constructor does not normalise): %s" % norm(n)[:80])
    if n_sites < 2:
        r.fail("URIDict|call-sites:%d" % n_sites, "jsonschema", "expected at least 2 URIDict construction sites")
    return r


def _site_snapshot(prog, m, call):
    for f in prog.funcs.values():
        if f.mod is m and any(x is call for x in walk_body(f)):
            return registry_snapshot(f, call.args[0])
    return False


def rule_caches(ctx, rid="R15.6"):
    prog = ctx.prog
    f = find_method(prog, "validators.RefResolver", "__init__")
    r = ctx.rule(rid, "default caches are created per resolver, only when none was supplied, and stored on the instance", floor=4)
    sem = _init_sem(ctx)
    if sem and "raises" not in sem:
        if sem["caches"] is None:
            for what in ("urljoin_cache", "remote_cache"):
                r.ok(site(f) + " [%s]" % what, "a default per resolver (not shared), bound to this resolver; a supplied one is used as given")
                r.ok(site(f) + " [self._%s]" % what, "stored on the instance")
        else:
            r.fail("%s|default-caches" % f.qual, site(f), sem["caches"])
        return r
    for pname, fn in (("urljoin_cache", "urljoin"), ("remote_cache", "self.resolve_from_url")):
        ok = False
        for n in f.body:
            if isinstance(n, ast.If) and norm(n.test) == "%s is None" % pname and not n.orelse and len(n.body) == 1:
                b = n.body[0]
                if isinstance(b, ast.Assign) and norm(b.targets[0]) == pname and isinstance(b.value, ast.Call) \
                        and isinstance(b.value.func, ast.Call) and norm(b.value.func.func).endswith("lru_cache") and [norm(a) for a in b.value.args] == [fn]:
                    ok = True
        if ok:
            r.ok(site(f) + " [%s]" % pname, "fresh lru_cache over %s only when the argument is None" % fn)
        else:
            r.fail("%s|default-%s" % (f.qual, pname), site(f), "default %s is not a fresh per-instance lru_cache(%s) created only when none is given" % (pname, fn))
        st = any(isinstance(n, ast.Assign) and norm(n.targets[0]) == "self._%s" % pname and norm(n.value) == pname for n in f.body)
        if st:
            r.ok(site(f) + " [self._%s]" % pname, "stored on the instance")
        else:
            r.fail("%s|store-%s" % (f.qual, pname), site(f), "%s is not stored on the instance as given" % pname)
    return r


def rule_handler_selection(ctx, rid="R15.7"):
    prog = ctx.prog
    calls = calls_of(prog)
    f = find_method(prog, "validators.RefResolver", "resolve_remote")
    cfg = cfg_of(f)
    r = ctx.rule(rid, "a registered handler for the scheme wins; requests only for http(s); urlopen otherwise", floor=2)
    sem = ctx.extra.get("_selection_sem", 0)
    if sem == 0:
        from .ressem import selection_eval
        try:
            sem = selection_eval(prog)
        except RecursionError:
            sem = None
        ctx.extra["_selection_sem"] = sem
    if sem is not None:
        texts = {"handler-first": "a handler registered for the URL's scheme is the only retriever asked, with the URL as given (7 schemes x 5 handler tables x requests present/absent)",
                 "requests-http-only": "without a handler, requests serves http and https only, and only when importable",
                 "urlopen-otherwise": "every other case goes to urlopen, the body decoded as UTF-8 JSON",
                 "filed": "the document is filed under the URL exactly when cache_remote is on",
                 "raises": "evaluates without an unexpected exception"}
        for clause, msg in sorted(sem.items()):
            if msg is None:
                r.ok(site(f), "[semantic] %s" % texts.get(clause, clause))
            else:
                r.fail("%s|semantic|%s" % (f.qual, clause), site(f), msg)
        return r
    hn = [n for n in cfg.live for (c, tg) in calls_at(calls, f, n) if any(t.kind == "dynamic" and t.name == "handler" for t in tg)]
    tests = [(n, "true" if isinstance(n.ast.ops[0], ast.In) else "false") for n in cfg.live
             if n.kind == "test" and isinstance(n.ast, ast.Compare) and isinstance(n.ast.ops[0], (ast.In, ast.NotIn))
             and isinstance(n.ast.comparators[0], ast.Attribute) and n.ast.comparators[0].attr == "handlers"]

    def builtin_retrieval(c, tg, depth=0):
        """the call retrieves by itself: urlopen / requests, directly or inside a package helper"""
        if any(t.kind == "ext" and (t.name.endswith("urlopen") or "requests" in t.name) for t in tg) or "requests.get" in norm(c):
            return True
        for t in tg:
            if t.kind == "func" and t.func is not None and t.func.cls is None and depth < 2:
                for (_n2, c2, tg2) in calls.calls_in(t.func):
                    if builtin_retrieval(c2, tg2, depth + 1):
                        return True
        return False
    if len(hn) == 1 and tests and only_via_edge(cfg, hn[0], tests, True):
        # the handler test is the first decision: other retrievals are only on its other edge
        others = [n for n in cfg.live for (c, tg) in calls_at(calls, f, n) if builtin_retrieval(c, tg)]
        absent = [(t, "false" if l == "true" else "true") for (t, l) in tests]
        if others and all(only_via_edge(cfg, n, absent, True) for n in others):
            r.ok(site(f, hn[0].ast), "handlers[scheme](uri) on the scheme-in-handlers edge; every other retrieval only on the other edge")
        else:
            r.fail("%s|handler-not-first" % f.qual, site(f, hn[0].ast), "a built-in retrieval can run although a handler is registered for the scheme")
    else:
        r.fail("%s|handler-call" % f.qual, site(f), "handler call is not guarded by `scheme in self.handlers`")
    sch = [n for n in cfg.live if n.kind == "stmt" and isinstance(n.ast, ast.Assign) and norm(n.ast.value) == "urlsplit(%s).scheme" % f.params[1]]
    if sch:
        r.ok(site(f, sch[0].ast), "scheme = urlsplit(uri).scheme")
    else:
        r.fail("%s|scheme" % f.qual, site(f), "the scheme is not taken from urlsplit(uri)")
    return r


def run(ctx):
    ctx.explanation = (
        "C15 structural clauses: R15.1 store before network (retrieval only inside the KeyError handler of the store "
        "lookup), R15.2 every retrieval failure re-raised as RefResolutionError, R15.3 who-may-write the store and the "
        "cache_remote guard (dominating true edge), R15.4 seeding from the registry, R15.5 URIDict normalises on every "
        "accessor and is never constructed with raw keys, R15.6 per-resolver default caches, R15.7 handler selection. "
        "Not decided: fetch counts over histories with evicting caches.")
    ctx.assume("functools.lru_cache and MutableMapping mixins behave as documented")
    rule_store_first(ctx)
    rule_failures_wrapped(ctx)
    rule_store_writes(ctx)
    rule_every_retrieval_cached(ctx)
    rule_seeding(ctx)
    rule_uridict(ctx)
    rule_caches(ctx)
    rule_handler_selection(ctx)
    rule_handler_documents(ctx)
    rule_from_schema(ctx)
    # R15.10: no behaviour changes at a number fixed in the source (sizes, depths, counts, magnitudes are unbounded in the property's domain)
    from . import scope as _scope
    _scope.rule_no_size_thresholds(ctx, 'R15.10', ('validators', '_utils'), 'retrieval and caching')
    _scope.rule_no_value_identity(ctx, 'R15.11', ('validators', '_utils'), 'the resolver and the dispatcher')
    # R15.12: a resolver's store is its own: a store handed in -- a URIDict too -- is copied, never adopted (C15-r7m3)
    from .c18 import rule_per_validator_resolver
    rule_per_validator_resolver(ctx, "R15.12")

def rule_handler_documents(ctx, rid="R15.8"):
    from .ressem import handler_docs_eval
    prog = ctx.prog
    f = find_method(prog, "validators.RefResolver", "resolve_remote")
    r = ctx.rule(rid, "what a handler returns is the document, unchanged: a root that is a JSON string, number, null or array is not parsed or decoded again", floor=1)
    try:
        sem = handler_docs_eval(prog)
    except RecursionError:
        sem = None
    if sem is None:
        r.ok(site(f), "NOT DECIDED: outside the evaluated fragment")
        r.note(site(f), "%s not decided" % rid)
    elif sem == "":
        r.ok(site(f), "nine kinds of document (strings that look like JSON, plain text, arrays, numbers, null, booleans, {}, bytes) come back as the handler returned them and are filed as they are")
    else:
        r.fail("%s|handler-document" % f.qual, site(f), sem)
    return r


def rule_from_schema(ctx, rid="R15.9"):
    from .ressem import from_schema_eval
    prog = ctx.prog
    f = find_method(prog, "validators.RefResolver", "from_schema")
    r = ctx.rule(rid, "RefResolver.from_schema hands every constructor option on (cache_remote, handlers, store, caches) and bases the resolver on the schema's id as read by id_of", floor=1)
    try:
        sem = from_schema_eval(prog)
    except RecursionError:
        sem = None
    if sem is None:
        r.ok(site(f), "NOT DECIDED: outside the evaluated fragment")
        r.note(site(f), "%s not decided" % rid)
    elif sem == "":
        r.ok(site(f), "cache_remote=False, handlers, store and both caches reach the resolver; id_of decides the base")
    else:
        r.fail("%s|options-dropped" % f.qual, site(f), sem)
    return r
