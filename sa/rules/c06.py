"""C06 - each error locates itself truthfully (partial)."""
import ast

from ..prog import norm, walk_body, AnalysisError, Func
from ..cfg import cfg_of, reaching_defs, node_exprs, walk_expr
from ..calls import calls_of
from ..effects import effects_of
from ..common import calls_at, find_method, const_of, dispatcher, stamper
from ..prov import Prov, show
from ..report import site
from . import c02


def descend_sites(prog):
    calls = calls_of(prog)
    desc = calls.V.methods["descend"]
    out = []
    for f in sorted(prog.funcs.values(), key=lambda x: x.qual):
        if f is desc:
            continue
        for n in walk_body(f):
            if isinstance(n, ast.Call):
                if any(t.kind == "func" and t.func is desc for t in calls.callee(f, n)):
                    out.append((f, n))
    return out


def bind_descend(desc, call):
    ps = desc.params[1:]
    b = {}
    for i, a in enumerate(call.args):
        if i < len(ps):
            b[ps[i]] = a
    for k in call.keywords:
        if k.arg:
            b[k.arg] = k.value
    return b


def rule_descend_paths(ctx, rid_i="R6.1", rid_s="R6.2"):
    prog = ctx.prog
    calls = calls_of(prog)
    desc = calls.V.methods["descend"]
    ri = ctx.rule(rid_i, "at every descend site, path= is the very index/key that selected the instance part descended into", floor=22)
    rs = ctx.rule(rid_s, "at every descend site, schema_path= is the very index/key that selected the subschema descended into", floor=22)
    dparams = desc.params
    pi, ps_, pp, psp = dparams[1], dparams[2], dparams[3], dparams[4]
    kwfuncs = set(prog.tables.keyword_funcs())
    work = []
    for f, call in descend_sites(prog):
        callers = []
        if f not in kwfuncs and f.cls is None and f.outer is None:
            # a private helper of keyword functions: its descend sites are judged once per call site of the helper, with the
            # helper's parameters bound to what that caller passes (an iterable parameter to the terms of its elements)
            for c in prog.funcs.values():
                if c is f:
                    continue
                for (_n, cn, tg) in calls.calls_in(c):
                    if any(t.kind == "func" and t.func is f for t in tg):
                        callers.append((c, cn))
        if not callers:
            work.append((f, call, None, f))
        for (c, cn) in callers:
            pvc = Prov(prog, calls, c)
            envc = pvc.env_at(cn)
            base = {}
            for i, a in enumerate(cn.args):
                if i >= len(f.params):
                    break
                et = pvc.iter_terms(a, envc) if isinstance(a, (ast.Call, ast.Name, ast.GeneratorExp, ast.ListComp)) else None
                if isinstance(et, tuple) and et and et[0] not in ("opaque",) and not (isinstance(a, ast.Name) and a.id in c.all_params):
                    base[f.params[i]] = ("iterable", et)
                else:
                    base[f.params[i]] = pvc.term(a, envc)
            for k in cn.keywords:
                if k.arg:
                    base[k.arg] = pvc.term(k.value, envc)
            work.append((f, call, base, c))
    for f, call, base, frame in work:
        pv = Prov(prog, calls, f)
        env = pv.env_at(call, base)
        b = bind_descend(desc, call)
        roles = calls.roles(frame)
        ip = calls.param_with_role(frame, "instance")
        vp = calls.param_with_role(frame, "value")
        sp = calls.param_with_role(frame, "schema")
        I = pv.term(b.get(pi), env) if b.get(pi) is not None else None
        S = pv.term(b.get(ps_), env) if b.get(ps_) is not None else None
        path = b.get(pp)
        spath = b.get(psp)
        pt = pv.term(path, env) if path is not None and not (isinstance(path, ast.Constant) and path.value is None) else None
        st = pv.term(spath, env) if spath is not None and not (isinstance(spath, ast.Constant) and spath.value is None) else None
        where = site(f, call) + ("" if frame is f else " [called from %s]" % frame.qual)
        key = "%s|%s" % (f.qual, norm(call)[:70])
        # ---- instance side
        if I is None:
            ri.fail(key + "|no-instance", where, "descend called without an instance argument")
        elif I == ("param", ip):
            if pt is None:
                ri.ok(where, "same instance, no path")
            else:
                ri.fail(key + "|path-on-same-instance", where, "the instance is passed on unchanged but path=%s is given" % show(pt))
        elif I[0] == "elem" and I[1] == ("param", ip):
            if pt is None:
                ri.fail(key + "|missing-path", where, "descends into %s without path=: the error would claim to be about the parent" % show(I))
            elif pt == I[2]:
                ri.ok(where, "instance %s, path=%s" % (show(I), show(pt)))
            else:
                ri.fail(key + "|path-mismatch", where, "descends into %s but records path=%s" % (show(I), show(pt)))
        elif I[0] in ("key", "member") and I[1] == ("param", ip):
            if pt is None:
                ri.ok(where, "instance is a property *name* (%s): no address, no path" % show(I))
            else:
                ri.fail(key + "|path-on-name", where, "a property name has no address, yet path=%s is given" % show(pt))
        elif _paths_table_clean(ctx, frame):
            # the call's arguments reach it in a way this rule does not read (`descend(item, subschema, **where)`): the applicator table
            # -- every forwarded error's path and schema_path compared with the part and subschema that produced it -- decides
            ri.ok(where, "decided on the applicator table only (paths aspect): %s" % show(I))
        else:
            ri.fail(key + "|instance-prov|%s" % show(I), where, "cannot relate the descended instance %s to the function's instance" % show(I))
        # ---- schema side
        if S is None:
            rs.fail(key + "|no-schema", where, "descend called without a schema argument")
        elif S == ("param", vp):
            if st is None:
                rs.ok(where, "keyword value itself is the subschema, no schema_path")
            else:
                rs.fail(key + "|schema_path-on-value", where, "the keyword value itself is the subschema but schema_path=%s is given" % show(st))
        elif S[0] == "elem" and S[1] == ("param", vp):
            if st is None:
                rs.fail(key + "|missing-schema_path", where, "descends into subschema %s without schema_path=" % show(S))
            elif st == S[2]:
                rs.ok(where, "subschema %s, schema_path=%s" % (show(S), show(st)))
            else:
                rs.fail(key + "|schema_path-mismatch", where, "descends into subschema %s but records schema_path=%s" % (show(S), show(st)))
        elif S[0] == "elem" and S[1] == ("param", sp) and S[2][0] in ("const", "constlocal"):
            if st == S[2]:
                rs.ok(where, "sibling %s, schema_path=%s" % (show(S), show(st)))
            else:
                rs.fail(key + "|sibling-schema_path", where, "descends into sibling %s but records schema_path=%s" % (show(S), show(st) if st else None))
        elif S[0] in ("opaque", "unpack"):
            # e.g. the resolved target of a reference: no schema_path (a $ref hop is not recorded)
            if st is None:
                rs.ok(where, "subschema obtained elsewhere (%s): no schema_path" % show(S))
            else:
                rs.fail(key + "|schema_path-on-opaque", where, "schema_path=%s given for a subschema that is not part of this keyword's value" % show(st))
        elif _paths_table_clean(ctx, frame):
            rs.ok(where, "decided on the applicator table only (paths aspect): %s" % show(S))
        else:
            rs.fail(key + "|schema-prov|%s" % show(S), where, "cannot relate the subschema %s to the keyword value" % show(S))
    return ri, rs


def _paths_table_clean(ctx, f):
    """Does the applicator table (sa/rules/applic.py) cover the keyword function f, and do all its rows agree on paths?"""
    from .applic import evaluate_all, compare
    if "_applic_all" not in ctx.extra:
        ctx.extra["_applic_all"] = evaluate_all(ctx.prog)
    seen = False
    for rec in ctx.extra["_applic_all"]:
        if rec["func"].qual != f.qual:
            continue
        seen = True
        if rec["undecided"] is not None:
            return False
        for row, st, res in rec["results"]:
            if st == "raises" or compare("paths", res, row.expected):
                return False
    return seen


def rule_dispatcher_stamp(ctx, rid="R6.3"):
    prog = ctx.prog
    calls = calls_of(prog)
    disp = dispatcher(prog)
    cfg = cfg_of(disp)
    r = ctx.rule(rid, "the dispatcher stamps each error with the key and value of the same table entry, the instance and the schema in hand; "
                      "the keyword is prepended to schema_path except for if/$ref", floor=4)
    sem = c02._valsem(ctx, "dispatch_eval")
    if sem is not None:
        if sem["stamp"] is None and sem["all-errors"] is None:
            r.ok(site(disp) + " [fields]", "validator, validator_value, instance, schema are those of the dispatching entry")
            r.ok(site(disp) + " [innermost wins]", "fields the keyword function set itself are kept")
            r.ok(site(disp) + " [schema_path]", "the keyword is prepended, except for `if` and `$ref`")
            r.ok(site(disp) + " [arguments]", "keyword function called with (validator, value, instance, schema)")
        else:
            r.fail("%s|_set-args|semantic" % disp.qual, site(disp), sem["stamp"] or sem["all-errors"])
        return r
    loop, dnode, dcall = c02.keyword_loop(prog, disp)
    tgt = loop.ast.target
    if not (isinstance(tgt, ast.Tuple) and len(tgt.elts) == 2 and all(isinstance(e, ast.Name) for e in tgt.elts)):
        r.fail("%s|loop-target" % disp.qual, site(disp, loop.ast), "keyword loop target is not (key, value)")
        return r
    k, v = tgt.elts[0].id, tgt.elts[1].id
    ip = calls.param_with_role(disp, "instance")
    sp = calls.param_with_role(disp, "schema")
    # keyword function call arguments
    args = [norm(a) for a in dcall.args]
    if args == [disp.params[0], v, ip, sp]:
        r.ok(site(disp, dcall), "keyword function called with (self, value, instance, schema)")
    else:
        r.fail("%s|dispatch-args|%s" % (disp.qual, ",".join(args)), site(disp, dcall), "keyword function called with (%s)" % ", ".join(args))
    sets = [(n, c) for n in cfg.live for (c, tg) in calls_at(calls, disp, n) if any(t.kind == "func" and t.func is stamper(prog) for t in tg)]
    if len(sets) != 1:
        r.fail("%s|_set-calls:%d" % (disp.qual, len(sets)), site(disp), "expected one _set call in the dispatcher")
    else:
        n, c = sets[0]
        kw = {x.arg: norm(x.value) for x in c.keywords}
        want = {"validator": k, "validator_value": v, "instance": ip, "schema": sp}
        if kw == want and not c.args:
            r.ok(site(disp, c), "_set(validator=%s, validator_value=%s, instance=%s, schema=%s)" % (k, v, ip, sp))
        else:
            bad = {a: b for a, b in kw.items() if want.get(a) != b}
            r.fail("%s|_set-args|%s" % (disp.qual, sorted(bad.items())), site(disp, c), "error stamped with %s (expected %s)" % (kw, want))
    # appendleft(k) under k not in {"if", "$ref"}
    apps = [(n, c) for n in cfg.live for (c, _tg) in calls_at(calls, disp, n)
            if isinstance(c.func, ast.Attribute) and c.func.attr in ("appendleft", "append", "extendleft", "extend", "insert") and "schema_path" in norm(c.func.value)]
    if len(apps) == 1:
        n, c = apps[0]
        ok = c.func.attr == "appendleft" and [norm(a) for a in c.args] == [k]
        preds = n.pred
        guard = None
        for (l, p) in preds:
            if p.kind == "test" and isinstance(p.ast, ast.Compare) and isinstance(p.ast.ops[0], (ast.NotIn, ast.In)) and norm(p.ast.left) == k:
                coll = p.ast.comparators[0]
                vals = sorted(const_of(e) for e in coll.elts) if isinstance(coll, (ast.Set, ast.List, ast.Tuple)) else None
                guard = (vals, isinstance(p.ast.ops[0], ast.NotIn) == (l == "true"))
        if ok and guard == (["$ref", "if"], True):
            r.ok(site(disp, c), "schema_path.appendleft(<key>) unless key in {if, $ref}")
        else:
            r.fail("%s|schema_path-prepend" % disp.qual, site(disp, c), "keyword not prepended (appendleft) to schema_path exactly when it is neither `if` nor `$ref`: %s guard=%s" % (norm(c), guard))
    else:
        r.fail("%s|schema_path-writes:%d" % (disp.qual, len(apps)), site(disp), "expected one schema_path update in the dispatcher, found %d" % len(apps))
    # _Error._set only fills unset fields
    st = find_method(prog, "exceptions._Error", "_set")
    scfg = cfg_of(st)
    sets = [(n, c) for n in scfg.live for (c, _tg) in calls_at(calls, st, n) if norm(c.func) == "setattr" and len(c.args) == 3 and norm(c.args[0]) == st.params[0]]
    ok_set = bool(sets)
    for (n, c) in sets:
        key = norm(c.args[1])
        tests = []
        for t in scfg.live:
            if t.kind == "test" and isinstance(t.ast, ast.Compare) and len(t.ast.ops) == 1 and isinstance(t.ast.ops[0], (ast.Is, ast.IsNot)) \
                    and norm(t.ast.left) == "getattr(%s, %s)" % (st.params[0], key) and norm(t.ast.comparators[0]).endswith("_unset"):
                tests.append((t, "true" if isinstance(t.ast.ops[0], ast.Is) else "false"))
        if not tests or not c02.only_via_edge(scfg, n, tests, True):
            ok_set = False
    if ok_set:
        r.ok(site(st), "_set only fills fields that are still unset (innermost wins)")
    else:
        r.fail("%s|shape" % st.qual, site(st), "_set can overwrite a field that was already set (no `getattr(self, name) is _unset` guard on every path to setattr)")
    return r


def rule_descend_prepends(ctx, rid="R6.4"):
    prog = ctx.prog
    calls = calls_of(prog)
    desc = calls.V.methods["descend"]
    cfg = cfg_of(desc)
    r = ctx.rule(rid, "descend prepends path to error.path and schema_path to error.schema_path, each guarded by `is not None`", floor=2)
    sem = c02._valsem(ctx, "entry_points_eval")
    if sem is not None:
        if sem["descend"] is None:
            r.ok(site(desc) + " [path]", "path is prepended to error.path whenever it is not None (0 and \"\" included)")
            r.ok(site(desc) + " [schema_path]", "schema_path likewise; every error of iter_errors(instance, subschema) is forwarded")
        else:
            r.fail("%s|path-guard" % desc.qual, site(desc), sem["descend"])
        return r
    pp, psp = desc.params[3], desc.params[4]
    for param, field in ((pp, "path"), (psp, "schema_path")):
        apps = [(n, c) for n in cfg.live for (c, _tg) in calls_at(calls, desc, n)
                if isinstance(c.func, ast.Attribute) and isinstance(c.func.value, ast.Attribute) and c.func.value.attr == field
                and c.func.attr in ("appendleft", "append", "extend", "extendleft", "insert")]
        uses_elsewhere = [n for n in cfg.live for e in node_exprs(n) for x in walk_expr(e)
                          if isinstance(x, ast.Name) and x.id == param and n.kind != "test" and not any(n is a for (a, _c) in apps)]
        if len(apps) != 1:
            r.fail("%s|%s-updates:%d" % (desc.qual, field, len(apps)), site(desc), "expected exactly one update of error.%s, found %d" % (field, len(apps)))
            continue
        n, c = apps[0]
        ok = c.func.attr == "appendleft" and [norm(a) for a in c.args] == [param]
        guard_ok = all(p.kind == "test" and norm(p.ast) == "%s is not None" % param and l == "true" or
                       p.kind == "test" and norm(p.ast) == "%s is None" % param and l == "false" for (l, p) in n.pred) and bool(n.pred)
        if ok and guard_ok and not uses_elsewhere:
            r.ok(site(desc, c), "if %s is not None: error.%s.appendleft(%s)" % (param, field, param))
        elif not ok:
            r.fail("%s|%s-op|%s" % (desc.qual, field, norm(c)), site(desc, c), "error.%s is not extended on the left by the %s argument: %s" % (field, param, norm(c)))
        elif not guard_ok:
            r.fail("%s|%s-guard" % (desc.qual, field), site(desc, c), "the %s update is not guarded by `%s is not None` (index 0 and key \"\" must be kept)" % (field, param))
        else:
            r.fail("%s|%s-other-use" % (desc.qual, field), site(desc, uses_elsewhere[0].ast), "parameter %s also flows elsewhere: %s" % (param, uses_elsewhere[0].text))
    # every error of iter_errors is yielded
    loops = [n for n in cfg.live if n.kind == "for"]
    ys = [n for n in cfg.live if n.kind == "yield"]
    if len(loops) == 1 and len(ys) == 1 and loops[0] in ys[0].loops and norm(ys[0].ast.value.value) == norm(loops[0].ast.target):
        pass
    else:
        r.fail("%s|yield-shape" % desc.qual, site(desc), "descend does not yield each error of the nested iter_errors")
    return r


def rule_absolute_paths(ctx, rid="R6.5"):
    prog = ctx.prog
    E = prog.cls("exceptions._Error")
    r = ctx.rule(rid, "absolute paths are the parent's absolute path followed by the relative one; relative_* alias path/schema_path; context errors get their parent", floor=5)
    from .errsem import paths_eval
    sem = paths_eval(prog)
    if sem is not None:
        # decided on a three-level tree of the package's own error objects built inside the definitional interpreter
        init = E.methods["__init__"]
        for clause, where, key in (("absolute_path", E.methods.get("absolute_path"), "%s|shape"), ("absolute_schema_path", E.methods.get("absolute_schema_path"), "%s|shape"),
                                   ("alias", init, "%s|alias|path"), ("parent-links", init, "%s|parent-links"), ("raises", init, "%s|raises")):
            if clause not in sem:
                continue
            w = where if where is not None else init
            if sem[clause] is None:
                r.ok(site(w) + " [%s]" % clause, "holds on the evaluated error tree (root, two children, one grandchild)")
            else:
                r.fail(key % w.qual, site(w), sem[clause])
        if "raises" not in sem:
            r.ok(site(init) + " [context]", "the context list is stored as given")
        return r
    for name, rel in (("absolute_path", "relative_path"), ("absolute_schema_path", "relative_schema_path")):
        m = E.methods.get(name)
        if m is None:
            r.fail("exceptions._Error|missing|%s" % name, "exceptions.py", "%s vanished" % name)
            continue
        s = m.params[0]
        ok = False
        mcfg = cfg_of(m)
        # locals holding self.parent / deque(self.<rel>) / <parent>.<name>
        assigns = {}
        for n in walk_body(m):
            if isinstance(n, ast.Assign) and len(n.targets) == 1 and isinstance(n.targets[0], ast.Name):
                assigns.setdefault(n.targets[0].id, []).append(n.value)

        def resolve(e, depth=0):
            if isinstance(e, ast.Name) and len(assigns.get(e.id, [])) == 1 and depth < 3:
                return resolve(assigns[e.id][0], depth + 1)
            return e
        pvs = {k for k, v in assigns.items() if len(v) == 1 and norm(v[0]) == "%s.parent" % s} | set()
        qvs = {k for k, v in assigns.items() if len(v) == 1 and norm(v[0]) == "deque(%s.%s)" % (s, rel)}
        rets = [n for n in mcfg.live if n.kind == "return"]
        tests = [(t, "true" if isinstance(t.ast.ops[0], ast.Is) else "false") for t in mcfg.live
                 if t.kind == "test" and isinstance(t.ast, ast.Compare) and len(t.ast.ops) == 1 and isinstance(t.ast.ops[0], (ast.Is, ast.IsNot))
                 and (norm(t.ast.left) in pvs or norm(t.ast.left) == "%s.parent" % s) and isinstance(t.ast.comparators[0], ast.Constant)
                 and t.ast.comparators[0].value is None]
        ext = []
        for n in walk_body(m):
            if isinstance(n, ast.Call) and isinstance(n.func, ast.Attribute) and n.func.attr == "extendleft" and isinstance(n.func.value, ast.Name) \
                    and n.func.value.id in qvs and len(n.args) == 1 and isinstance(n.args[0], ast.Call) and norm(n.args[0].func) == "reversed":
                inner = resolve(n.args[0].args[0])
                if isinstance(inner, ast.Attribute) and inner.attr == name and (norm(inner.value) in pvs or norm(inner.value) == "%s.parent" % s):
                    ext.append(n.func.value.id)
        other_mut = [n for n in walk_body(m) if isinstance(n, ast.Call) and isinstance(n.func, ast.Attribute) and isinstance(n.func.value, ast.Name)
                     and n.func.value.id in qvs and n.func.attr in ("append", "extend", "appendleft", "pop", "popleft", "reverse", "rotate", "clear")]
        if tests and len(ext) == 1 and not other_mut and len(rets) == 2:
            good = 0
            for rn in rets:
                v = norm(rn.ast.value)
                if v == "%s.%s" % (s, rel) and c02.only_via_edge(mcfg, rn, tests, True):
                    good += 1
                elif v == ext[0] and c02.only_via_edge(mcfg, rn, tests, False):
                    good += 1
            ok = good == 2
        if ok:
            r.ok(site(m), "copy of %s extended on the left by the reversed parent %s" % (rel, name))
        else:
            r.fail("%s|shape" % m.qual, site(m), "%s is not deque(%s) with extendleft(reversed(parent.%s))" % (name, rel, name))
    init = E.methods["__init__"]
    s = init.params[0]
    src = [norm(n) for n in walk_body(init) if isinstance(n, ast.stmt)]
    for fld, rel in (("path", "relative_path"), ("schema_path", "relative_schema_path")):
        if "%s.%s = %s.%s = deque(%s)" % (s, fld, s, rel, fld) in src or "%s.%s = %s.%s = deque(%s)" % (s, rel, s, fld, fld) in src:
            r.ok(site(init) + " [%s]" % fld, "%s and %s are the same deque built from the argument" % (fld, rel))
        else:
            r.fail("%s|alias|%s" % (init.qual, fld), site(init), "%s and %s are not one deque built from the %s argument" % (fld, rel, fld))
    ok = any(isinstance(n, ast.For) and norm(n.iter) == "context" and any(norm(b) == "%s.parent = %s" % (norm(n.target), s) for b in n.body) for n in init.body)
    if ok:
        r.ok(site(init) + " [parent]", "every context error gets parent = self")
    else:
        r.fail("%s|parent-links" % init.qual, site(init), "context errors do not get their parent link")
    return r


def _forwards_context(calls, g, depth=0):
    """g hands a `context=` keyword it receives on to an error constructor: through **kwargs, or through a parameter of that name"""
    kwarg = g.node.args.kwarg.arg if getattr(g.node, "args", None) is not None and g.node.args.kwarg else None
    if kwarg is None and "context" not in g.all_params:
        return False
    for n in walk_body(g):
        if not isinstance(n, ast.Call):
            continue
        passes = any((k.arg is None and isinstance(k.value, ast.Name) and k.value.id == kwarg) or
                     (k.arg == "context" and isinstance(k.value, ast.Name) and k.value.id == "context" and "context" in g.all_params) for k in n.keywords)
        if not passes:
            continue
        tg = calls.callee(g, n)
        if any(t.kind == "class" and t.typ in ("ValidationError", "SchemaError", "Error") for t in tg):
            return True
        if depth < 2 and any(t.kind == "func" and t.func is not None and t.func is not g and _forwards_context(calls, t.func, depth + 1) for t in tg):
            return True
    return False


def rule_context_is_list(ctx, rid="R6.5c"):
    """_Error.__init__ walks its `context` argument twice (it stores list(context), then sets each child's parent), so a
    one-shot iterator would leave every child without its parent link and hence without absolute paths."""
    prog = ctx.prog
    calls = calls_of(prog)
    r = ctx.rule(rid, "every error constructed with context= is given a realised list, so that each context error gets its parent link", floor=3)
    for f in sorted(prog.funcs.values(), key=lambda x: x.qual):
        if f.mod.name in ("cli",):
            continue
        cfg = None
        for n in walk_body(f):
            if not isinstance(n, ast.Call):
                continue
            kw = next((k.value for k in n.keywords if k.arg == "context"), None)
            if kw is None:
                continue
            tg = calls.callee(f, n)
            if not any(t.kind == "class" and t.typ in ("ValidationError", "SchemaError", "Error") for t in tg) and \
                    not any(t.kind == "func" and t.func is not None and _forwards_context(calls, t.func) for t in tg):
                continue

            def listy(e, depth=0, fn=None):
                fn = fn or f
                if isinstance(e, (ast.List, ast.ListComp)):
                    return True
                if isinstance(e, ast.Call) and norm(e.func) in ("list", "sorted"):
                    return True
                if isinstance(e, ast.Name) and depth < 4:
                    defs = [x.value for x in walk_body(fn) if isinstance(x, ast.Assign) and any(isinstance(t, ast.Name) and t.id == e.id for t in x.targets)]
                    if defs:
                        return all(listy(d, depth + 1, fn) for d in defs)
                    # one of several names bound from the tuple a package helper returns: `found, sub, errs = _first_valid(...)`
                    for x in walk_body(fn):
                        if isinstance(x, ast.Assign) and len(x.targets) == 1 and isinstance(x.targets[0], ast.Tuple) and isinstance(x.value, ast.Call):
                            names = [t.id if isinstance(t, ast.Name) else None for t in x.targets[0].elts]
                            if e.id in names:
                                pos = names.index(e.id)
                                tg = [t for t in calls.callee(fn, x.value) if t.kind == "func" and t.func is not None]
                                if len(tg) == 1:
                                    g = tg[0].func
                                    rets = [r_ for r_ in walk_body(g) if isinstance(r_, ast.Return)]
                                    return bool(rets) and all(isinstance(r_.value, ast.Tuple) and len(r_.value.elts) == len(names)
                                                              and listy(r_.value.elts[pos], depth + 1, g) for r_ in rets)
                    return False
                return False
            if listy(kw):
                r.ok(site(f, n), "context=%s is a list" % norm(kw)[:40])
            else:
                r.fail("%s|context-not-a-list|%s" % (f.qual, norm(kw)[:40]), site(f, n),
                       "context=%s is not a realised list: the error constructor iterates it twice, so a one-shot iterator leaves the context "
                       "errors without their parent link (absolute paths and json_path then stay relative)" % norm(kw)[:60])
    # and what the context lists collect are errors, not lists of errors
    for f in sorted(prog.tables.keyword_funcs(), key=lambda x: x.qual):
        ctxnames = set()
        for n in walk_body(f):
            if isinstance(n, ast.Call):
                kw = next((k.value for k in n.keywords if k.arg == "context"), None)
                if isinstance(kw, ast.Name):
                    ctxnames.add(kw.id)
        for n in walk_body(f):
            if isinstance(n, ast.Call) and isinstance(n.func, ast.Attribute) and isinstance(n.func.value, ast.Name) and n.func.value.id in ctxnames \
                    and n.func.attr == "append" and n.args:
                a = n.args[0]
                is_listvar = isinstance(a, ast.Name) and any(isinstance(x, ast.Assign) and any(isinstance(t, ast.Name) and t.id == a.id for t in x.targets)
                                                             and isinstance(x.value, ast.Call) and norm(x.value.func) == "list" for x in walk_body(f))
                if is_listvar:
                    r.fail("%s|context-of-lists|%s" % (f.qual, norm(n)[:40]), site(f, n), "%s appends a *list* of errors to the context (extend was meant): context entries are not errors" % norm(n)[:50])
    return r


def rule_handmade_errors(ctx, rid="R6.6"):
    prog = ctx.prog
    calls = calls_of(prog)
    eff = effects_of(prog)
    V = calls.V
    r = ctx.rule(rid, "only the dispatcher, descend and the documented Draft 3 `required` site write an error's location fields", floor=3)
    allowed = {V.methods["iter_errors"].qual: "dispatcher", V.methods["descend"].qual: "descend",
               "_legacy_validators.properties_draft3": "documented exception: Draft 3 required",
               prog.cls("exceptions._Error").qual + ".__init__": "constructor"}
    if stamper(prog) is not None:
        allowed[stamper(prog).qual] = "_set itself"
    seen_d3 = 0
    for f in sorted(prog.funcs.values(), key=lambda x: x.qual):
        if f.mod.name in ("cli",):
            continue
        hits = []
        for w in eff.direct_writes(f):
            for t in w.locs:
                if t[0] == "FLD" and t[1] in ("Error", "ValidationError", "SchemaError") and t[2] in (
                        "path", "schema_path", "relative_path", "relative_schema_path", "validator", "validator_value", "instance", "schema", "*"):
                    hits.append(w)
        for (_n, c, tg) in calls.calls_in(f):
            if any(t.kind == "func" and t.func is stamper(prog) for t in tg):
                hits.append(c)
        if not hits:
            continue
        def only_called_from_allowed(g, depth=0):
            """a private helper all of whose call sites are in an allowed function does that function's work"""
            callers = [c for c in prog.funcs.values() if c is not g and g in calls.successors(c)]
            return bool(callers) and depth < 3 and all(c.qual in allowed or only_called_from_allowed(c, depth + 1) for c in callers)
        if f.qual in allowed:
            r.ok(site(f), "%s (%d writes)" % (allowed[f.qual], len(hits)))
            if f.qual == "_legacy_validators.properties_draft3":
                seen_d3 += 1
        elif f.cls is None and only_called_from_allowed(f):
            r.ok(site(f), "helper called only from an allowed site (%d writes)" % len(hits))
        else:
            h = hits[0]
            r.fail("%s|writes-error-location" % f.qual, site(f, getattr(h, "node", h)), "%s writes an error's location/keyword fields by hand" % f.qual)
    return r


def _kind_test(e, name, kind):
    """Three-valued truth of test expression e when local `name` holds a value of Python type `kind` ('int' | 'str')."""
    if isinstance(e, ast.UnaryOp) and isinstance(e.op, ast.Not):
        v = _kind_test(e.operand, name, kind)
        return None if v is None else not v
    if isinstance(e, ast.BoolOp):
        vs = [_kind_test(x, name, kind) for x in e.values]
        if isinstance(e.op, ast.And):
            return False if any(v is False for v in vs) else (True if all(v is True for v in vs) else None)
        return True if any(v is True for v in vs) else (False if all(v is False for v in vs) else None)
    if isinstance(e, ast.Call) and isinstance(e.func, ast.Name) and e.func.id == "isinstance" and len(e.args) == 2 \
            and isinstance(e.args[0], ast.Name) and e.args[0].id == name:
        t = e.args[1]
        names = [x.id for x in (t.elts if isinstance(t, ast.Tuple) else [t]) if isinstance(x, ast.Name)]
        if len(names) != len(t.elts if isinstance(t, ast.Tuple) else [t]):
            return None
        sub = {"int": {"int", "object"}, "str": {"str", "object"}}[kind]
        if any(x in sub for x in names):
            return True
        if all(x in ("int", "str", "float", "bool", "bytes", "list", "dict", "tuple") for x in names):
            return False
        return None
    if isinstance(e, ast.Compare) and len(e.ops) == 1 and isinstance(e.ops[0], (ast.Is, ast.IsNot, ast.Eq, ast.NotEq)):
        l, r = e.left, e.comparators[0]
        for a, b in ((l, r), (r, l)):
            if isinstance(a, ast.Call) and isinstance(a.func, ast.Name) and a.func.id == "type" and len(a.args) == 1 \
                    and isinstance(a.args[0], ast.Name) and a.args[0].id == name and isinstance(b, ast.Name) and b.id in ("int", "str", "float", "bool"):
                v = b.id == kind
                return v if isinstance(e.ops[0], (ast.Is, ast.Eq)) else not v
    return None


def rule_json_path(ctx, rid="R6.7"):
    """json_path must render an array index and a property name differently (0 and "0" are different addresses): under a
    three-valued evaluation of the tests in the rendering loop, no rendering statement may be reachable both for an
    integer and for a string element."""
    prog = ctx.prog
    r = ctx.rule(rid, "json_path walks absolute_path and never renders a property name by the statement that renders an array index", floor=1)
    m = find_method(prog, "exceptions._Error", "json_path")
    from .errsem import json_path_eval
    sem = json_path_eval(prog)
    if sem is not None:
        if sem["json_path"] is None:
            r.ok(site(m), "renders the absolute path: indices in brackets, names dotted, also for digit-only names (evaluated on nested errors)")
        else:
            kind = "source" if "expected '$.a[0]" in sem["json_path"] else "index-and-name-share-rendering"
            r.fail("%s|%s" % (m.qual, kind), site(m), sem["json_path"])
        return r
    cfg = cfg_of(m)
    s = m.params[0]
    loops = [n for n in cfg.live if n.kind == "for"]
    if len(loops) != 1 or not isinstance(loops[0].ast.target, ast.Name):
        r.ok(site(m), "not a single for-loop over path elements: rendering not decided")
        r.note(site(m), "json_path is not one loop over the path elements; the int/str rendering clause is not decided")
        return r
    loop = loops[0]
    it = loop.ast.iter
    src = norm(it)
    local = {}
    for n in walk_body(m):
        if isinstance(n, ast.Assign) and len(n.targets) == 1 and isinstance(n.targets[0], ast.Name):
            local.setdefault(n.targets[0].id, []).append(norm(n.value))
    if isinstance(it, ast.Name) and len(local.get(it.id, [])) == 1:
        src = local[it.id][0]
    if "%s.absolute_path" % s not in src:
        r.fail("%s|source|%s" % (m.qual, src[:40]), site(m, loop.ast), "json_path renders %s, not the absolute instance path" % src[:60])
        return r
    elem = loop.ast.target.id
    reach = {}
    for kind in ("int", "str"):
        seen, todo, hit = set(), [y for (l, y) in loop.succ if l == "iter"], set()
        while todo:
            x = todo.pop()
            if x.id in seen or x is loop:
                continue
            seen.add(x.id)
            if x.kind in ("stmt", "yield") and any(isinstance(z, ast.Name) and z.id == elem for e in node_exprs(x) for z in walk_expr(e)):
                hit.add(x.id)
            v = _kind_test(x.ast, elem, kind) if x.kind == "test" else None
            for (l, y) in x.succ:
                if l in ("exc", "close"):
                    continue
                if x.kind == "test" and v is not None and l in ("true", "false") and (l == "true") != v:
                    continue
                todo.append(y)
        reach[kind] = hit
    both = reach["int"] & reach["str"]
    if not reach["int"] or not reach["str"]:
        r.fail("%s|no-rendering" % m.qual, site(m, loop.ast), "some path element kind is not rendered at all (int: %d statements, str: %d)" % (len(reach["int"]), len(reach["str"])))
    elif both:
        n = next(x for x in cfg.live if x.id in both)
        r.fail("%s|index-and-name-share-rendering" % m.qual, site(m, n.ast),
               "`%s` may render both an array index and a property name (e.g. 0 and \"0\"): json_path no longer tells the two addresses apart" % n.text[:60])
    else:
        r.ok(site(m, loop.ast), "int elements -> %d statement(s), str elements -> %d other statement(s)" % (len(reach["int"]), len(reach["str"])))
    return r


def rule_strong_links(ctx, rid="R6.5w"):
    """Absolute paths are computed *through* the parent link at the time they are read -- after validation, when the caller may
    hold nothing but the context error (best_match returns one; so does `[c for e in errors for c in e.context]`).  The link
    must therefore keep the parent alive: a weak reference turns absolute_path into the relative one once the parent is gone."""
    prog = ctx.prog
    r = ctx.rule(rid, "an error's parent and context links are ordinary (strong) references", floor=1)
    m = prog.mod("exceptions")
    E = prog.cls("exceptions._Error")
    weak = [n for n in ast.walk(m.tree) if isinstance(n, ast.Call) and ("weakref" in norm(n.func) or norm(n.func).split(".")[-1] in ("ref", "proxy", "WeakValueDictionary", "WeakSet", "finalize")
                                                                     and "weakref" in " ".join(norm(i) for i in ast.walk(m.tree) if isinstance(i, (ast.Import, ast.ImportFrom))))]
    props = [name for name, f in E.methods.items() if name in ("parent", "context") and any(norm(d) == "property" or norm(d).endswith(".setter") for d in f.decorators)]
    if weak:
        r.fail("exceptions|weak-link|%s" % norm(weak[0])[:40], "jsonschema/exceptions.py:%d" % weak[0].lineno,
               "`%s`: errors are linked through a weak reference; once the parent error is collected its context errors report relative paths as absolute" % norm(weak[0])[:50])
    elif props:
        r.fail("exceptions._Error|computed-link|%s" % props[0], site(E.methods[props[0]]),
               "_Error.%s is a computed property, not the stored reference the constructor sets: the link between an error and its parent is no longer a plain attribute" % props[0])
    else:
        r.ok("jsonschema/exceptions.py _Error", "parent/context are plain attributes; the module uses no weak references")
    return r


def run(ctx):
    ctx.explanation = (
        "C06 is checked where the bookkeeping is done: at each descend call site symbolic provenance terms (index/key of "
        "the loop that selected the part) are computed for the instance, subschema, path= and schema_path= arguments and "
        "compared (R6.1, R6.2); the dispatcher's stamping (R6.3), descend's prepending (R6.4), absolute = parent ++ relative "
        "(R6.5) and the who-may-write rule for hand-made errors (R6.6). R6.7: json_path walks absolute_path and keeps index and name renderings apart. Not decided: navigation on concrete data.")
    ctx.assume("collections.deque.appendleft/extendleft semantics")
    rule_descend_paths(ctx)
    rule_dispatcher_stamp(ctx)
    rule_descend_prepends(ctx)
    rule_absolute_paths(ctx)
    rule_context_is_list(ctx)
    rule_handmade_errors(ctx)
    rule_json_path(ctx)
    rule_strong_links(ctx)
    # R14.*: "stepping through every $ref met on the way to the schema it designates": the designated schema is the one RFC 6901
    # names, which is what the recorded subschema and keyword value are compared with
    from . import c14
    c14.run_rules(ctx)
    # R6.9: on every row of the applicator tables the path/schema_path on each forwarded error (also inside context) are the
    # index/key of the part and of the subschema that produced it (the semantic twin of the provenance rules R6.1/R6.2)
    from .applic import rule_applicators
    rule_applicators(ctx, "R6.9", "paths")
    # R6.10: "following the absolute schema path from the root schema": a same-document reference designates the schema in
    # hand, i.e. the referrer is filed last under its base URI, over anything a caller's store holds for that URI
    from .c15 import rule_seeding
    rule_seeding(ctx, "R6.10")
    # R6.11: an error's `schema` / `validator_value` are what its schema path designates only if every reference on the way was
    # resolved against the right scope: no sub-validation runs while a half-consumed error iterator keeps foreign scopes entered
    from . import scope
    scope.rule_no_parked_iterators(ctx, "R6.11")
    # R6.12: an error's paths are read again after it has been handed out (absolute_path, json_path, a second tree): whatever
    # consumes errors -- ErrorTree in particular -- leaves their path deques as they are
    rule_errors_untouched(ctx)
    # R6.13/R6.14: the schema recorded with an error is the one its schema path designates only if references were resolved in the
    # right scope: nothing keeps an abandoned error iterator (and the scopes it entered) alive, and no memo answers a reference
    # without looking at the scope it is resolved in
    from .c07 import rule_no_held_iterator
    rule_no_held_iterator(ctx, "R6.13")
    scope.rule_memo_scope_free(ctx, "R6.14")
    # R6.15: an error is stamped with the keyword / element of the round of the loop that produced it (no lazy reader of loop variables put aside)
    scope.rule_no_deferred_loop_closure(ctx, "R6.15")
    # R6.16: the schema path of an error hops through `$ref` to what the reference designates: whatever the reference string is (the empty
    # one too), its siblings stay inert, so no error is recorded under a keyword the path does not reach (C06-r6m1)
    from .c02 import rule_short_circuit, rule_ref_opaque
    rule_short_circuit(ctx, "R6.16")
    rule_ref_opaque(ctx, "R6.16b")
    scope.rule_scope_in_force(ctx, "R6.17")
    # R6.18/R6.19: the schema an error records is the one its schema path reaches only if references are followed from the scope of the
    # schema they stand in: the root schema's id is entered too, and nothing lazy leaves `ref` to run outside the scope it entered (C06-r7m1, -m2)
    scope.rule_scope_entered(ctx, "R6.18")
    scope.rule_lazy_inside_scope(ctx, "R6.19")


def rule_errors_untouched(ctx, rid="R6.12"):
    from .errsem import tree_eval
    prog = ctx.prog
    init = find_method(prog, "exceptions.ErrorTree", "__init__")
    r = ctx.rule(rid, "building an ErrorTree leaves every error's path / relative_path / absolute_path as it was", floor=1)
    try:
        sem = tree_eval(prog)
    except RecursionError:
        sem = None
    if sem is None:
        r.ok(site(init), "NOT DECIDED: outside the evaluated fragment (R6.6 names who may write an error's location)")
        r.note(site(init), "%s not decided" % rid)
    elif sem.get("errors-untouched", sem.get("raises")) is None:
        r.ok(site(init), "after several trees were built from them, six errors still report the paths they were made with")
    else:
        r.fail("%s|touches-errors" % init.qual, site(init), sem.get("errors-untouched") or sem.get("raises"))
    return r
