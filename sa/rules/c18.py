"""C18 - validators that share no resolver are independent (claimed)."""
import ast

from ..prog import norm, walk_body, walk_local, AnalysisError, Func, Cls
from ..cfg import cfg_of
from ..calls import calls_of
from ..effects import effects_of
from ..common import find_method
from ..report import site

MUTABLE_CALLS = {"dict", "list", "set", "defaultdict", "OrderedDict", "deque", "Counter", "bytearray", "WeakValueDictionary",
                 "WeakKeyDictionary", "URIDict", "FormatChecker", "ArgumentParser", "Lock", "RLock", "local"}


def mutable_kind(v):
    if isinstance(v, (ast.Dict, ast.List, ast.Set, ast.ListComp, ast.DictComp, ast.SetComp)):
        return "literal"
    if isinstance(v, ast.Call):
        fn = norm(v.func).split(".")[-1]
        if fn in MUTABLE_CALLS:
            return fn
        if fn in ("lru_cache", "cache") or (isinstance(v.func, ast.Call) and norm(v.func.func).split(".")[-1] in ("lru_cache", "cache")):
            return "memo"
    return None


def inventory(prog):
    inv = []
    for m in prog.mods.values():
        if m.name in ("__main__", "_reflect"):
            continue
        for name, binds in m.bindings.items():
            for v, st in binds:
                if isinstance(v, (Func, Cls)):
                    continue
                k = mutable_kind(v)
                if k:
                    inv.append(("module", m.name, name, k, getattr(st, "lineno", 0)))
        for c in m.classes:
            for name, v in c.attrs.items():
                k = mutable_kind(v)
                if k:
                    inv.append(("class", c.qual, name, k, getattr(v, "lineno", 0)))
    for f in prog.funcs.values():
        if f.mod.name in ("__main__", "_reflect"):
            continue
        a = f.node.args
        names = [x.arg for x in a.posonlyargs + a.args]
        defaults = [None] * (len(names) - len(a.defaults)) + list(a.defaults)
        for n, d in list(zip(names, defaults)) + [(k.arg, v) for k, v in zip(a.kwonlyargs, a.kw_defaults)]:
            if d is not None and (mutable_kind(d) or (isinstance(d, ast.Call) and not (isinstance(d.func, ast.Name) and d.func.id in ("frozenset", "tuple")))):
                inv.append(("default", f.qual, n, norm(d)[:30], f.node.lineno))
    return inv


KNOWN_INVENTORY = {
    ("module", "validators", "validators"), ("module", "validators", "meta_schemas"),
    ("module", "validators", "_DEPRECATED_DEFAULT_TYPES"),
    ("class", "_format.FormatChecker", "checkers"),
    ("module", "_format", "_draft_checkers"),
    ("module", "_format", "draft3_format_checker"), ("module", "_format", "draft4_format_checker"),
    ("module", "_format", "draft6_format_checker"), ("module", "_format", "draft7_format_checker"),
    ("module", "cli", "parser"),
    ("default", "_utils.unbool", "true"), ("default", "_utils.unbool", "false"),
    ("default", "_format.is_uri_template", "template_validator"),
    ("class", "validators.create.Validator", "VALIDATORS"), ("class", "validators.create.Validator", "META_SCHEMA"),
    ("class", "validators.create.Validator", "_DEFAULT_TYPES"),
}


def rule_inventory(ctx, rid="R18.1"):
    prog = ctx.prog
    r = ctx.rule(rid, "inventory of module-level, class-level and default-argument mutable objects (reference list confirmed by reading)", floor=12)
    inv = inventory(prog)
    for kind, owner, name, k, line in inv:
        key = (kind, owner, name)
        where = "jsonschema/%s.py:%d %s.%s" % (owner.split(".")[0], line, owner, name)
        if key in KNOWN_INVENTORY:
            r.ok(where, "%s %s (known; written only at import/registration time, see R18.2)" % (kind, k))
        else:
            r.note(where, "new shared mutable object (%s %s): not in the confirmed inventory; R18.2/R18.3 decide whether validation writes it" % (kind, k))
            r.ok(where, "NEW %s %s" % (kind, k))
    ctx.extra["shared_mutable_inventory"] = ["%s %s.%s (%s)" % (a, b, c, d) for (a, b, c, d, _l) in inv]
    return r


def rule_no_shared_writes(ctx, rid="R18.2"):
    prog = ctx.prog
    calls = calls_of(prog)
    eff = effects_of(prog)
    reach = calls.reachable(calls.validation_roots())
    # constructing a validator/resolver is part of using one
    V = calls.V
    reach |= calls.reachable([V.methods["__init__"], find_method(prog, "validators.RefResolver", "__init__"),
                              find_method(prog, "validators.RefResolver", "from_schema")])
    r = ctx.rule(rid, "no function reachable from a validation entry point writes module-level, class-level or default-argument state", floor=60)
    per_object = {("RefResolver", "_scopes_stack"), ("RefResolver", "store"), ("URIDict", "store")}
    for f in sorted(reach, key=lambda x: x.qual):
        bad = []
        for w, t in eff.nonlocal_writes(f):
            if t[0] == "FLD":
                typ, attr = t[1], t[2]
                if typ in ("Error", "ValidationError", "SchemaError") or (typ, attr) in per_object:
                    continue
                if f.name == "__init__" and len(t) == 4:
                    continue    # constructor binding its own fields
                bad.append((w, t, "field of a possibly shared %s object" % typ))
            elif t[0] == "SA":
                if f.name == "__init__":
                    continue
                bad.append((w, t, "attribute of self"))
            elif t[0] == "P":
                continue        # mutation of inputs is C07's business (R7.1)
            elif t[0] in ("G", "C", "D", "M", "CLS"):
                bad.append((w, t, {"G": "module-level object", "C": "class attribute", "D": "default-argument object", "M": "module", "CLS": "class object"}[t[0]]))
            elif t[0] == "X":
                bad.append((w, t, "object of unknown origin"))
            elif t[0] == "T":
                continue
        if not bad:
            r.ok(site(f), "no shared-state write")
        for w, t, what in bad:
            r.fail("%s|shared-write|%s" % (f.qual, w.text), site(f, w.node),
                   "validation-reachable write to a %s: %s (%s) -- validators that share no resolver would still influence each other" % (what, w.text, t))
    ctx.extra["validation_reachable_functions"] = len(reach)
    return r


def rule_no_memo(ctx, rid="R18.3"):
    prog = ctx.prog
    calls = calls_of(prog)
    reach = calls.reachable(calls.validation_roots())
    r = ctx.rule(rid, "no memoisation is attached at module or class level to validation-reachable code; lru_cache is only created inside RefResolver.__init__", floor=2)
    for f in sorted(prog.funcs.values(), key=lambda x: x.qual):
        for d in f.decorators:
            nm = norm(d.func if isinstance(d, ast.Call) else d).split(".")[-1]
            if nm in ("lru_cache", "cache", "cached_property", "memoize"):
                if f in reach:
                    r.fail("%s|memo-decorator|%s" % (f.qual, nm), site(f), "@%s on validation-reachable %s: one cache shared by every validator/resolver" % (nm, f.qual))
                else:
                    r.note(site(f), "@%s on a function that is not validation-reachable" % nm)
    rinit = find_method(prog, "validators.RefResolver", "__init__")
    # a step of the constructor split out as a private helper (`_memoized(function)`) whose every call site is in the constructor
    per_instance = calls.with_private_helpers({rinit})
    for m in prog.mods.values():
        for n in ast.walk(m.tree):
            if isinstance(n, ast.Call) and norm(n.func).split(".")[-1] in ("lru_cache", "cache") and not isinstance(n.func, ast.Call):
                # where is it?
                owner = None
                for f in prog.funcs.values():
                    if f.mod is m and any(x is n for x in walk_body(f)):
                        owner = f
                where = "jsonschema/%s.py:%d" % (m.name, n.lineno)
                if owner is rinit:
                    r.ok(where + " " + owner.qual, "lru_cache created per resolver instance")
                elif owner is not None and owner in per_instance:
                    k = sum(1 for c in walk_body(rinit) if isinstance(c, ast.Call) and any(t.kind == "func" and t.func is owner for t in calls.callee(rinit, c)))
                    for _i in range(max(k, 1)):
                        r.ok(where + " " + owner.qual, "lru_cache created in a private helper called only by the resolver's constructor: per resolver instance")
                elif owner is None:
                    # decorator or module level
                    is_deco = any(isinstance(fn, (ast.FunctionDef,)) and any(n is d or n in ast.walk(d) for d in fn.decorator_list) for fn in ast.walk(m.tree))
                    if not is_deco:
                        r.fail("%s|module-level-cache|%d" % (m.name, 0), where, "a cache is created at module/class level: shared by all validators")
                else:
                    if owner in reach:
                        r.fail("%s|cache-created|%s" % (owner.qual, norm(n)[:40]), where, "cache created in validation-reachable %s" % owner.qual)
    return r


def rule_per_validator_resolver(ctx, rid="R18.4"):
    prog = ctx.prog
    calls = calls_of(prog)
    V = calls.V
    init = V.methods["__init__"]
    cfg = cfg_of(init)
    r = ctx.rule(rid, "a validator without an explicit resolver builds its own from its own schema; all resolver state is created per instance", floor=8)
    s, sp = init.params[0], init.params[1]
    from .c02 import _valsem
    csem = _valsem(ctx, "classes_eval")
    ok = False
    for n in walk_body(init):
        if isinstance(n, ast.If) and norm(n.test) == "resolver is None":
            for b in n.body:
                if isinstance(b, ast.Assign) and norm(b.targets[0]) == "resolver" and isinstance(b.value, ast.Call):
                    tg = calls.callee(init, b.value)
                    if any((t.kind == "func" and t.func.name == "from_schema") or (t.kind == "class" and t.typ == "RefResolver") for t in tg) \
                            and b.value.args and norm(b.value.args[0]) == sp:
                        ok = True
    stored = any(isinstance(n, ast.Assign) and norm(n.targets[0]) == "%s.resolver" % s and norm(n.value) == "resolver" for n in walk_body(init))
    if csem is not None:
        ok = stored = csem["own-resolver"] is None
    if ok and stored:
        r.ok(site(init), "resolver is None -> RefResolver.from_schema(<own schema>) stored on self")
    else:
        r.fail("%s|own-resolver" % init.qual, site(init), (csem or {}).get("own-resolver") or
               "a validator without explicit resolver does not build a fresh one from its own schema (fresh=%s, stored=%s)" % (ok, stored))
    rinit = find_method(prog, "validators.RefResolver", "__init__")
    rs = rinit.params[0]
    from .c15 import _init_sem
    sem = _init_sem(ctx)
    if sem and "raises" not in sem:
        for attr in ("_scopes_stack", "store", "handlers", "_urljoin_cache", "_remote_cache", "referrer", "cache_remote"):
            msg = sem["caches"] if "cache" in attr and attr != "cache_remote" else sem["state"]
            if msg is None:
                r.ok(site(rinit) + " [self.%s]" % attr, "its own object per resolver (two resolvers constructed and compared)")
            else:
                r.fail("%s|state|%s|semantic" % (rinit.qual, attr), site(rinit), msg)
        a = rinit.node.args
        for d in a.defaults:
            if not (isinstance(d, ast.Constant) or (isinstance(d, ast.Tuple) and not d.elts)):
                r.fail("%s|mutable-default|%s" % (rinit.qual, norm(d)), site(rinit), "RefResolver.__init__ has a mutable default argument %s" % norm(d))
        return r
    want = {
        "_scopes_stack": lambda v: isinstance(v, ast.List),
        "store": lambda v: isinstance(v, ast.Call) and norm(v.func).endswith("URIDict"),
        "handlers": lambda v: isinstance(v, ast.Call) and norm(v.func) == "dict",
        "_urljoin_cache": lambda v: isinstance(v, ast.Name),
        "_remote_cache": lambda v: isinstance(v, ast.Name),
        "referrer": lambda v: isinstance(v, ast.Name),
        "cache_remote": lambda v: isinstance(v, ast.Name),
    }
    got = {}
    for n in walk_body(rinit):
        if isinstance(n, ast.Assign):
            for t in n.targets:
                if isinstance(t, ast.Attribute) and norm(t.value) == rs:
                    got[t.attr] = n.value
    for attr, pred in want.items():
        v = got.get(attr)
        if v is not None and pred(v):
            r.ok(site(rinit) + " [self.%s]" % attr, "= %s" % norm(v)[:50])
        else:
            r.fail("%s|state|%s|%s" % (rinit.qual, attr, norm(v)[:40]), site(rinit),
                   "resolver state %s is not created per instance from a fresh container (%s)" % (attr, norm(v)[:60]))
    # defaults immutable
    a = rinit.node.args
    for d in a.defaults:
        if not (isinstance(d, ast.Constant) or (isinstance(d, ast.Tuple) and not d.elts)):
            r.fail("%s|mutable-default|%s" % (rinit.qual, norm(d)), site(rinit), "RefResolver.__init__ has a mutable default argument %s" % norm(d))
    return r


def rule_registry_read_only(ctx, rid="R18.5"):
    prog = ctx.prog
    calls = calls_of(prog)
    reach = calls.reachable(calls.validation_roots())
    V = calls.V
    reach |= calls.reachable([V.methods["__init__"], find_method(prog, "validators.RefResolver", "__init__")])
    r = ctx.rule(rid, "the only registry read on the validation path is the resolver constructor copying entries into its own store", floor=1)
    ctor = find_method(prog, "validators.RefResolver", "__init__")
    ctor_steps = calls.with_private_helpers({ctor})
    for f in sorted(reach, key=lambda x: x.qual):
        for n in walk_body(f):
            if isinstance(n, ast.Name) and n.id in ("meta_schemas", "validators") and isinstance(n.ctx, ast.Load):
                res = prog.resolve_name(f.mod, n.id, f)
                if isinstance(res, tuple) and res[0] == "expr" and res[1].name == "validators" and n.id not in f.all_params and not any(
                        n.id in o.all_params for o in calls._outers(f)):
                    if f in ctor_steps:
                        r.ok(site(f, n), "copies registry entries into the per-resolver store%s" % (
                            "" if f is ctor else " (a private step of the resolver constructor: called from nowhere else)"))
                    else:
                        r.fail("%s|registry-read|%s" % (f.qual, n.id), site(f, n), "validation-reachable code consults the global registry %s" % n.id)
    return r


def run(ctx):
    ctx.explanation = (
        "C18: independence is a statement about shared mutable state. R18.1 inventories every module-level, class-level and "
        "default-argument mutable object; R18.2 shows by effect analysis over the call graph that no function reachable from "
        "a validation entry point (or from constructing a validator/resolver) writes any of them; R18.3 no memoisation at "
        "module/class level; R18.4 resolver state is created per instance and a validator without resolver builds its own; "
        "R18.5 registries are only read by the resolver constructor.")
    ctx.assume("the re module's compile cache and functools.lru_cache internals are thread-safe memoisations keyed by their full input")
    rule_inventory(ctx)
    rule_no_shared_writes(ctx)
    rule_no_memo(ctx)
    rule_per_validator_resolver(ctx)
    rule_registry_read_only(ctx)
    # R18.6: the public helpers around a validator (validate(), validator_for, best_match, ...) write no module-level state either:
    # a registry entry added while serving one caller changes which class the next caller's schema selects
    from .c16 import rule_api_writes_no_shared_state
    rule_api_writes_no_shared_state(ctx, "R18.6")
    # R18.7: "the same base URI and identical reference strings that designate different definitions": each resolver files its own
    # document last, over the registry and over a caller-supplied store, so a reference into its base URI reaches its own document
    from .c15 import rule_seeding
    rule_seeding(ctx, "R18.7")
    # R18.8: check_schema (run by jsonschema.validate on every call) builds its metaschema validator afresh each time: a validator
    # kept on the class would be one hidden resolver shared by every caller of that class
    from .c11 import rule_wiring
    rule_wiring(ctx, "R18.8")
    # R18.9: a FormatChecker object owns its table from construction on, whatever class it is an instance of
    from .c16 import rule_formatchecker_owns
    rule_formatchecker_owns(ctx, "R18.9")
    from . import scope as _scope18
    _scope18.rule_no_process_wide_settings(ctx, "R18.10")
