"""C03 - validation is total (claimed, modulo stated assumptions): kind interpreter with exception effects."""
import ast

from ..prog import norm, walk_body, AnalysisError, DRAFTS
from ..calls import calls_of
from ..interp import Interp, obj
from ..kinds import AV, ANY, from_json_value, join_all, JSON_KINDS
from ..report import site
from .. import spec


def _interp(ctx, draft):
    cache = ctx.extra.setdefault("_interp_cache", {})
    if draft not in cache:
        cache[draft] = Interp(ctx.prog, draft)
    return cache[draft]


def run_entry(I, f, args, kwargs=None):
    I.collectors = [[]]
    I.stack = []
    I.cur_func = None
    I.call_func(f, args, kwargs or {})
    eff = I.collectors[0]
    I.collectors = [[]]
    return eff


def report_effects(r, I, f, eff, ctxlabel, allowed):
    """One obligation per entry; findings keyed by (raising function, exception, operation)."""
    esc = [x for x in eff if x.exc not in allowed]
    by = {}
    for x in esc:
        by.setdefault(x.key(), x)
    if not by:
        r.ok("%s [%s]" % (site(f), ctxlabel), "escape set within %s" % (sorted(allowed) or "{}"))
    else:
        r.pending("%s [%s]" % (site(f), ctxlabel), "escapes: %s" % sorted({x.exc for x in by.values()}))
    return by


def rule_keywords_total(ctx, rid="R3.1"):
    prog = ctx.prog
    r = ctx.rule(rid, "for every (draft, keyword, function): with any keyword value the metaschema admits and any JSON instance, nothing but "
                      "RefResolutionError (and UnknownType in Draft 3) can escape", floor=110)
    found = {}
    n_obl = 0
    for d in DRAFTS:
        I = _interp(ctx, d)
        for k, f in sorted(prog.tables.drafts[d].table.items()):
            val = I.shapes.keyword(k)
            eff = run_entry(I, f, [obj("Validator"), val, ANY, I.schema_av.only(["dict"])])
            by = report_effects(r, I, f, eff, "%s.%s value %s" % (d, k, val.describe()), I.allowed)
            for key, x in by.items():
                ent = found.setdefault(key, {"x": x, "where": []})
                ent["where"].append("%s.%s" % (d, k))
        n_obl += I.obligations
    for key, ent in sorted(found.items()):
        x = ent["x"]
        first = ent["where"][0]
        d0, k0 = first.split(".", 1)
        I = _interp(ctx, d0)
        r.findings.append({"rule": r.id, "key": "%s|%s" % (r.id, key), "site": site(x.func, x.node),
                           "msg": "%s can escape validation: %s%s" % (x.exc, x.op, (" -- operand %s" % x.operand) if x.operand else ""),
                           "detail": {"arises_under": ", ".join(ent["where"][:8]), "metaschema": I.shapes.admits(k0),
                                      "call_chain": " <- ".join(reversed(x.chain)) if x.chain else ""}})
        continue
        r.fail(key, site(x.func, x.node),
               "%s can escape validation: %s%s" % (x.exc, x.op, (" -- operand %s" % x.operand) if x.operand else ""),
               arises_under=", ".join(ent["where"][:8]),
               metaschema=I.shapes.admits(k0),
               call_chain=" <- ".join(reversed(x.chain)) if x.chain else "")
    ctx.extra["operation_preconditions_checked"] = ctx.extra.get("operation_preconditions_checked", 0) + n_obl
    return r


def rule_entry_points_total(ctx, rid="R3.2"):
    prog = ctx.prog
    calls = calls_of(prog)
    V = calls.V
    r = ctx.rule(rid, "the dispatcher, descend, is_valid, validate, is_type and the construction of a validator raise nothing else either", floor=32)
    found = {}
    for d in DRAFTS:
        I = _interp(ctx, d)
        sch = I.schema_av
        entries = [
            (V.methods["iter_errors"], [obj("Validator"), ANY, sch], {}),
            (V.methods["iter_errors"], [obj("Validator"), ANY], {}),
            (V.methods["descend"], [obj("Validator"), ANY, sch], {"path": AV(["str", "int", "null"]), "schema_path": AV(["str", "int", "null"])}),
            (V.methods["is_valid"], [obj("Validator"), ANY, sch], {}),
            (V.methods["is_valid"], [obj("Validator"), ANY], {}),
            (V.methods["validate"], [obj("Validator"), ANY], {}),
            (V.methods["__init__"], [obj("Validator"), sch], {}),
        ]
        for f, args, kw in entries:
            eff = run_entry(I, f, args, kw)
            allowed = set(I.allowed)
            if f.name == "validate":
                allowed |= {"ValidationError", "AnyException"}    # raises the error object it found
            by = report_effects(r, I, f, eff, "%s %s(%s)" % (d, f.name, ", ".join(a.describe() for a in args[1:])), allowed)
            for key, x in by.items():
                found.setdefault(key, {"x": x, "where": []})["where"].append("%s %s" % (d, f.name))
        # is_type with a type name drawn from the schema
        tn = AV(["str"], strs=sorted(I.dr.types)) if d != "draft3" else AV(["str"])
        eff = run_entry(I, V.methods["is_type"], [obj("Validator"), ANY, tn])
        by = report_effects(r, I, V.methods["is_type"], eff, "%s is_type(any, %s)" % (d, tn.describe()), I.allowed)
        for key, x in by.items():
            found.setdefault(key, {"x": x, "where": []})["where"].append("%s is_type" % d)
    for key, ent in sorted(found.items()):
        x = ent["x"]
        r.findings.append({"rule": r.id, "key": "%s|%s" % (r.id, key), "site": site(x.func, x.node),
                           "msg": "%s can escape: %s%s" % (x.exc, x.op, (" -- operand %s" % x.operand) if x.operand else ""),
                           "detail": {"arises_under": ", ".join(ent["where"][:8]), "call_chain": " <- ".join(reversed(x.chain)) if x.chain else ""}})
    return r


def rule_simple_types(ctx, rid="R3.3"):
    prog = ctx.prog
    r = ctx.rule(rid, "Drafts 4/6/7: every type name the metaschema admits is defined by the draft's type checker (no UnknownType)", floor=3)
    for d in DRAFTS:
        if d == "draft3":
            continue
        dr = prog.tables.drafts[d]
        I = _interp(ctx, d)
        t = I.shapes.keyword("type")
        names = set(t.strs or []) | set((t.elem.strs if t.elem is not None and t.elem.strs else []) or [])
        where = "jsonschema/schemas/%s.json#/properties/type" % dr.meta_name
        if t.strs is None or (t.elem is not None and "str" in t.elem.kinds and t.elem.strs is None):
            r.fail("%s|type-names-open" % d, where, "%s's metaschema does not restrict `type` to a finite set of names: an accepted schema can raise UnknownType" % d)
        elif names <= set(dr.types):
            r.ok(where, "admitted names %s are all defined" % sorted(names))
        else:
            r.fail("%s|type-names|%s" % (d, sorted(names - set(dr.types))), where, "admitted type names %s are not defined by the type checker" % sorted(names - set(dr.types)))
    return r


def rule_loops_finite(ctx, rid="R3.4"):
    prog = ctx.prog
    calls = calls_of(prog)
    reach = calls.reachable(calls.validation_roots())
    r = ctx.rule(rid, "every loop in validation-reachable code is a `for` over a finite JSON container or a generator of errors (no while/unbounded iterator)", floor=40)
    for f in sorted(reach, key=lambda x: x.qual):
        for n in walk_body(f):
            if isinstance(n, ast.While):
                r.fail("%s|while|%s" % (f.qual, norm(n.test)[:40]), site(f, n), "while loop in validation-reachable code: termination not evident")
            elif isinstance(n, (ast.For, ast.comprehension)):
                it = n.iter
                bad = None
                for sub in ast.walk(it):
                    if isinstance(sub, ast.Call) and norm(sub.func).split(".")[-1] in ("count", "cycle", "repeat"):
                        bad = norm(sub.func)
                    if isinstance(sub, ast.Call) and norm(sub.func) == "iter" and len(sub.args) == 2:
                        bad = "iter(callable, sentinel)"
                if bad:
                    r.fail("%s|unbounded-iterator|%s" % (f.qual, bad), site(f, it), "loop over %s" % bad)
                else:
                    r.ok(site(f, it), "for ... in %s" % norm(it)[:50])
    return r


_PROG = [None]


class _ModScope:
    """Stands in for a function when a module-level expression is judged."""
    all_params = params = ()
    outer = None

    def __init__(self, mod):
        self.mod = mod


def _bound_names(f):
    out = set(f.all_params)
    for n in walk_body(f):
        if isinstance(n, ast.Name) and isinstance(n.ctx, (ast.Store, ast.Del)):
            out.add(n.id)
        elif isinstance(n, (ast.Import, ast.ImportFrom)):
            out |= {(a.asname or a.name).split(".")[0] for a in n.names}
        elif isinstance(n, ast.ExceptHandler) and n.name:
            out.add(n.name)
    out |= set(f.nested)
    return out


def _module_constant(f, name):
    """The value expression of `name` when it is a module-level name of f's module bound exactly once (no function declares it
    global) and not shadowed by a binding in f or a function around f; else None."""
    g = f
    while g is not None and not isinstance(g, _ModScope):
        if name in _bound_names(g):
            return None
        g = g.outer
    binds = f.mod.bindings.get(name) or []
    if len(binds) != 1 or not isinstance(binds[0][0], ast.expr) or not isinstance(binds[0][1], (ast.Assign, ast.AnnAssign)):
        return None
    for n in ast.walk(f.mod.tree):
        if isinstance(n, ast.Global) and name in n.names:
            return None
    return binds[0][0]


def _template_constant(f, e, depth=0):
    """Is the string expression e free of data: a literal, a concatenation / conditional of such, or a local only ever bound
    to such?  (Only then is it safe as the *template* of % or str.format.)"""
    if depth > 4:
        return False
    if isinstance(e, ast.Constant):
        return isinstance(e.value, str)
    if isinstance(e, ast.BinOp) and isinstance(e.op, ast.Add):
        return _template_constant(f, e.left, depth + 1) and _template_constant(f, e.right, depth + 1)
    if isinstance(e, ast.IfExp):
        return _template_constant(f, e.body, depth + 1) and _template_constant(f, e.orelse, depth + 1)
    if isinstance(e, ast.Call) and isinstance(e.func, ast.Attribute) and e.func.attr in ("rstrip", "strip", "lstrip") and not e.args:
        return _template_constant(f, e.func.value, depth + 1)
    if isinstance(e, ast.Call) and norm(e.func).split(".")[-1] == "dedent" and len(e.args) == 1:
        return _template_constant(f, e.args[0], depth + 1)
    if isinstance(e, ast.Name) and e.id in f.all_params and not any(
            isinstance(n, (ast.Assign, ast.AugAssign)) and any(isinstance(t, ast.Name) and t.id == e.id for t in (n.targets if isinstance(n, ast.Assign) else [n.target]))
            for n in walk_body(f)):
        # a template handed in as a parameter: every call site in the package must pass a literal template
        from ..calls import calls_of as _calls_of
        prog = _PROG[0]
        if prog is None:
            return False
        calls = _calls_of(prog)
        idx = f.params.index(e.id) if e.id in f.params else None
        sites = []
        for g in prog.funcs.values():
            for n in walk_body(g):
                if isinstance(n, ast.Call) and any(t.kind == "func" and t.func is f for t in calls.callee(g, n)):
                    arg = None
                    if idx is not None and idx < len(n.args):
                        arg = n.args[idx]
                    for k in n.keywords:
                        if k.arg == e.id:
                            arg = k.value
                    sites.append((g, arg))
        return bool(sites) and all(a is not None and _template_constant(g, a, depth + 1) for g, a in sites)
    if isinstance(e, ast.Name) and _module_constant(f, e.id) is not None:
        # a message template hoisted to a module constant: bound once, at module level, to a data-free string expression
        return _template_constant(_ModScope(f.mod), _module_constant(f, e.id), depth + 1)
    if isinstance(e, ast.Name) and isinstance(f, _ModScope):
        return False
    if isinstance(e, ast.Name):
        # the definitions that reach this use (flow-sensitive: the same name may be a loop variable elsewhere in the function)
        from ..cfg import cfg_of, reaching_defs, node_exprs, walk_expr
        cfg = cfg_of(f)
        rd = reaching_defs(cfg)
        here = None
        for n in cfg.live:
            if any(sub is e for x in node_exprs(n) for sub in walk_expr(x)):
                here = n
                break
        if here is None:
            return False
        defs = [cfg.nodes[d] for d in rd[here.id].get(e.id, ())]
        if not defs:
            return False
        for dn in defs:
            if dn is cfg.entry or dn.kind != "stmt":
                return False
            a = dn.ast
            if isinstance(a, ast.Assign) and len(a.targets) == 1 and isinstance(a.targets[0], ast.Name):
                if not _template_constant(f, a.value, depth + 1):
                    return False
            elif isinstance(a, ast.AugAssign) and isinstance(a.op, ast.Add):
                if not _template_constant(f, a.value, depth + 1):
                    return False
                # the value before the += must be constant too: look at what reached the augmented assignment
                prev = [cfg.nodes[d] for d in rd[dn.id].get(e.id, ())]
                for pn in prev:
                    pa = pn.ast
                    if not (pn.kind == "stmt" and isinstance(pa, ast.Assign) and _template_constant(f, pa.value, depth + 1)):
                        return False
            else:
                return False
        return True
    if isinstance(e, ast.Attribute) and isinstance(e.value, ast.Name) and e.attr.isupper() or (isinstance(e, ast.Attribute) and e.attr.startswith("_") and e.attr[1:].isupper()):
        return True        # class-level message constants (self._ERROR_MSG)
    return False


def rule_no_data_templates(ctx, rid="R3.6"):
    """`template % args` and `template.format(...)`: a template that contains instance or schema data (a member name, a repr)
    misreads every `%` / `{` in that data as a conversion and raises ValueError/TypeError/KeyError."""
    prog = ctx.prog
    _PROG[0] = prog
    calls = calls_of(prog)
    reach = set(calls.reachable(calls.validation_roots()))
    for q in ("_utils.types_msg", "_utils.extras_msg", "_utils.format_as_index"):
        if q in prog.funcs:
            reach.add(prog.funcs[q])
    r = ctx.rule(rid, "no message is built with data in the template position of % / str.format (a '%' or '{' in a key or value would raise)", floor=30)
    for f in sorted(reach, key=lambda x: x.qual):
        if f.mod.name in ("cli", "_reflect"):
            continue
        n_sites = 0
        for n in walk_body(f):
            tmpl = None
            if isinstance(n, ast.JoinedStr):
                n_sites += 1
                r.ok(site(f, n), "f-string: data only ever sits in value positions")
                continue
            if isinstance(n, ast.BinOp) and isinstance(n.op, ast.Mod):
                stringy = isinstance(n.right, ast.Tuple) or isinstance(n.left, (ast.Constant, ast.JoinedStr)) and isinstance(getattr(n.left, "value", ""), str) \
                    or (isinstance(n.left, ast.Name) and any(isinstance(x, ast.Assign) and any(isinstance(t, ast.Name) and t.id == n.left.id for t in x.targets)
                                                             and isinstance(x.value, (ast.Constant, ast.BinOp, ast.Call)) and
                                                             (not isinstance(x.value, ast.Constant) or isinstance(x.value.value, str)) for x in walk_body(f))
                        and isinstance(n.right, (ast.Tuple, ast.Name, ast.Call, ast.Attribute, ast.Subscript)) and _looks_like_text(f, n.left))
                if stringy:
                    tmpl = n.left
            elif isinstance(n, ast.Call) and isinstance(n.func, ast.Attribute) and n.func.attr == "format" and (n.args or n.keywords):
                if not (isinstance(n.func.value, ast.Name) and n.func.value.id in f.all_params and f.mod.name == "cli"):
                    tmpl = n.func.value
            if tmpl is None:
                continue
            n_sites += 1
            if _template_constant(f, tmpl):
                r.ok(site(f, n), "template is a literal: %s" % norm(tmpl)[:40])
            else:
                r.fail("%s|data-in-template|%s" % (f.qual, norm(tmpl)[:40]), site(f, n),
                       "`%s` is used as a format template but is assembled from data: a '%%' (or '{') in a member name or value raises "
                       "ValueError/TypeError instead of producing the message" % norm(tmpl)[:50])
        if not n_sites:
            r.ok(site(f), "scanned: no %% / str.format / f-string site")
    return r


def _looks_like_text(f, name_node):
    """a local that holds text (bound to a string literal / a join / a % or + of text), as opposed to a number used with %"""
    for x in walk_body(f):
        if isinstance(x, (ast.Assign, ast.AugAssign)):
            tgts = x.targets if isinstance(x, ast.Assign) else [x.target]
            if any(isinstance(t, ast.Name) and t.id == name_node.id for t in tgts):
                v = x.value
                if isinstance(v, ast.Constant) and isinstance(v.value, str):
                    return True
                if isinstance(v, ast.Call) and isinstance(v.func, ast.Attribute) and v.func.attr in ("join", "format"):
                    return True
                if isinstance(v, ast.BinOp) and isinstance(v.op, (ast.Mod, ast.Add)) and any(isinstance(s, ast.Constant) and isinstance(s.value, str) for s in ast.walk(v)):
                    return True
                if isinstance(v, ast.JoinedStr):
                    return True
    return False


def rule_validated_once(ctx, rid="R3.7"):
    """"finishes": an applicator that validates the same part against the same subschema twice in one call (a quick is_valid pass,
    then descend again for the errors) costs 2^depth on nested applicators -- a 1 kB schema with forty nested anyOf does not return.
    Decided on the applicator tables (sa/rules/applic.py): the oracle records every question; none may repeat within a call."""
    from . import applic
    prog = ctx.prog
    r = ctx.rule(rid, "no applicator asks for the verdict of the same (part, subschema) pair twice in one call (cost would double per nesting level)", floor=18)
    for rec in applic.evaluate_all(prog):
        f, k = rec["func"], rec["keyword"]
        where = "%s [%s %s]" % (site(f), "/".join(rec["drafts"]), k)
        if rec["undecided"] is not None:
            r.ok(where, "NOT DECIDED: %s" % rec["undecided"])
            continue
        bad = None
        for row, st, res in rec["results"]:
            asked = getattr(row, "asked", None) or []
            dup = [a for a in set(asked) if asked.count(a) > 1]
            if dup:
                bad = (row, dup[0], asked.count(dup[0]))
                break
        if bad is None:
            r.ok(where, "every pair asked at most once on %d rows" % rec["rows"])
        else:
            row, pair, n = bad
            r.fail("%s|%s|validated-twice" % (f.qual, k), where,
                   "%r [%s]: the verdict of (%s, %s) is asked %d times in one call: with this keyword nested d levels deep the innermost subschema "
                   "is validated %d^d times" % (k, row.label[:100], pair[0], pair[1], n, n))
    return r


def rule_metaschema_shapes(ctx, rid="R11.4"):
    """Every keyword value *inside* a bundled metaschema lies within the shape its own metaschema admits for that keyword
    (so the metaschema, used as a schema by check_schema, stays inside what R3.1 proves safe)."""
    from .c11 import _walk_schema_positions
    prog = ctx.prog
    r = ctx.rule(rid, "each keyword value inside a bundled metaschema lies in the shape proved safe for that keyword", floor=150)
    for d in DRAFTS:
        dr = prog.tables.drafts[d]
        I = _interp(ctx, d)
        where0 = "jsonschema/schemas/%s.json" % dr.meta_name

        def fn(path, sub, d=d, I=I, where0=where0):
            for k, v in sub.items():
                if k not in spec.VOCAB[d] and k not in ("exclusiveMinimum", "exclusiveMaximum", "required", "then", "else"):
                    continue
                want = I.shapes.keyword(k)
                got = from_json_value(v)
                ok = got.kinds <= want.kinds
                if ok and "list" in got.kinds and want.elem is not None and got.elem is not None and not got.elem.empty:
                    ok = got.elem.kinds <= want.elem.kinds
                if ok and "dict" in got.kinds and not want.schema and want.vals is not None and got.vals is not None and not got.vals.empty:
                    ok = got.vals.kinds <= want.vals.kinds
                if ok:
                    r.ok("%s%s/%s" % (where0, path, k), "%s within %s" % (got.describe(), want.describe()))
                else:
                    r.fail("%s|%s|%s|outside-shape" % (d, path, k), "%s%s/%s" % (where0, path, k),
                           "the metaschema's own value for %r (%s) is outside the shape %s admits for that keyword (%s)" % (k, got.describe(), d, want.describe()))
        _walk_schema_positions(dr.meta, d, fn)
    return r


def run(ctx):
    ctx.explanation = (
        "C03 by abstract interpretation: abstract values are sets of JSON kinds (null, bool, int, float, str, list, dict) with "
        "element/value shapes, `positive`, `non-empty`, finite string sets and key-known-present facts; every Python operation "
        "has a kind precondition and an exception effect (DESIGN Appendix C); effects flow to enclosing handlers by class and "
        "otherwise escape. For each draft and each (keyword, function) the function is analysed with the keyword value ranging "
        "over the shape computed from the bundled metaschema *data*, the instance over all JSON values, the schema over "
        "schema-shaped objects of that draft, helpers and resolver methods inlined. Recursive validation (descend/is_valid) is "
        "summarised by induction: its argument must be schema-shaped and it may raise the documented exceptions. The escape set "
        "must be within {RefResolutionError} (+UnknownType for Draft 3). Also the dispatcher, descend, is_valid, validate, is_type "
        "and validator construction; finiteness of loops as a structural check.")
    ctx.assume("every $ref value is a string and every schema regular expression compiles (the property's provisos)")
    ctx.assume("custom format functions and retrieval handlers are outside (C12, C15); a registered checker raises only what it lists")
    ctx.assume("instances contain finite numbers; recursion depth and cyclic $ref are not modelled")
    ctx.assume("operation model (DESIGN Appendix C) and callee exception model (sa/model.py)")
    rule_keywords_total(ctx)
    rule_entry_points_total(ctx)
    rule_simple_types(ctx)
    rule_loops_finite(ctx)
    rule_no_data_templates(ctx)
    rule_validated_once(ctx)
    # R3.5: resolution_scope indexes the top of the scope stack: a pop that was never pushed empties it and the next $ref raises
    # IndexError (the kind interpreter does not model the stack depth; the typestate pairing analysis does)
    from . import scope
    scope.rule_pairing(ctx, "R3.5")
    # R3.8: the fourth entry point, module-level jsonschema.validate, on schema-shaped values: class selection, check_schema, construction
    # and best_match (whose ranking compares keys computed from the errors) raise nothing of their own
    from .c04 import rule_validate_total
    rule_validate_total(ctx, "R3.8", schemas_only=True)
    # R3.9: "RefResolutionError when a reference cannot be resolved" -- and for no other reason
    scope.rule_who_raises_ref_error(ctx, "R3.9")
    un = set()
    for I in ctx.extra.get("_interp_cache", {}).values():
        un |= set(I.unmodelled)
    ctx.extra["unmodelled_operations"] = sorted(un)
    ctx.extra.pop("_interp_cache", None)
    # R3.10: nothing on the validation path swallows an exception by jumping out of a finally clause (what is documented to surface, surfaces)
    from . import scope as _scope3
    _scope3.rule_no_jump_in_finally(ctx, "R3.10", ('validators', '_validators', '_legacy_validators', '_utils', '_format', '_types', 'exceptions'), "the validation path")
