"""C11 - check_schema == the draft's metaschema (partial)."""
import ast
from urllib.parse import unquote

from ..prog import norm, walk_body, AnalysisError, DRAFTS
from ..cfg import cfg_of
from ..calls import calls_of
from ..common import calls_at
from ..report import site
from . import tables


def rule_wiring(ctx, rid="R11.1"):
    prog = ctx.prog
    calls = calls_of(prog)
    V = calls.V
    f = V.methods.get("check_schema")
    if f is None:
        raise AnalysisError("check_schema vanished")
    r = ctx.rule(rid, "check_schema validates the candidate against its own class's metaschema, without format checker/resolver/types, "
                      "and raises SchemaError.create_from(first error)", floor=3)
    from . import valsem
    sem = ctx.extra.get("_check_schema_eval", 0)
    if sem == 0:
        try:
            sem = valsem.check_schema_eval(prog)
        except RecursionError:
            sem = None
        ctx.extra["_check_schema_eval"] = sem
    if sem is not None:
        # decided on the class create() builds inside sa/tokeval.py, with recording keyword functions
        texts = {"raises-schema-error": "the first metaschema error comes back as SchemaError.create_from(error); nothing is raised or returned otherwise",
                 "own-class": "the candidate is validated by an instance of the class called on, over that class's own META_SCHEMA (also for extend()ed classes)",
                 "bare-validator": "that instance has no format checker, the class's own type checks and the default resolver",
                 "classmethod": "callable on the class and on an instance alike",
                 "candidate-untouched": "neither the candidate nor the metaschema is written to",
                 "raises": "evaluates without an unexpected exception"}
        for clause, msg in sorted(sem.items()):
            if msg is None:
                r.ok(site(f), "[semantic] %s" % texts.get(clause, clause))
            else:
                r.fail("%s|semantic|%s" % (f.qual, clause), site(f), msg)
        return r
    if "classmethod" not in [norm(d) for d in f.decorators]:
        r.fail("%s|not-classmethod" % f.qual, site(f), "check_schema is not a classmethod")
    cp, sp = f.params[0], f.params[1]
    cfg = cfg_of(f)
    loops = [n for n in cfg.live if n.kind == "for"]
    if len(loops) != 1:
        r.fail("%s|shape" % f.qual, site(f), "expected a single loop over the metaschema errors")
        return r
    it = loops[0].ast.iter
    temps = {}
    for n in cfg.live:
        if n.kind == "stmt" and isinstance(n.ast, ast.Assign) and len(n.ast.targets) == 1 and isinstance(n.ast.targets[0], ast.Name):
            temps.setdefault(n.ast.targets[0].id, []).append(n)

    def through_temp(e):
        """Follow a single-assignment temporary to the expression it holds."""
        if isinstance(e, ast.Name) and e.id in temps and len(temps[e.id]) == 1 and e.id not in f.all_params:
            used_temps.add(temps[e.id][0].id)
            return temps[e.id][0].ast.value
        return e
    used_temps = set()
    it = through_temp(it)
    ok = (isinstance(it, ast.Call) and isinstance(it.func, ast.Attribute) and it.func.attr == "iter_errors"
          and [norm(a) for a in it.args] == [sp] and not it.keywords)
    ctor = through_temp(it.func.value) if ok else None
    ok = ok and isinstance(ctor, ast.Call) and norm(ctor.func) == cp and [norm(a) for a in ctor.args] == ["%s.META_SCHEMA" % cp] and not ctor.keywords
    if ok:
        r.ok(site(f, it), "%s(%s.META_SCHEMA).iter_errors(%s): same class, own metaschema, no format checker, resolver or types" % (cp, cp, sp))
    else:
        r.fail("%s|validator|%s" % (f.qual, norm(it)), site(f, it),
               "the candidate is not validated as cls(cls.META_SCHEMA).iter_errors(schema) (extra arguments change what check_schema accepts): %s" % norm(it))
    lv = loops[0].ast.target.id if isinstance(loops[0].ast.target, ast.Name) else None
    nxt = [x for (l, x) in loops[0].succ if l == "iter"]
    se = prog.cls("exceptions.SchemaError")
    ok2 = False
    if len(nxt) == 1 and nxt[0].kind == "raise" and isinstance(nxt[0].ast.exc, ast.Call):
        e = nxt[0].ast.exc
        ok2 = (isinstance(e.func, ast.Attribute) and e.func.attr == "create_from" and prog.resolve_expr(f.mod, e.func.value, f) is se
               and [norm(a) for a in e.args] == [lv])
    if ok2:
        r.ok(site(f, nxt[0].ast), "first error -> raise SchemaError.create_from(error)")
    else:
        r.fail("%s|raise" % f.qual, site(f), "the first metaschema error is not re-raised as SchemaError.create_from(error)")
    others = [n for n in cfg.live if n.kind in ("stmt", "yield", "return", "with_enter") and n.id not in used_temps
              and not (n.kind == "stmt" and isinstance(n.ast, ast.Expr) and isinstance(n.ast.value, ast.Constant))]
    if others:
        r.fail("%s|extra-statements|%s" % (f.qual, others[0].text), site(f, others[0].ast), "check_schema does more than validate and raise: %s" % others[0].text)
    else:
        r.ok(site(f), "no other statement with an effect")
    # META_SCHEMA bound from meta_schema argument of create
    ms = V.attrs.get("META_SCHEMA")
    if ms is not None and "meta_schema" in {x.id for x in ast.walk(ms) if isinstance(x, ast.Name)}:
        r.ok("jsonschema/validators.py Validator.META_SCHEMA", "bound from create()'s meta_schema argument: %s" % norm(ms))
    else:
        r.fail("Validator.META_SCHEMA|binding|%s" % norm(ms), "jsonschema/validators.py Validator.META_SCHEMA", "META_SCHEMA is not built from the meta_schema argument")
    return r


def _walk_schema_positions(meta, draft, fn, path="#"):
    """Call fn(path, subschema) on every subschema position of a metaschema document (as a schema of its own draft)."""
    if isinstance(meta, bool) or not isinstance(meta, dict):
        return
    fn(path, meta)
    if "$ref" in meta and isinstance(meta["$ref"], str):
        return
    for k in ("properties", "patternProperties", "definitions", "dependencies"):
        v = meta.get(k)
        if isinstance(v, dict):
            for name, sub in v.items():
                if isinstance(sub, (dict, bool)):
                    _walk_schema_positions(sub, draft, fn, "%s/%s/%s" % (path, k, name.replace("~", "~0").replace("/", "~1")))
    for k in ("additionalProperties", "additionalItems", "items", "not", "contains", "propertyNames", "if", "then", "else", "extends"):
        v = meta.get(k)
        if isinstance(v, dict):
            _walk_schema_positions(v, draft, fn, "%s/%s" % (path, k))
        elif isinstance(v, list):
            for i, sub in enumerate(v):
                if isinstance(sub, (dict, bool)):
                    _walk_schema_positions(sub, draft, fn, "%s/%s/%d" % (path, k, i))
    for k in ("allOf", "anyOf", "oneOf"):
        v = meta.get(k)
        if isinstance(v, list):
            for i, sub in enumerate(v):
                _walk_schema_positions(sub, draft, fn, "%s/%s/%d" % (path, k, i))
    if draft == "draft3":
        for k in ("type", "disallow"):
            v = meta.get(k)
            if isinstance(v, list):
                for i, sub in enumerate(v):
                    if isinstance(sub, dict):
                        _walk_schema_positions(sub, draft, fn, "%s/%s/%d" % (path, k, i))


def resolve_pointer(doc, frag):
    """RFC 6901 resolution of a URI fragment, written independently of the repository's implementation."""
    frag = unquote(frag)
    if frag == "":
        return True, doc
    if not frag.startswith("/"):
        return False, None
    cur = doc
    for tok in frag[1:].split("/"):
        tok = tok.replace("~1", "/").replace("~0", "~")
        if isinstance(cur, dict):
            if tok not in cur:
                return False, None
            cur = cur[tok]
        elif isinstance(cur, list):
            if not (tok == "0" or (tok.isascii() and tok.isdigit() and not tok.startswith("0"))):
                return False, None
            i = int(tok)
            if i >= len(cur):
                return False, None
            cur = cur[i]
        else:
            return False, None
    return True, cur


def rule_closed_refs(ctx, rid="R11.2"):
    prog = ctx.prog
    r = ctx.rule(rid, "every $ref inside a bundled metaschema resolves inside the same file", floor=10)
    for d in DRAFTS:
        dr = prog.tables.drafts[d]
        where = "jsonschema/schemas/%s.json" % dr.meta_name

        def fn(path, sub, dr=dr, where=where, d=d):
            ref = sub.get("$ref")
            if ref is None:
                return
            if not isinstance(ref, str):
                r.fail("%s|ref-not-string|%s" % (d, path), where + path, "$ref is not a string")
                return
            if not ref.startswith("#"):
                r.fail("%s|remote-ref|%s|%s" % (d, path, ref), where + path, "metaschema refers outside itself: %r (check_schema would need a retrieval)" % ref)
                return
            ok, tgt = resolve_pointer(dr.meta, ref[1:])
            if ok and isinstance(tgt, (dict, bool)):
                r.ok(where + path, "$ref %r resolves" % ref)
            else:
                r.fail("%s|dangling-ref|%s|%s" % (d, path, ref), where + path, "$ref %r does not resolve inside the metaschema: check_schema would raise RefResolutionError" % ref)
        _walk_schema_positions(dr.meta, d, fn)
    return r


def rule_type_names(ctx, rid="R11.3"):
    prog = ctx.prog
    r = ctx.rule(rid, "every type name used in a bundled metaschema is defined by the draft's type checker", floor=100)
    for d in DRAFTS:
        dr = prog.tables.drafts[d]
        where = "jsonschema/schemas/%s.json" % dr.meta_name
        known = set(dr.types)

        def fn(path, sub, dr=dr, where=where, d=d, known=known):
            for key in ("type", "disallow") if d == "draft3" else ("type",):
                t = sub.get(key)
                if t is None:
                    continue
                names = [t] if isinstance(t, str) else [x for x in t if isinstance(x, str)] if isinstance(t, list) else []
                for nm in names:
                    if nm in known:
                        r.ok(where + path, "%s %r" % (key, nm))
                    else:
                        r.fail("%s|unknown-type|%s|%s" % (d, path, nm), where + path, "type name %r is not defined by %s's type checker: check_schema would raise UnknownType" % (nm, d))
        _walk_schema_positions(dr.meta, d, fn)
        # simpleTypes enumeration (drafts 4+) within the type checker's names
        st = (dr.meta.get("definitions") or {}).get("simpleTypes", {}).get("enum") if isinstance(dr.meta, dict) else None
        if st is not None:
            extra = sorted(set(st) - known)
            if extra:
                r.fail("%s|simpleTypes|%s" % (d, ",".join(extra)), where + "#/definitions/simpleTypes",
                       "the metaschema admits type names %s the type checker does not define: an accepted schema would raise UnknownType" % extra)
            else:
                r.ok(where + "#/definitions/simpleTypes", "enum %s within the type checker's names" % sorted(st))
    return r


def run(ctx):
    ctx.explanation = (
        "C11 structural clauses: R11.1 wiring of check_schema (own class, own metaschema, nothing else), R11.2 each bundled "
        "metaschema is closed under $ref (walked with an independent RFC 6901 resolver), R11.3 every type name it uses is "
        "defined by the draft's type checker, R11.4 every keyword value inside the metaschema lies in the shape the C03 "
        "analysis proves safe (see C03 evidence), R11.5 ids/$schema agree with the class's id key and the draft URIs. "
        "Not decided: `accepts exactly what the metaschema allows` (needs an evaluator on concrete candidates).")
    ctx.assume("json module parses the bundled files faithfully")
    rule_wiring(ctx)
    rule_closed_refs(ctx)
    rule_type_names(ctx)
    tables.rule_id_key(ctx, "R11.5a")
    tables.rule_meta_ids(ctx, "R11.5")
    # R11.6: `$ref: "#"` inside the metaschema must reach the metaschema in hand: the referrer is stored last under its base URI
    from .c15 import rule_seeding
    rule_seeding(ctx, "R11.6")
    # R11.7: check_schema's verdict is a validation of the candidate against the metaschema; it is "exactly the metaschema"
    # only if keyword code keeps no memo between sub-validations (a remembered "already passed" is keyed by ==, not JSON equality)
    from .c05 import rule_no_shared_state
    rule_no_shared_state(ctx, "R11.7")
    # R11.8: for check_schema the candidate schema is the instance; its members false / 0 / "" / null / {} are present members
    # (Draft 4 `dependencies`: exclusiveMinimum: false still requires minimum)
    from .c01 import rule_instance_not_a_condition, rule_type_predicates
    rule_instance_not_a_condition(ctx, "R11.8")
    # R11.3b: every metaschema constrains its members through `type`; the verdict on a candidate is the metaschema's only if each
    # type predicate decides every value class (huge integers, integer-valued floats, booleans) as the draft says
    rule_type_predicates(ctx, "R11.3b")
    # R11.9: under check_schema `validator.schema` is the metaschema root; a keyword that reads its siblings there instead of in
    # the schema object it was called with applies the wrong constraints to nested members of the candidate
    from .c10 import rule_read_set
    rule_read_set(ctx, "R11.9")
    tables.rule_meta_properties(ctx, "R11.11")
    # R11.13: each class checks against its *own copy* of its metaschema: a derived class whose META_SCHEMA is written to cannot
    # change what the draft class's check_schema accepts
    from .c16 import rule_create_copies
    rule_create_copies(ctx, "R11.13")
    # R11.10: "raises SchemaError and nothing else": no message built with candidate data in the template position
    from .c03 import rule_no_data_templates
    rule_no_data_templates(ctx, "R11.10")
    # R11.14: check_schema raises SchemaError or returns: the metaschema walk pushes a scope per nesting level of the candidate, and
    # nothing on that path may turn depth (or anything but an unresolvable reference) into RefResolutionError
    from . import scope
    scope.rule_who_raises_ref_error(ctx, "R11.14")
    rule_meta_keys_known(ctx)
    rule_load_schema_faithful(ctx)
    # R11.17: one check_schema call is one validation of the candidate: the validator doing it keeps no memo of type answers or verdicts between
    # the members it looks at (2.0 and 2.5 are both floats, and only one is an integer) (C11-r6m2)
    from .c07 import rule_validator_state
    rule_validator_state(ctx, "R11.17")
    from . import scope as _scope11
    _scope11.rule_first_error_path_lazy(ctx, "R11.18")
    # R11.19/R11.20: the metaschemas say what they say through dependencies, type unions with schemas, uniqueItems and enum: check_schema's verdict is the
    # metaschema's only if the applicators combine sub-verdicts as the draft says and equality is JSON equality (C11-r7m1, -m2)
    from .applic import rule_applicators as _ra
    _ra(ctx, "R11.19", "verdict")
    from .c08 import rule_relation_table as _rt, eq_functions as _ef
    _rt(ctx, _ef(ctx.prog)[0], "R11.20")
    try:
        from .c03 import rule_metaschema_shapes
    except ImportError:
        rule_metaschema_shapes = None
    if rule_metaschema_shapes is not None:
        rule_metaschema_shapes(ctx, "R11.4")


def rule_load_schema_faithful(ctx, rid="R11.16"):
    """META_SCHEMA is what the bundled file says: load_schema, evaluated by sa/tokeval.py on each of the four files (pkgutil.get_data
    answering from the tree under analysis), must return exactly the JSON value of the file -- every member, title and description
    included (inside `properties` those are *property names*), numbers with their types."""
    from ..tokeval import Ev, Undecided, PyRaise, PkgData
    prog = ctx.prog
    f = prog.func("_utils.load_schema")
    r = ctx.rule(rid, "load_schema returns the bundled file's JSON value unchanged", floor=4)

    def diff(a, b, path="#"):
        if type(a) is not type(b):
            return "%s: %s in the file, %s loaded" % (path, type(a).__name__, type(b).__name__)
        if isinstance(a, dict):
            for k in a:
                if k not in b:
                    return "%s: member %r of the file is missing from what load_schema returns" % (path, k)
            for k in b:
                if k not in a:
                    return "%s: member %r is not in the file" % (path, k)
            for k in a:
                d_ = diff(a[k], b[k], path + "/" + k)
                if d_:
                    return d_
            return None
        if isinstance(a, list):
            if len(a) != len(b):
                return "%s: %d elements in the file, %d loaded" % (path, len(a), len(b))
            for i, (x, y) in enumerate(zip(a, b)):
                d_ = diff(x, y, "%s/%d" % (path, i))
                if d_:
                    return d_
            return None
        return None if a == b else "%s: %r in the file, %r loaded" % (path, a, b)
    for d in DRAFTS:
        where = "jsonschema/schemas/%s.json via %s" % (d, f.qual)
        try:
            ev = Ev(prog, fuel=200000)
            ev.ext["pkgutil"] = PkgData(prog)
            got = ev.call_func(f, [d], {})
        except Undecided as u:
            r.ok(where, "NOT DECIDED: %s" % u)
            r.note(site(f), "%s not decided for %s" % (rid, d))
            continue
        except PyRaise as pr:
            r.fail("%s|load|%s|raises" % (f.qual, d), site(f), "load_schema(%r) raises %s (%s)" % (d, pr.name, pr.msg))
            continue
        why = diff(prog.schemas[d], got)
        if why:
            r.fail("%s|load|%s|altered" % (f.qual, d), site(f), "load_schema(%r) does not return the file's value: %s" % (d, why))
        else:
            r.ok(where, "the loaded value is the file's JSON value, member for member")
    return r


ANNOTATIONS = {"$schema", "id", "$id", "title", "description", "default", "definitions", "examples", "$comment", "format", "readOnly", "$ref"}


def rule_meta_keys_known(ctx, rid="R11.15"):
    """A bundled metaschema is itself a schema of its draft: a member name at a subschema position that the draft's class has no
    keyword for (and that is not an annotation) constrains nothing -- `additionalProperites: {"$ref": "#"}` silently lets
    every value through where the draft meant subschemas only."""
    prog = ctx.prog
    r = ctx.rule(rid, "at every subschema position of each bundled metaschema every member name is a keyword of that draft's class or an annotation", floor=4)
    for d in DRAFTS:
        dr = prog.tables.drafts[d]
        # keywords of the class, annotations, and the members a keyword function reads next to itself (then/else; in Drafts 3/4 the
        # boolean exclusiveMinimum / exclusiveMaximum modifiers)
        known = set(dr.table) | ANNOTATIONS | {"then", "else"} | ({"exclusiveMinimum", "exclusiveMaximum"} if d in ("draft3", "draft4") else set())
        bad = []
        n = [0]

        def visit(path, sub):
            n[0] += 1
            for k in sub:
                if k not in known:
                    bad.append((path, k))
        _walk_schema_positions(dr.meta, d, visit)
        where = "jsonschema/schemas/%s.json" % d
        if not bad:
            r.ok(where, "%d subschema positions, every member name known to the %s class" % (n[0], d))
        for path, k in bad[:5]:
            r.fail("%s|unknown-member|%s|%s" % (d, path, k), where + path,
                   "%s%s has a member %r that is neither a %s keyword nor an annotation: it constrains nothing (a misspelt keyword lets every value through)" % (where, path, k, d))
    return r
