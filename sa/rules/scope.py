"""Scope-stack rules shared by C02 and C07 (R2.2 pairing, R2.3, R2.4, who-may-write)."""
import ast

from ..prog import norm, walk_local, AnalysisError, walk_body, Func
from ..cfg import cfg_of, node_exprs, walk_expr, reaching_defs
from ..calls import calls_of
from ..effects import effects_of
from ..common import calls_at, pairing, fmt_path, find_method
from ..report import site


def push_pop_funcs(prog):
    push = find_method(prog, "validators.RefResolver", "push_scope")
    pop = find_method(prog, "validators.RefResolver", "pop_scope")
    return push, pop


def is_contextmanager(f):
    return any(norm(d).endswith("contextmanager") for d in f.decorators)


def rule_pairing(ctx, rid="R2.2"):
    prog = ctx.prog
    calls = calls_of(prog)
    push, pop = push_pop_funcs(prog)
    r = ctx.rule(rid, "every push_scope is undone by exactly one pop_scope on every exit "
                      "(normal, return, exception, generator close)", floor=2)
    users = []
    for f in prog.funcs.values():
        if f is push or f is pop:
            continue
        for (_n, call, tg) in calls.calls_in(f):
            if any(t.kind == "func" and t.func in (push, pop) for t in tg):
                users.append(f)
                break
    cm_ok = {}
    for f in sorted(users, key=lambda x: x.qual):
        cfg = cfg_of(f)

        def has(node, target):
            return any(t.kind == "func" and t.func is target for (_c, tg) in calls_at(calls, f, node) for t in tg)
        bad = pairing(cfg, lambda n: has(n, push), lambda n: has(n, pop))
        # a handler that can swallow GeneratorExit around a yield would defeat the close edge
        for n in cfg.live:
            if n.kind == "dispatch" and n.info == "close" and n.out("close"):
                # an except clause that takes the close (BaseException / bare except / GeneratorExit) must pass it on: every way
                # through the clause ends in a bare `raise`, and it yields nothing
                for h in [y for (l, y) in n.succ if l == "close" and y.kind == "except"]:
                    hb = h.ast.body
                    yields = any(isinstance(x, (ast.Yield, ast.YieldFrom)) for st in hb for x in ast.walk(st))
                    reraises = bool(hb) and isinstance(hb[-1], ast.Raise) and hb[-1].exc is None
                    if yields or not reraises:
                        r.fail("%s|handler-intercepts-close" % f.qual, site(f, h.ast),
                               "an except clause takes generator close around a yield and does not simply re-raise it")
        if bad:
            for b in bad:
                key = "%s|exit:%s|depth:%+d" % (f.qual, b["exit"].info, b["depth"])
                r.fail(key, site(f), "scope stack unbalanced (%+d) when leaving through exit:%s" % (b["depth"], b["exit"].info),
                       path=fmt_path(b["path"]),
                       accepted_idiom="push immediately followed by try/finally: pop; conditional push guarded by the same unmodified name")
            cm_ok[f] = False
        else:
            npush = sum(1 for n in cfg.live if has(n, push))
            npop = sum(1 for n in cfg.live if has(n, pop))
            r.ok(site(f), "%d push site(s), %d pop node copies, all exits balanced incl. exc/close edges" % (npush, npop))
            cm_ok[f] = True
    # `with <resolver>.resolving(..)/in_scope(..)` users: paired iff the wrapper is a contextmanager that passed
    for f in prog.funcs.values():
        for n in walk_body(f):
            if isinstance(n, ast.With):
                for item in n.items:
                    ce = item.context_expr
                    if isinstance(ce, ast.Call):
                        for t in calls.callee(f, ce):
                            if t.kind == "func" and t.func in cm_ok:
                                if is_contextmanager(t.func) and cm_ok[t.func]:
                                    r.ok(site(f, n), "with %s: wrapper paired by its own check" % t.func.name)
                                else:
                                    r.fail("%s|with:%s" % (f.qual, t.func.qual), site(f, n),
                                           "with-statement over %s which is not a balanced context manager" % t.func.qual)
    # calling a pairing wrapper without `with` leaves the generator un-entered: flag direct calls
    for f in prog.funcs.values():
        for (_n, call, tg) in calls.calls_in(f):
            for t in tg:
                if t.kind == "func" and t.func in cm_ok and is_contextmanager(t.func):
                    in_with = any(isinstance(w, ast.With) and any(i.context_expr is call for i in w.items)
                                  for w in walk_body(f))
                    if not in_with:
                        # `cm = resolver.resolving(ref)` ... `with cm as x:` -- the manager is made in one place and entered in
                        # another: fine when the local holds nothing but such managers and is used for nothing but a with item
                        holder = [n for n in walk_body(f) if isinstance(n, ast.Assign) and n.value is call and len(n.targets) == 1 and isinstance(n.targets[0], ast.Name)]
                        if holder:
                            name = holder[0].targets[0].id
                            loads = [n for n in walk_body(f) if isinstance(n, ast.Name) and n.id == name and isinstance(n.ctx, ast.Load)]
                            withs = [i.context_expr for w in walk_body(f) if isinstance(w, ast.With) for i in w.items]
                            defs = [n.value for n in walk_body(f) if isinstance(n, ast.Assign) and any(isinstance(t2, ast.Name) and t2.id == name for t2 in n.targets)]

                            def is_cm_call(v):
                                return isinstance(v, ast.Call) and any(t2.kind == "func" and t2.func in cm_ok and is_contextmanager(t2.func) for t2 in calls.callee(f, v))
                            if loads and all(any(l is w for w in withs) for l in loads) and all(is_cm_call(d) for d in defs):
                                in_with = True
                    if not in_with:
                        r.fail("%s|bare-call:%s" % (f.qual, t.func.qual), site(f, call),
                               "context manager %s called outside a with statement" % t.func.name)
    return r


def rule_who_writes_stack(ctx, rid="R7.2w"):
    prog = ctx.prog
    eff = effects_of(prog)
    r = ctx.rule(rid, "only __init__, push_scope and pop_scope write RefResolver._scopes_stack", floor=3)
    allowed = {"validators.RefResolver.__init__", "validators.RefResolver.push_scope", "validators.RefResolver.pop_scope"}
    for f in prog.funcs.values():
        for w in eff.direct_writes(f):
            for t in w.locs:
                if t[0] == "FLD" and t[1] == "RefResolver" and t[2] == "_scopes_stack":
                    if f.qual in allowed:
                        r.ok(site(f, w.node), "%s (%s)" % (w.text, w.how))
                    else:
                        r.fail("%s|%s" % (f.qual, w.text), site(f, w.node),
                               "scope stack written outside push_scope/pop_scope: %s" % w.text)
    # shape of push/pop themselves
    push, pop = push_pop_funcs(prog)
    pw = [w for w in eff.direct_writes(push) if any(t[:3] == ("FLD", "RefResolver", "_scopes_stack") for t in w.locs)]
    if len(pw) != 1 or pw[0].how != "mutator:append":
        r.fail("push_scope|shape", site(push), "push_scope must append exactly once to the scope stack; found %s" % [w.how for w in pw])
    qw = [w for w in eff.direct_writes(pop) if any(t[:3] == ("FLD", "RefResolver", "_scopes_stack") for t in w.locs)]
    if len(qw) != 1 or qw[0].how != "mutator:pop" or (qw[0].node.args if isinstance(qw[0].node, ast.Call) else True):
        r.fail("pop_scope|shape", site(pop), "pop_scope must pop exactly the top of the scope stack; found %s" % [w.text for w in qw])
    return r


def _is_current_scope(prog, calls, f, e):
    """e denotes the top of the scope stack of f's self."""
    if isinstance(e, ast.Attribute) and calls.type_of(f, e.value) == "RefResolver":
        m = calls.method("RefResolver", e.attr)
        if m is not None and any(norm(d) == "property" for d in m.decorators):
            rets = [n.value for n in walk_body(m) if isinstance(n, ast.Return)]
            return len(rets) == 1 and _is_stack_top(calls, m, rets[0])
    return _is_stack_top(calls, f, e)


def _is_stack_top(calls, f, e):
    return (isinstance(e, ast.Subscript) and isinstance(e.value, ast.Attribute) and e.value.attr == "_scopes_stack"
            and calls.type_of(f, e.value.value) == "RefResolver"
            and isinstance(e.slice, ast.UnaryOp) and isinstance(e.slice.op, ast.USub)
            and isinstance(e.slice.operand, ast.Constant) and e.slice.operand.value == 1)


def _join_calls(calls, f):
    out = []
    for (_n, call, tg) in calls.calls_in(f):
        if any(t.kind == "ext" and t.name.endswith("urljoin") for t in tg):
            out.append(call)
    return out


def rule_join_current_scope(ctx, rid="R2.4"):
    prog = ctx.prog
    calls = calls_of(prog)
    r = ctx.rule(rid, "references and sub-scopes are joined against the current top of the scope stack", floor=2)
    resolve = find_method(prog, "validators.RefResolver", "resolve")
    push = find_method(prog, "validators.RefResolver", "push_scope")
    from .ressem import retrieval_eval
    if "_ressem" not in ctx.extra:
        ctx.extra["_ressem"] = retrieval_eval(prog) or False
    sem = ctx.extra["_ressem"]
    if sem and "raises" not in sem and "join" in sem:
        # decided by resolving the same relative reference under two scopes inside the definitional interpreter
        if sem["join"] is None:
            r.ok(site(resolve), "resolve(ref) = (urljoin(scope in force, ref), what that URL designates), before and after a push_scope")
            r.ok(site(push), "push_scope joins the sub-scope to the scope in force; pop_scope restores the stack")
        else:
            r.fail("%s|return:join" % resolve.qual, site(resolve), sem["join"])
        return r
    for f, pname_idx, what in ((resolve, 1, "reference"), (push, 1, "scope")):
        joins = _join_calls(calls, f)
        if len(joins) != 1:
            r.fail("%s|join-count" % f.qual, site(f), "expected exactly one URI join in %s, found %d" % (f.name, len(joins)))
            continue
        j = joins[0]
        if len(j.args) < 2:
            r.fail("%s|join-args" % f.qual, site(f, j), "join call without two positional arguments: %s" % norm(j))
            continue
        a0, a1 = j.args[0], j.args[1]
        param = f.params[pname_idx] if len(f.params) > pname_idx else None
        ok0 = _is_current_scope(prog, calls, f, a0)
        ok1 = isinstance(a1, ast.Name) and a1.id == param
        if ok0 and ok1:
            r.ok(site(f, j), "join(%s, %s): base is the top of the stack, second operand is the %s parameter" % (norm(a0), norm(a1), what))
        else:
            r.fail("%s|join:%s" % (f.qual, norm(j)), site(f, j),
                   "URI join does not combine the current scope with the %s parameter: %s" % (what, norm(j)))
    # push_scope appends exactly the join
    for n in walk_body(push):
        if isinstance(n, ast.Call) and isinstance(n.func, ast.Attribute) and n.func.attr == "append":
            joins = _join_calls(calls, push)
            arg = n.args[0] if n.args else None
            if joins and arg is joins[0]:
                r.ok(site(push, n), "appends the joined scope")
            else:
                # allow a local holding the join
                if isinstance(arg, ast.Name) and joins:
                    defs = [x for x in walk_body(push) if isinstance(x, ast.Assign) and any(
                        isinstance(t, ast.Name) and t.id == arg.id for t in x.targets)]
                    if len(defs) == 1 and defs[0].value is joins[0]:
                        r.ok(site(push, n), "appends the joined scope (via local)")
                        continue
                r.fail("%s|append:%s" % (push.qual, norm(arg)), site(push, n),
                       "push_scope appends %s, not the join of the current scope with its argument" % norm(arg))
    # resolve returns (joined url, cache(joined url))
    rets = [n for n in walk_body(resolve) if isinstance(n, ast.Return)]
    joins = _join_calls(calls, resolve)
    if len(rets) == 1 and joins:
        v = rets[0].value
        url_names = set()
        for x in walk_body(resolve):
            if isinstance(x, ast.Assign) and x.value is joins[0]:
                url_names |= {t.id for t in x.targets if isinstance(t, ast.Name)}
        ok = False
        if isinstance(v, ast.Tuple) and len(v.elts) == 2:
            e0, e1 = v.elts
            first = (isinstance(e0, ast.Name) and e0.id in url_names) or e0 is joins[0]
            second = False
            if isinstance(e1, ast.Call) and len(e1.args) == 1:
                tg = calls.callee(resolve, e1)
                tgt_ok = any(t.kind == "func" and t.func.name == "resolve_from_url" for t in tg)
                arg = e1.args[0]
                second = tgt_ok and isinstance(arg, ast.Name) and arg.id in url_names
            ok = first and second
        if ok:
            r.ok(site(resolve, rets[0]), "returns (joined url, resolve_from_url(joined url) through the cache)")
        else:
            r.fail("%s|return:%s" % (resolve.qual, norm(v)), site(resolve, rets[0]),
                   "resolve must return the joined URL and what the URL cache gives for that same URL: %s" % norm(v))
    else:
        r.fail("%s|return-shape" % resolve.qual, site(resolve), "resolve has %d return statements" % len(rets))
    return r


def rule_push_target_scope(ctx, rid="R2.3"):
    """In every function that resolves a reference and then pushes: the pushed scope is the URL component
    of that resolution, and resolution happens before the push."""
    prog = ctx.prog
    calls = calls_of(prog)
    push, _pop = push_pop_funcs(prog)
    resolve = find_method(prog, "validators.RefResolver", "resolve")
    r = ctx.rule(rid, "the scope entered for a reference is the URL its resolution returned; resolution precedes the push", floor=2)
    for f in sorted(prog.funcs.values(), key=lambda x: x.qual):
        if f is resolve:
            continue
        rcalls = [c for (_n, c, tg) in calls.calls_in(f) if any(t.kind == "func" and t.func is resolve for t in tg)]
        pcalls = [c for (_n, c, tg) in calls.calls_in(f) if any(t.kind == "func" and t.func is push for t in tg)]
        if not rcalls or not pcalls:
            continue
        cfg = cfg_of(f)
        rd = reaching_defs(cfg)
        for n in cfg.live:
            for (call, tg) in calls_at(calls, f, n):
                if call not in pcalls:
                    continue
                arg = call.args[0] if call.args else None
                if not isinstance(arg, ast.Name):
                    r.fail("%s|push-arg:%s" % (f.qual, norm(arg)), site(f, call), "pushed scope is not a plain local: %s" % norm(arg))
                    continue
                defs = rd[n.id].get(arg.id, frozenset())
                good = bool(defs)
                for d in defs:
                    dn = cfg.nodes[d]
                    a = dn.ast
                    ok = False
                    if dn.kind == "stmt" and isinstance(a, ast.Assign) and a.value in rcalls:
                        t = a.targets[0]
                        if isinstance(t, (ast.Tuple, ast.List)) and len(t.elts) == 2 and isinstance(t.elts[0], ast.Name) \
                                and t.elts[0].id == arg.id:
                            ok = True
                    good = good and ok
                if good:
                    r.ok(site(f, call), "push_scope(%s): %s is the first component of resolve(...)" % (arg.id, arg.id))
                else:
                    r.fail("%s|push-arg:%s" % (f.qual, norm(arg)), site(f, call),
                           "pushed scope %s is not the URL component returned by resolve()" % arg.id)
    return r


def memo_sites(prog):
    """Every application of functools.lru_cache / functools.cache in the package: (function, site node, wrapped expr or def)."""
    calls = calls_of(prog)
    out = []

    def is_memo(fn_expr, f):
        if isinstance(fn_expr, ast.Call):
            fn_expr = fn_expr.func
        nm = norm(fn_expr)
        return nm.split(".")[-1] in ("lru_cache", "cache", "cached_property")
    for f in sorted(prog.funcs.values(), key=lambda x: x.qual):
        for d in getattr(f.node, "decorator_list", []):
            if is_memo(d, f):
                out.append((f, d, f))
        for n in walk_body(f):
            if isinstance(n, ast.Call) and isinstance(n.func, ast.Call) and is_memo(n.func, f) and len(n.args) == 1:
                out.append((f, n, n.args[0]))
            elif isinstance(n, ast.Call) and isinstance(n.func, (ast.Name, ast.Attribute)) and norm(n.func).split(".")[-1] == "cache" and len(n.args) == 1 \
                    and not isinstance(n.func, ast.Attribute):
                out.append((f, n, n.args[0]))
    for m in prog.mods.values():
        for st in m.tree.body:
            for n in ast.walk(st) if not isinstance(st, (ast.FunctionDef, ast.ClassDef)) else []:
                if isinstance(n, ast.Call) and isinstance(n.func, ast.Call) and is_memo(n.func, None) and len(n.args) == 1:
                    out.append((None, n, n.args[0]))
    return out


def rule_memo_scope_free(ctx, rid="R7.6"):
    """A memoised callable answers from its arguments alone.  What a reference designates also depends on the resolution
    scope in force (the top of the stack that push_scope/pop_scope maintain), so nothing that reads that stack may sit behind
    a cache keyed by the reference text: the first scope's answer would be replayed in every other scope, and a validator
    that has been used would answer differently from a fresh one."""
    prog = ctx.prog
    calls = calls_of(prog)
    eff = effects_of(prog)
    r = ctx.rule(rid, "no memoised callable (lru_cache) reads the resolution-scope stack, directly or through callees", floor=2)
    push, pop = push_pop_funcs(prog)
    fields = set()
    for g in (push, pop):
        for w in eff.direct_writes(g):
            for t in w.locs:
                if t[0] == "FLD" and t[1] == "RefResolver":
                    fields.add(t[2])
    if not fields:
        raise AnalysisError("push_scope/pop_scope write no RefResolver field: scope state not found")
    for f, sitenode, wrapped in memo_sites(prog):
        where = site(f, sitenode) if f is not None else "jsonschema (module level) line %d" % sitenode.lineno
        targets = []
        if isinstance(wrapped, Func):
            targets = [wrapped]
        elif f is not None:
            fake = ast.Call(func=wrapped, args=[], keywords=[])
            ast.copy_location(fake, wrapped)
            tg = calls.callee(f, fake)
            targets = [t.func for t in tg if t.kind in ("func", "method") and t.func is not None]
            if not targets and any(t.kind in ("ext", "builtin") for t in tg):
                r.ok(where, "%s: library function of its arguments" % norm(wrapped)[:40])
                continue
        if not targets:
            r.ok(where, "%s: not a package function" % (norm(wrapped)[:40] if not isinstance(wrapped, Func) else wrapped.qual))
            continue
        bad = None
        for g in sorted(calls.reachable(targets), key=lambda x: x.qual):
            for n in walk_body(g):
                if isinstance(n, ast.Attribute) and n.attr in fields and isinstance(n.ctx, ast.Load) and calls.type_of(g, n.value) == "RefResolver":
                    bad = (g, n)
                    break
            if bad:
                break
        name = ",".join(t.qual for t in targets)
        if bad:
            r.fail("%s|memo-reads-scope|%s" % (f.qual if f else "module", name), where,
                   "%s is memoised by its arguments, but it reads the resolution scope (%s in %s): the answer computed in one scope is "
                   "replayed in every other scope" % (name, norm(bad[1]), bad[0].qual))
        else:
            r.ok(where, "%s: reads no scope state (%s)" % (name, ",".join(sorted(fields))))
    return r



def rule_lazy_inside_scope(ctx, rid="R2.8"):
    """An error iterator is lazy: the validation it stands for runs when it is iterated.  One that is created while a resolution
    scope is entered -- inside `with resolver.resolving(...)/in_scope(...)`, or between a push_scope and the pop in its `finally`
    -- must be iterated there too; iterated after the region it resolves every reference of the referenced document against
    the scope that was in force *outside*."""
    prog = ctx.prog
    calls = calls_of(prog)
    push, pop = push_pop_funcs(prog)
    r = ctx.rule(rid, "an error iterator created inside an entered resolution scope is consumed inside it (not returned, yielded whole or iterated later)", floor=1)

    def is_gen_call(f, e):
        return isinstance(e, ast.Call) and isinstance(e.func, ast.Attribute) and e.func.attr in ("descend", "iter_errors")

    def scope_region(f, node):
        """is `node` a with/try statement that enters a scope for its body?"""
        def enters(c, depth=0):
            if isinstance(c, ast.Call) and isinstance(c.func, ast.Attribute) and c.func.attr in ("resolving", "in_scope"):
                return True
            if isinstance(c, ast.Call):
                for t in calls.callee(f, c):
                    if t.kind == "func" and t.func is not None and is_contextmanager(t.func) and any(
                            any(t2.kind == "func" and t2.func is push for t2 in tg2) for (_n2, _c2, tg2) in calls.calls_in(t.func)):
                        return True
            if isinstance(c, ast.Name) and depth < 2:
                defs = [n.value for n in walk_body(f) if isinstance(n, ast.Assign) and any(isinstance(t2, ast.Name) and t2.id == c.id for t2 in n.targets)]
                return bool(defs) and all(enters(d, depth + 1) for d in defs)
            return False
        if isinstance(node, ast.With):
            for it in node.items:
                if enters(it.context_expr):
                    return True
        if isinstance(node, ast.Try) and node.finalbody:
            for x in node.finalbody:
                for sub in ast.walk(x):
                    if isinstance(sub, ast.Call) and any(t.kind == "func" and t.func is pop for t in calls.callee(f, sub)):
                        return True
        return False
    for f in sorted(prog.funcs.values(), key=lambda x: x.qual):
        parents = {}
        for st in f.body:
            for a in ast.walk(st):
                for ch in ast.iter_child_nodes(a):
                    parents[id(ch)] = a

        def regions(n):
            out, cur = [], parents.get(id(n))
            child = n
            while cur is not None:
                if scope_region(f, cur) and (child in getattr(cur, "body", [])):
                    out.append(cur)
                child, cur = cur, parents.get(id(cur))
            return out
        n_here = 0
        for n in walk_body(f):
            if isinstance(n, ast.Assign) and len(n.targets) == 1 and isinstance(n.targets[0], ast.Name) and is_gen_call(f, n.value):
                regs = regions(n)
                if not regs:
                    continue
                n_here += 1
                name = n.targets[0].id
                uses = [u for u in walk_body(f) if isinstance(u, ast.Name) and u.id == name and isinstance(u.ctx, ast.Load)]
                outside = [u for u in uses if not any(rg in regions(u) for rg in regs[:1])]
                if outside:
                    r.fail("%s|iterated-after-scope|%s" % (f.qual, name), site(f, outside[0]),
                           "`%s = %s` is created inside an entered scope but used after it (`%s`): the referenced document is validated with "
                           "the outer resolution scope, so its own relative references resolve against the wrong document" % (
                               name, norm(n.value)[:40], norm(parents.get(id(outside[0]), outside[0]))[:50]))
                else:
                    r.ok(site(f, n), "%s is consumed inside the region that entered the scope" % name)
            elif isinstance(n, ast.Return) and n.value is not None and is_gen_call(f, n.value) and regions(n):
                n_here += 1
                r.fail("%s|returned-from-scope" % f.qual, site(f, n), "`%s` hands an unconsumed error iterator out of the region that entered the scope" % norm(n)[:60])
            elif isinstance(n, (ast.For,)) and is_gen_call(f, n.iter) and regions(n):
                n_here += 1
                r.ok(site(f, n), "iterated where it is created, inside the entered scope")
            elif isinstance(n, ast.YieldFrom) and is_gen_call(f, n.value) and regions(n):
                n_here += 1
                r.ok(site(f, n), "yield from inside the entered scope")
    return r


def rule_no_parked_iterators(ctx, rid="R2.10"):
    """An error iterator (validator.descend / iter_errors) is a suspended computation: between two of its elements the scopes it
    entered for `$id`s and `$ref`s stay on the resolver's stack.  That is harmless while it is consumed last-in-first-out (a
    `for` over it whose body only yields).  It is not when the iterator is advanced a little (`next(it)`, a loop left by `break`)
    and then *put aside* -- stored, or kept in a local -- while another sub-validation runs: that one resolves its references against
    the scopes of the parked iterator.  Necessary condition, decided per function on the CFG."""
    prog = ctx.prog
    calls = calls_of(prog)
    r = ctx.rule(rid, "no error iterator is left half-consumed while another sub-validation runs, nor put aside half-consumed "
                      "(the scopes it entered would still be in force)", floor=20)
    reach = set(calls.reachable(calls.validation_roots()))
    GEN = ("descend", "iter_errors")
    EAGER = ("is_valid", "validate")
    WRAP = ("iter", "map", "filter", "enumerate", "zip", "reversed")
    DRAIN = ("list", "tuple", "sorted", "set", "frozenset", "max", "min", "sum", "dict")

    def is_err_iter(e, names):
        if isinstance(e, ast.Name):
            return e.id in names
        if isinstance(e, ast.Call):
            fn = e.func
            if isinstance(fn, ast.Attribute) and fn.attr in GEN:
                return True
            last = norm(fn).split(".")[-1]
            if last in WRAP or last in ("chain", "islice"):
                return any(is_err_iter(a, names) for a in e.args)
        if isinstance(e, ast.GeneratorExp):
            return any(is_err_iter(g.iter, names) for g in e.generators)
        return False

    for f in sorted(reach, key=lambda x: x.qual):
        if isinstance(f.node, ast.Lambda):
            continue
        names = set()
        changed = True
        while changed:
            changed = False
            for n in walk_body(f):
                if isinstance(n, ast.Assign) and len(n.targets) == 1 and isinstance(n.targets[0], ast.Name) and n.targets[0].id not in names \
                        and is_err_iter(n.value, names):
                    names.add(n.targets[0].id)
                    changed = True
        cfg = cfg_of(f)
        adv, drain, esc, other = {}, {}, {}, {}
        for n in cfg.live:
            a, d, s, o = set(), set(), set(), []
            if n.kind == "for":
                it = n.ast.iter
                if isinstance(it, ast.Name) and it.id in names:
                    a.add(it.id)
                elif is_err_iter(it, names):
                    o.append("a loop over `%s`" % norm(it)[:40])
            for e in node_exprs(n):
                if n.kind == "for" and e is n.ast.iter:
                    continue
                for c in walk_expr(e):
                    if isinstance(c, ast.Call):
                        last = norm(c.func).split(".")[-1]
                        argn = [x.id for x in c.args if isinstance(x, ast.Name) and x.id in names]
                        if last == "next" and c.args:
                            if isinstance(c.args[0], ast.Name) and c.args[0].id in names:
                                a.add(c.args[0].id)
                            elif is_err_iter(c.args[0], names) and not isinstance(c.args[0], ast.Name):
                                pass        # next(<temporary>): the temporary is dropped, hence closed, at once
                        elif last == "islice" and argn:
                            a.update(argn)
                        elif last in DRAIN or (isinstance(c.func, ast.Attribute) and c.func.attr == "extend"):
                            d.update(argn)
                            if any(is_err_iter(x, names) and not isinstance(x, ast.Name) for x in c.args):
                                o.append("`%s`" % norm(c)[:40])
                        elif isinstance(c.func, ast.Attribute) and c.func.attr == "close" and isinstance(c.func.value, ast.Name) and c.func.value.id in names:
                            d.add(c.func.value.id)
                        elif isinstance(c.func, ast.Attribute) and c.func.attr in ("append", "add", "insert", "setdefault", "appendleft"):
                            for x in c.args:
                                s.update(y.id for y in ast.walk(x) if isinstance(y, ast.Name) and y.id in names)
                        if isinstance(c.func, ast.Attribute) and c.func.attr in EAGER:
                            o.append("`%s`" % norm(c)[:40])
                    elif isinstance(c, ast.YieldFrom):
                        if isinstance(c.value, ast.Name) and c.value.id in names:
                            d.add(c.value.id)
                    elif isinstance(c, (ast.List, ast.Tuple, ast.Set, ast.Dict)) and not (n.kind == "stmt" and isinstance(n.ast, ast.Assign) and c in n.ast.targets):
                        s.update(y.id for y in ast.walk(c) if isinstance(y, ast.Name) and y.id in names and isinstance(y.ctx, ast.Load))
            if n.kind == "stmt" and isinstance(n.ast, ast.Assign):
                for t in n.ast.targets:
                    if isinstance(t, ast.Name) and t.id in names:
                        d.add(t.id)         # re-bound: the old iterator is dropped (closed) unless it was put aside before
                    if isinstance(t, (ast.Attribute, ast.Subscript)) and isinstance(n.ast.value, ast.Name) and n.ast.value.id in names:
                        s.add(n.ast.value.id)
            if n.kind in ("return", "yield") and getattr(n.ast, "value", None) is not None:
                v = n.ast.value.value if isinstance(n.ast.value, (ast.Yield,)) else n.ast.value
                if v is not None and not isinstance(n.ast.value, ast.YieldFrom):
                    s.update(y.id for y in ast.walk(v) if isinstance(y, ast.Name) and y.id in names)
            adv[n.id], drain[n.id], esc[n.id], other[n.id] = a, d, s, o
        found = False
        for n in cfg.live:
            for name in sorted(adv[n.id]):
                start = [y for (l, y) in n.succ if l != "exc" and (n.kind != "for" or l == "iter")]
                seen, todo = set(), list(start)
                while todo and not found:
                    m = todo.pop()
                    if m.id in seen or m is n and n.kind == "for":
                        continue
                    seen.add(m.id)
                    if name in esc[m.id]:
                        r.fail("%s|parked-iterator|%s" % (f.qual, name), site(f, m.ast),
                               "`%s` is an error iterator that has been advanced (%s) and is then put aside (`%s`) still suspended: the scopes it entered "
                               "stay on the resolver's stack, and whatever is validated before it is resumed resolves its references against them" % (
                                   name, norm(n.ast)[:40] if n.ast is not None else "next", norm(m.ast)[:50] if m.ast is not None else ""))
                        found = True
                        break
                    if other[m.id] and not (name in drain[m.id]):
                        r.fail("%s|interleaved-iterator|%s" % (f.qual, name), site(f, m.ast),
                               "while the error iterator `%s` is half-consumed, %s starts another sub-validation: it runs with the scopes `%s` entered still in force" % (
                                   name, other[m.id][0], name))
                        found = True
                        break
                    if name in drain[m.id]:
                        continue
                    todo.extend(y for (l, y) in m.succ if l != "exc")
                if found:
                    break
            if found:
                break
        if not found:
            r.ok(site(f), "%s" % ("error iterators %s: consumed where they are advanced" % sorted(names) if names else "no error iterator is bound to a name"))
    return r


def rule_scope_entered(ctx, rid="R2.12"):
    """The id of a schema object is the base of the references inside it: iter_errors enters it around that schema's keywords -- for
    every schema that has one, the validator's own root schema included (the resolver it was handed may have any base) -- and leaves
    it again, also when a keyword function raises.  Decided on the class create() builds inside sa/tokeval.py."""
    from .c02 import _valsem, dispatcher
    prog = ctx.prog
    r = ctx.rule(rid, "iter_errors enters a schema's id around its keywords (the root schema's too) and nothing for a schema without id", floor=1)
    disp = dispatcher(prog)
    sem = _valsem(ctx, "dispatch_eval")
    if sem is None:
        r.ok(site(disp), "NOT DECIDED: the dispatcher is outside the evaluated fragment (pairing and sibling rules apply)")
        r.note(site(disp), "%s not decided" % rid)
    elif sem.get("scope", sem.get("raises")) is None:
        r.ok(site(disp), "push(id), keywords, pop for a subschema and for the validator's own schema, on first and repeated calls; nothing without an id; popped when a keyword raises")
    else:
        r.fail("%s|scope-entered|semantic" % disp.qual, site(disp), sem.get("scope") or sem.get("raises"))
    return r


def rule_who_raises_ref_error(ctx, rid="R2.13"):
    """RefResolutionError is the one documented way for a valid schema to end in an exception: "a reference cannot be resolved".  It
    is raised where a retrieval failed (resolve_from_url), where a pointer designates nothing (resolve_fragment) and where pop_scope
    finds nothing to pop -- and nowhere else: a depth limit, a guard or a cache that raises it would turn candidates and instances the
    drafts accept into errors that callers are told to expect."""
    prog = ctx.prog
    calls = calls_of(prog)
    R = prog.cls("validators.RefResolver")
    allowed = {R.methods[m] for m in ("resolve_from_url", "resolve_fragment", "pop_scope") if m in R.methods}
    allowed = calls.with_private_helpers(allowed) | {x for f in list(allowed) for x in f.nested.values() if isinstance(x, Func)}
    r = ctx.rule(rid, "RefResolutionError is raised only by the retrieval wrapper, the pointer walk and pop_scope on an empty stack", floor=3)
    n = 0
    for f in sorted(prog.funcs.values(), key=lambda x: x.qual):
        if f.mod.name in ("cli",):
            continue
        for node in walk_body(f):
            if isinstance(node, ast.Raise) and node.exc is not None and "RefResolutionError" in norm(node.exc):
                n += 1
                if f in allowed:
                    r.ok(site(f, node), "%s" % norm(node.exc)[:60])
                else:
                    r.fail("%s|raises-ref-error" % f.qual, site(f, node),
                           "%s raises RefResolutionError (`%s`) although no reference failed to resolve there: callers treat this exception as "
                           "\"the schema's reference is broken\"" % (f.qual, norm(node.exc)[:50]))
    return r


def rule_custom_scheme_refs(ctx, rid="R2.15"):
    """`$ref` is transparent also inside documents a handler delivers under its own scheme: the references written there are joined to
    that document's URL.  Decided by sa/rules/ressem.py custom_scheme_eval (the package's resolver, urllib.parse.urljoin itself)."""
    prog = ctx.prog
    resolve = find_method(prog, "validators.RefResolver", "resolve")
    r = ctx.rule(rid, "references inside a document under a handler's own scheme (or urn:) resolve against that document, with the default caches and "
                      "with a supplied urljoin alike", floor=4)
    from .ressem import custom_scheme_eval
    try:
        sem = custom_scheme_eval(prog)
    except RecursionError:
        sem = None
    if sem is None:
        for _i in range(4):
            r.ok(site(resolve), "NOT DECIDED: the resolver's construction or resolve() is outside the evaluated fragment")
        r.note(site(resolve), "%s not decided" % rid)
        return r
    if "raises" in sem:
        r.fail("%s|custom-scheme|raises" % resolve.qual, site(resolve), "on the custom-scheme scenarios the resolver %s" % sem["raises"])
        return r
    for clause in ("fragment-only", "relative-path", "urn-fragment", "caches-agree"):
        if sem.get(clause):
            r.fail("%s|custom-scheme|%s" % (resolve.qual, clause), site(resolve), sem[clause])
        else:
            r.ok(site(resolve) + " [%s]" % clause, "resolved against the document it is written in")
    return r


def rule_ordinary_join(ctx, rid="R2.19"):
    """A relative reference stays relative whatever it contains after its first segment: decided by sa/rules/ressem.py join_eval (the
    package's resolver and urllib.parse.urljoin itself, eleven references under one http base, every target in the store)."""
    prog = ctx.prog
    resolve = find_method(prog, "validators.RefResolver", "resolve")
    r = ctx.rule(rid, "under an ordinary base every spelling of a reference (colon in a later segment or in the fragment, ./, ../, /rooted, //host, "
                      "absolute, urn:) resolves to the RFC 3986 target, out of the store, without retrieval", floor=11)
    from .ressem import join_eval
    try:
        sem = join_eval(prog)
    except RecursionError:
        sem = None
    if sem is None:
        for _i in range(11):
            r.ok(site(resolve), "NOT DECIDED: the resolver's construction or resolve() is outside the evaluated fragment")
        r.note(site(resolve), "%s not decided" % rid)
        return r
    if "raises" in sem:
        r.fail("%s|join|raises" % resolve.qual, site(resolve), "on the join table the resolver %s" % sem["raises"])
        return r
    for label, msg in sem.items():
        if msg:
            r.fail("%s|join|%s" % (resolve.qual, label), site(resolve), msg)
        else:
            r.ok(site(resolve) + " [%s]" % label, "resolved to the RFC 3986 target, from the store")
    return r


def _address_key_sites(fnode, local_id=False):
    """id(x) calls in a function body whose statement does not also keep x itself -> [(call node, text of x)]"""
    if local_id:
        return []
    parents = {}
    for n in ast.walk(fnode):
        for c in ast.iter_child_nodes(n):
            parents[c] = n
    found = []
    for n in ast.walk(fnode):
        if not (isinstance(n, ast.Call) and isinstance(n.func, ast.Name) and n.func.id == "id" and len(n.args) == 1 and not n.keywords):
            continue
        st = n
        prev = None
        while st in parents and not isinstance(st, ast.stmt):
            prev, st = st, parents[st]
        region = st
        if isinstance(st, (ast.If, ast.While)) and prev is not None and prev is st.test:
            region = st.test
        elif isinstance(st, (ast.For, ast.With, ast.Try, ast.FunctionDef, ast.ClassDef)) and prev is not None:
            region = prev
        inside = set()
        for c in ast.walk(region):
            if isinstance(c, ast.Call) and isinstance(c.func, ast.Name) and c.func.id == "id":
                for d in ast.walk(c):
                    inside.add(d)
        want = ast.dump(n.args[0])
        kept = any(isinstance(c, (ast.Name, ast.Attribute, ast.Subscript)) and c not in inside and ast.dump(c) == want and isinstance(getattr(c, "ctx", None), ast.Load)
                   for c in ast.walk(region))
        if not kept:
            found.append((n, norm(n.args[0])))
    return found


def rule_no_address_keys(ctx, rid, modules, what):
    """id(x) is the address of x: it names x only while x is alive.  A set or mapping keyed by id() of objects it does not itself keep
    (errors handed on to the caller, schemas of an earlier call) sooner or later meets the address of a dead object reused by a new
    one -- what is then found there belongs to something else, and whether that happens depends on what the consumer keeps alive
    (`list(errors)` vs. a streaming loop).  An id() whose own statement also stores the object (`memo[id(x)] = x`) is left alone."""
    prog = ctx.prog
    r = ctx.rule(rid, "no set or mapping is keyed by the address (`id()`) of an object it does not keep alive, in %s" % what, floor=20)
    probe = ast.parse("def f(e, seen, memo):\n    if id(e) not in seen:\n        seen.add(id(e))\n    memo[id(e)] = e\n").body[0]
    if [t for _n, t in _address_key_sites(probe)] != ["e", "e"]:
        raise RuntimeError("%s: the built-in positive example is not recognised any more" % rid)
    for f in sorted(prog.funcs.values(), key=lambda x: x.qual):
        if f.mod.name not in modules or isinstance(f.node, ast.Lambda):
            continue
        from .c03 import _bound_names
        sites = _address_key_sites(f.node, "id" in _bound_names(f))
        own = [(n, t) for n, t in sites if n in set(walk_body(f))]
        for n, t in own:
            r.fail("%s|address-key|id(%s)" % (f.qual, t[:30]), site(f, n),
                   "`id(%s)` is used as a key or compared while nothing in the statement keeps `%s` itself: once that object is freed its address is "
                   "handed to the next object of the same size, which is then taken for it" % (t[:40], t[:40]))
        if not own:
            r.ok(site(f), "no id() of an object that is not kept")
    return r


def rule_no_deferred_loop_closure(ctx, rid="R5.14"):
    """Python closes over variables, not values: a nested generator function (or generator expression / lambda) that reads a variable
    its enclosing function rebinds in a loop sees, when its body finally runs, the value of the *latest* round.  That is harmless when
    the lazy object is consumed in the round that made it; it is a defect when it is put aside (appended, stored, returned, yielded as an
    object) and run after the loop has moved on -- the dispatcher's `detailed(errors)` stamping each error with the last keyword."""
    prog = ctx.prog
    calls = calls_of(prog)
    reach = set(calls.reachable(calls.validation_roots()))
    r = ctx.rule(rid, "no lazy object (generator, generator expression, lambda) whose body reads a loop variable of the enclosing function is put aside "
                      "to run after the loop has moved on", floor=40)

    def free_reads(node):
        bound = set()
        if isinstance(node, (ast.FunctionDef, ast.Lambda)):
            a = node.args
            bound |= {x.arg for x in a.args + a.kwonlyargs + getattr(a, "posonlyargs", [])}
            if a.vararg:
                bound.add(a.vararg.arg)
            if a.kwarg:
                bound.add(a.kwarg.arg)
            # a default `k=k` binds the value of the round: that is the cure, not the disease
        if isinstance(node, ast.GeneratorExp):
            body = []
        else:
            body = node.body if isinstance(node.body, list) else [node.body]
        if isinstance(node, ast.GeneratorExp):
            body = [node.elt] + [x for g in node.generators[1:] for x in [g.iter]] + [i for g in node.generators for i in g.ifs]
            for g in node.generators:
                bound |= {n.id for n in ast.walk(g.target) if isinstance(n, ast.Name)}
        reads = set()
        for st in body:
            for n in ast.walk(st):
                if isinstance(n, ast.Name):
                    if isinstance(n.ctx, ast.Store):
                        bound.add(n.id)
                    else:
                        reads.add(n.id)
        return reads - bound

    for f in sorted(reach, key=lambda x: x.qual):
        if isinstance(f.node, ast.Lambda):
            continue
        loops = [n for n in walk_body(f) if isinstance(n, (ast.For, ast.While))]
        if not loops:
            r.ok(site(f), "no loop")
            continue
        loopvars = set()
        for lp in loops:
            if isinstance(lp, ast.For):
                loopvars |= {n.id for n in ast.walk(lp.target) if isinstance(n, ast.Name)}
            for st in lp.body:
                for n in ast.walk(st):
                    if isinstance(n, (ast.FunctionDef, ast.Lambda, ast.GeneratorExp, ast.ClassDef)):
                        continue
                    if isinstance(n, ast.Name) and isinstance(n.ctx, ast.Store):
                        loopvars.add(n.id)
        # lazy makers: nested generator functions reading a loop variable (wherever they are defined)
        makers = {}
        for name, g in f.nested.items():
            if isinstance(g, Func) and g.is_generator:
                fr = free_reads(g.node) & loopvars
                if fr:
                    makers[name] = fr
        in_loop_nodes = set()
        for lp in loops:
            for st in lp.body:
                for n in ast.walk(st):
                    in_loop_nodes.add(id(n))

        def lazy_expr(e, lazy_names):
            """names of the loop variables a lazily evaluated expression e will read, or None"""
            if isinstance(e, ast.Name) and e.id in lazy_names:
                return lazy_names[e.id]
            if isinstance(e, ast.Call) and isinstance(e.func, ast.Name) and e.func.id in makers:
                return makers[e.func.id]
            if isinstance(e, (ast.GeneratorExp, ast.Lambda)) and id(e) in in_loop_nodes:
                fr = free_reads(e) & loopvars
                if isinstance(e, ast.GeneratorExp):
                    # the first iterable is evaluated at once; only the rest is lazy
                    pass
                return fr or None
            return None
        lazy_names = {}
        for n in walk_body(f):
            if isinstance(n, ast.Assign) and len(n.targets) == 1 and isinstance(n.targets[0], ast.Name) and id(n) in in_loop_nodes:
                fr = lazy_expr(n.value, lazy_names)
                if fr:
                    lazy_names[n.targets[0].id] = fr
        bad = 0
        for n in walk_body(f):
            if id(n) not in in_loop_nodes:
                continue
            stored = None
            if isinstance(n, ast.Call) and isinstance(n.func, ast.Attribute) and n.func.attr in ("append", "appendleft", "add", "insert", "setdefault", "extend") and n.args:
                # extend(x) consumes x at once; append(x) keeps the object
                if n.func.attr != "extend":
                    stored = n.args[-1]
            elif isinstance(n, ast.Assign) and any(isinstance(t, (ast.Subscript, ast.Attribute)) for t in n.targets):
                stored = n.value
            elif isinstance(n, ast.Return) and n.value is not None:
                stored = n.value
            if stored is None:
                continue
            fr = lazy_expr(stored, lazy_names)
            if fr:
                bad += 1
                r.fail("%s|deferred-closure|%s" % (f.qual, ",".join(sorted(fr))), site(f, n),
                       "`%s` puts aside a lazy object whose body reads the loop variable(s) %s of %s: by the time it runs the loop has moved on and it "
                       "sees the values of a later round (errors stamped with another keyword, paths of another element)" % (norm(n)[:60], sorted(fr), f.qual))
        if not bad:
            r.ok(site(f), "%d loop(s); no lazy reader of their variables is put aside" % len(loops))
    return r


def _numeric_constant(prog, f, e, depth=0):
    """The number a comparison operand stands for when it is fixed in the source: a literal, a module- or class-level name bound
    once to one, an attribute of `sys` (float_info.min, maxsize, ...); else None."""
    if depth > 3:
        return None
    if isinstance(e, ast.Constant) and isinstance(e.value, (int, float)) and not isinstance(e.value, bool):
        return e.value
    if isinstance(e, ast.UnaryOp) and isinstance(e.op, ast.USub):
        v = _numeric_constant(prog, f, e.operand, depth + 1)
        return -v if isinstance(v, (int, float)) else v
    if isinstance(e, ast.BinOp) and isinstance(e.op, (ast.Pow, ast.Mult, ast.LShift)):
        l, r_ = _numeric_constant(prog, f, e.left, depth + 1), _numeric_constant(prog, f, e.right, depth + 1)
        if isinstance(l, (int, float)) and isinstance(r_, (int, float)):
            try:
                return {ast.Pow: lambda: l ** r_, ast.Mult: lambda: l * r_, ast.LShift: lambda: l << r_}[type(e.op)]()
            except Exception:
                return "big"
        return None
    if isinstance(e, ast.Attribute) and norm(e).startswith("sys."):
        return "sys"
    if isinstance(e, ast.Call) and norm(e.func).startswith("sys."):
        return "sys"
    if isinstance(e, ast.Name):
        from .c03 import _module_constant
        v = _module_constant(f, e.id)
        if v is not None:
            return _numeric_constant(prog, f, v, depth + 1)
        return None
    if isinstance(e, ast.Attribute) and isinstance(e.value, ast.Name) and e.value.id in ("self", "cls") or \
            (isinstance(e, ast.Attribute) and isinstance(e.value, ast.Name) and f.cls is not None and e.value.id == f.cls.name):
        c = f.cls
        while c is not None:
            if e.attr in c.attrs and isinstance(c.attrs[e.attr], ast.expr):
                return _numeric_constant(prog, f, c.attrs[e.attr], depth + 1)
            c = None
    return None


def rule_no_size_thresholds(ctx, rid, modules, what):
    """The properties quantify over instances, schemas, documents and histories of *every* size: code whose behaviour changes at a
    number fixed in the source -- a nesting depth of 64, a store of 1024 documents, 256 scopes, a length of 16, sys.float_info.min --
    decides differently on the two sides of that number, and no table of bounded scenarios reaches it.  Necessary condition: no comparison
    against a numeric constant of magnitude above 2 (written out, or named at module / class level, or taken from `sys`)."""
    prog = ctx.prog
    r = ctx.rule(rid, "no behaviour of %s changes at a size, depth, count or magnitude fixed in the source (no comparison with a numeric constant above 2)" % what, floor=10)
    for f in sorted(prog.funcs.values(), key=lambda x: x.qual):
        if f.mod.name not in modules:
            continue
        bad = 0
        n_cmp = 0
        for n in walk_body(f):
            if not isinstance(n, ast.Compare):
                continue
            n_cmp += 1
            sides = [n.left] + list(n.comparators)
            if any(w in norm(n) for w in ("version_info", "hexversion", "python_version", "api_version")):
                continue        # which interpreter runs the code is not an input of the property
            for sd in sides:
                v = _numeric_constant(prog, f, sd)
                if v is None:
                    continue
                if v in ("sys", "big") or (isinstance(v, (int, float)) and (abs(v) > 2 or (isinstance(v, float) and 0 < abs(v) < 1e-6))):
                    bad += 1
                    r.fail("%s|threshold|%s" % (f.qual, norm(sd)[:30]), site(f, n),
                           "`%s` in %s: the behaviour changes at the fixed number %s -- inputs on the other side of it (longer, deeper, more of them, smaller in "
                           "magnitude) are treated differently from the ones the tests and tables sample" % (norm(n)[:60], f.qual, norm(sd)[:30] if v in ("sys", "big") else v))
                    break
        if not bad:
            r.ok(site(f), "%d comparisons, none against a fixed number above 2" % n_cmp)
    return r


def rule_no_value_identity(ctx, rid, modules, what):
    """`is` / `is not` compares object identity.  Between *computed* values (two lengths, two strings, two numbers taken from the
    instance or the schema) its answer depends on what the interpreter happens to share -- small integers up to 256, interned strings --
    and not on the values: `len(a) is not len(b)` is false for 256 and true for 257.  Identity is meaningful only against None, True, False,
    a module-level marker object, a class, or the result of type()."""
    prog = ctx.prog
    r = ctx.rule(rid, "identity (`is`) is used only against None / True / False / a module-level marker or class, never between computed values, in %s" % what, floor=5)
    builtin_types = {"bool", "int", "float", "str", "list", "dict", "tuple", "set", "frozenset", "bytes", "type", "object", "Ellipsis", "NotImplemented"}
    for f in sorted(prog.funcs.values(), key=lambda x: x.qual):
        if f.mod.name not in modules:
            continue
        from .c03 import _bound_names
        local = _bound_names(f) if not isinstance(f.node, ast.Lambda) else set(f.all_params)
        g = f.outer
        while g is not None:
            if not isinstance(g.node, ast.Lambda):
                local |= _bound_names(g)
            g = g.outer

        def fixed_object(e):
            if isinstance(e, ast.Constant) and (e.value is None or e.value is True or e.value is False or e.value is Ellipsis):
                return True
            if isinstance(e, ast.Name) and e.id not in local:
                return True                  # a module-level name (marker object, class, function) or a builtin
            if isinstance(e, ast.Attribute) and isinstance(e.value, ast.Name) and e.value.id not in local:
                return True                  # module.NAME
            return False
        n_is = bad = 0
        for n in walk_body(f):
            if not isinstance(n, ast.Compare):
                continue
            operands = [n.left] + list(n.comparators)
            for i, op in enumerate(n.ops):
                if not isinstance(op, (ast.Is, ast.IsNot)):
                    continue
                n_is += 1
                a, b = operands[i], operands[i + 1]
                if fixed_object(a) or fixed_object(b):
                    continue
                if any(isinstance(x, ast.Call) and isinstance(x.func, ast.Name) and x.func.id == "type" for x in (a, b)):
                    continue            # type(x) is type(y) / kind is list: classes are singletons
                bad += 1
                r.fail("%s|value-identity|%s" % (f.qual, norm(n)[:40]), site(f, n),
                       "`%s` compares two computed values by identity: whether equal numbers or strings are one object is the interpreter's business "
                       "(integers up to 256 are shared, 257 is not)" % norm(n)[:60])
        if not bad:
            r.ok(site(f), "%d identity tests, each against a fixed object" % n_is)
    return r


def rule_scope_in_force(ctx, rid="R2.18"):
    """The scopes in force while a subschema's keywords run are that subschema's own: decided by running the class create() builds --
    the draft's own keyword functions plus a probe keyword -- inside sa/tokeval.py, whose generators are lazy (a branch's error
    iterator that is advanced once and put aside keeps the scopes it entered, exactly as in CPython).  Every applicator of every
    draft is handed three failing subschemas carrying ids of their own, over an array, an object and a number."""
    prog = ctx.prog
    disp = find_method(prog, "validators.create.Validator", "iter_errors") if "validators.create.Validator.iter_errors" in prog.funcs else None
    r = ctx.rule(rid, "while the keywords of a subschema run, the resolution scopes entered are exactly that subschema's own id (probe keyword through every "
                      "applicator of every draft; lazy generators)", floor=4)
    if "_scope_probe" not in ctx.extra:
        from .valsem import scope_probe_eval
        res = {}
        for d in sorted(prog.tables.drafts):
            try:
                res[d] = scope_probe_eval(prog, d)
            except RecursionError:
                res[d] = None
        ctx.extra["_scope_probe"] = res
    for d, got in sorted(ctx.extra["_scope_probe"].items()):
        where = "jsonschema/validators.py %s" % prog.tables.drafts[d].var
        if got is None:
            r.ok(where, "NOT DECIDED: outside the evaluated fragment")
            r.note(where, "%s not decided for %s" % (rid, d))
            continue
        out, n = got
        if not n:
            r.ok(where, "NOT DECIDED: no probe call was reached (the dispatcher is outside the evaluated fragment)")
            r.note(where, "%s not decided for %s" % (rid, d))
            continue
        bad = {k: v for k, v in out.items() if v}
        if not bad:
            r.ok(where, "%d probe calls under %d applicators: each saw exactly its own subschema's scope, none was left entered" % (n, len(out)))
        for k, v in sorted(bad.items()):
            f = prog.tables.drafts[d].table.get(k)
            r.fail("%s|scope-in-force|%s" % (f.qual if f is not None else d, k), site(f) if f is not None else where, v)
    return r


def rule_no_jump_in_finally(ctx, rid, modules, what):
    """`return`, `break` or `continue` inside a `finally` clause discards whatever exception is on its way out: an exception a custom
    format function raises outside its `raises`, an UnknownType, a RefResolutionError -- the caller sees an ordinary answer instead.
    (An `__exit__` that returns a true value does the same; the tables run the scenarios for that.)"""
    prog = ctx.prog
    r = ctx.rule(rid, "no `finally` clause of %s ends in return / break / continue (that would swallow the exception in flight)" % what, floor=1)
    n_fin = 0
    for f in sorted(prog.funcs.values(), key=lambda x: x.qual):
        if f.mod.name not in modules:
            continue
        for n in walk_body(f):
            if not isinstance(n, ast.Try) or not n.finalbody:
                continue
            n_fin += 1
            bad = None
            todo = list(n.finalbody)
            while todo:
                st = todo.pop()
                if isinstance(st, (ast.FunctionDef, ast.AsyncFunctionDef, ast.ClassDef, ast.Lambda)):
                    continue
                if isinstance(st, ast.Return):
                    bad = st
                    break
                if isinstance(st, (ast.Break, ast.Continue)):
                    bad = st
                    break
                for field in ("body", "orelse", "finalbody"):
                    sub = getattr(st, field, None)
                    if isinstance(sub, list):
                        # break/continue inside a loop that is itself inside the finally only leave that loop
                        if isinstance(st, (ast.For, ast.While)) and field == "body":
                            todo += [x for x in sub if not isinstance(x, (ast.Break, ast.Continue))]
                        else:
                            todo += sub
                for h in getattr(st, "handlers", []) or []:
                    todo += h.body
            if bad is None:
                r.ok(site(f, n), "finally: no jump out of it")
            else:
                r.fail("%s|jump-in-finally|%s" % (f.qual, type(bad).__name__.lower()), site(f, bad),
                       "`%s` inside a finally clause of %s: an exception on its way out of the try block is discarded and the caller gets an ordinary result" % (
                           norm(bad)[:40], f.qual))
    if not n_fin:
        r.ok("jsonschema/", "no finally clause")
    return r


def rule_first_error_path_lazy(ctx, rid="R11.18"):
    """is_valid(), validate() and check_schema() take the *first* error and stop: they are as cheap -- and as shallow -- as the way to
    the first error only while the chain that hands errors up (the dispatcher, descend, and `$ref`, through which every metaschema
    reaches itself) yields each error as it is produced.  Collecting a referent's errors before yielding any walks the whole
    subschema first: a candidate with an early mistake and a deep tail then ends in RecursionError instead of SchemaError."""
    prog = ctx.prog
    calls = calls_of(prog)
    V = calls.V
    r = ctx.rule(rid, "the dispatcher, descend and `$ref` hand each error on as it is produced (no draining of an error iterator before the first yield)", floor=3)
    funcs = [V.methods["iter_errors"], V.methods["descend"]]
    for d in prog.tables.drafts.values():
        f = d.table.get("$ref")
        if f is not None and f not in funcs:
            funcs.append(f)
    funcs = list(calls.with_private_helpers(set(funcs)))
    DRAIN = ("list", "tuple", "sorted", "set", "frozenset", "dict", "max", "min", "sum")
    GEN = ("descend", "iter_errors")
    for f in sorted(funcs, key=lambda x: x.qual):
        names = set()
        for n in walk_body(f):
            if isinstance(n, ast.Assign) and len(n.targets) == 1 and isinstance(n.targets[0], ast.Name) and isinstance(n.value, ast.Call) \
                    and isinstance(n.value.func, ast.Attribute) and n.value.func.attr in GEN:
                names.add(n.targets[0].id)

        def is_err_iter(e):
            return (isinstance(e, ast.Name) and e.id in names) or (isinstance(e, ast.Call) and isinstance(e.func, ast.Attribute) and e.func.attr in GEN) or \
                (isinstance(e, ast.BoolOp) and any(is_err_iter(v) for v in e.values))
        bad = 0
        for n in walk_body(f):
            hit = None
            if isinstance(n, ast.Call):
                last = norm(n.func).split(".")[-1]
                if (last in DRAIN or (isinstance(n.func, ast.Attribute) and n.func.attr in ("extend",))) and any(is_err_iter(a) for a in n.args):
                    hit = n
            elif isinstance(n, (ast.ListComp, ast.SetComp, ast.DictComp)) and any(is_err_iter(g.iter) for g in n.generators):
                hit = n
            elif isinstance(n, ast.For) and is_err_iter(n.iter):
                # a loop over the errors that stores them instead of yielding them
                ys = [x for st in n.body for x in ast.walk(st) if isinstance(x, (ast.Yield, ast.YieldFrom))]
                stores = [x for st in n.body for x in ast.walk(st) if isinstance(x, ast.Call) and isinstance(x.func, ast.Attribute) and x.func.attr in ("append", "add", "appendleft")]
                if stores and not ys:
                    hit = n
            if hit is not None:
                bad += 1
                r.fail("%s|drains|%s" % (f.qual, norm(hit)[:40]), site(f, hit),
                       "%s collects the errors of a sub-validation (`%s`) before handing any of them on: the first error is no longer reached by the shortest way "
                       "(is_valid / validate / check_schema walk the whole referent first)" % (f.qual, norm(hit)[:60]))
        if not bad:
            r.ok(site(f), "errors are yielded as they are produced")
    return r


_PROCESS_WIDE = {
    "sys.setrecursionlimit": "the interpreter's recursion limit", "sys.setswitchinterval": "the thread switch interval", "sys.settrace": "the trace function",
    "sys.setprofile": "the profile function", "os.chdir": "the working directory", "os.putenv": "the environment", "os.umask": "the umask",
    "locale.setlocale": "the locale", "random.seed": "the shared random generator", "signal.signal": "a signal handler", "socket.setdefaulttimeout": "the default socket timeout",
    "gc.disable": "the garbage collector", "gc.enable": "the garbage collector", "gc.set_threshold": "the garbage collector", "warnings.simplefilter": "the warning filters",
    "warnings.filterwarnings": "the warning filters", "warnings.resetwarnings": "the warning filters", "decimal.setcontext": "the decimal context",
    "threading.setprofile": "the profile function", "threading.settrace": "the trace function", "threading.stack_size": "the thread stack size",
    "importlib.invalidate_caches": "the import caches", "re.purge": "the regex cache",
}


def rule_no_process_wide_settings(ctx, rid="R18.10"):
    """Validators that share no resolver share nothing -- the interpreter's own settings included: code reachable from validation (or from
    building a validator) that changes a process-wide setting, even to put it back afterwards, couples every validation under way in the
    process (two suspended iterators restore each other's saved values in the wrong order)."""
    prog = ctx.prog
    calls = calls_of(prog)
    V = calls.V
    roots = list(calls.validation_roots()) + [V.methods[m] for m in ("__init__", "check_schema") if m in V.methods]
    rc = prog.classes.get("validators.RefResolver")
    if rc is not None:
        roots += [rc.methods[m] for m in ("__init__", "from_schema") if m in rc.methods]
    reach = set(calls.reachable(roots))
    r = ctx.rule(rid, "nothing reachable from validating or from building a validator changes a process-wide setting (recursion limit, warning filters, locale, cwd, ...)", floor=40)
    for f in sorted(reach, key=lambda x: x.qual):
        bad = 0
        in_catch = set()
        for n in walk_body(f):
            if isinstance(n, ast.With) and any(isinstance(it.context_expr, ast.Call) and norm(it.context_expr.func).endswith("catch_warnings") for it in n.items):
                for st in n.body:
                    for x in ast.walk(st):
                        in_catch.add(id(x))
        for n in walk_body(f):
            if not isinstance(n, ast.Call):
                continue
            name = None
            for t in calls.callee(f, n):
                if t.kind == "ext" and t.name in _PROCESS_WIDE:
                    name = t.name
            if name is None and norm(n.func) in _PROCESS_WIDE:
                name = norm(n.func)
            if name is None:
                continue
            if name.startswith("warnings.") and id(n) in in_catch:
                continue            # inside `with warnings.catch_warnings():` the filters are saved and restored around the block
            bad += 1
            r.fail("%s|process-wide|%s" % (f.qual, name), site(f, n),
                   "%s calls %s: %s belongs to the whole process, so validations under way in other validators (other threads, suspended iterators) are affected" % (
                       f.qual, name, _PROCESS_WIDE[name]))
        # stores into os.environ / sys.path / sys.modules
        for n in walk_body(f):
            tgt = None
            if isinstance(n, ast.Assign):
                tgt = n.targets[0]
            elif isinstance(n, ast.AugAssign):
                tgt = n.target
            if isinstance(tgt, ast.Subscript) and norm(tgt.value) in ("os.environ", "sys.modules"):
                bad += 1
                r.fail("%s|process-wide|%s" % (f.qual, norm(tgt.value)), site(f, n), "%s stores into %s" % (f.qual, norm(tgt.value)))
            if isinstance(n, ast.Call) and isinstance(n.func, ast.Attribute) and n.func.attr in ("append", "insert", "extend", "remove", "pop") and norm(n.func.value) in ("sys.path", "sys.meta_path"):
                bad += 1
                r.fail("%s|process-wide|%s" % (f.qual, norm(n.func.value)), site(f, n), "%s changes %s" % (f.qual, norm(n.func.value)))
        if not bad:
            r.ok(site(f), "no process-wide setting touched")
    return r
