"""C01 - verdicts agree with the specification (partial: necessary structural conditions)."""
import ast

from ..prog import norm, walk_body, walk_local, AnalysisError, Func, DRAFTS
from ..cfg import cfg_of, node_exprs, walk_expr, reaching_defs
from ..calls import calls_of
from ..effects import effects_of
from ..prov import Prov, show
from .. import spec
from ..report import site
from . import tables
from .c06 import descend_sites


# --------------------------------------------------------------------------- R1.2
def is_type_test(calls, f, e, ip, consts=None):
    """'T' if e is <validator>.is_type(<ip>, "T") -- the type name a constant, or a parameter bound to a constant at the
    (only) call site that is being followed (`consts`)."""
    if isinstance(e, ast.Call) and isinstance(e.func, ast.Attribute) and e.func.attr == "is_type" and len(e.args) == 2 \
            and isinstance(e.args[0], ast.Name) and e.args[0].id == ip \
            and calls.type_of(f, e.func.value) == "Validator":
        if isinstance(e.args[1], ast.Constant):
            return e.args[1].value
        if consts and isinstance(e.args[1], ast.Name) and e.args[1].id in consts:
            return consts[e.args[1].id]
    return None


def _helper_binding(calls, f, node, ip):
    """If CFG node `node` of f hands the instance to one package helper (plain function), return (helper, its parameter for
    the instance, {parameter: constant string argument}, the call)."""
    for e in node_exprs(node):
        for c in walk_expr(e):
            if not isinstance(c, ast.Call):
                continue
            if not any(isinstance(a, ast.Name) and a.id == ip for a in c.args):
                continue
            tg = [t for t in calls.callee(f, c) if t.kind == "func" and t.func is not None and t.func.cls is None]
            if len(tg) != 1:
                continue
            g = tg[0].func
            gp = g.params
            sub, consts = None, {}
            for i, a in enumerate(c.args):
                if i >= len(gp):
                    break
                if isinstance(a, ast.Name) and a.id == ip:
                    sub = gp[i]
                elif isinstance(a, ast.Constant) and isinstance(a.value, str):
                    consts[gp[i]] = a.value
            if sub is not None:
                return g, sub, consts, c
    return None


def ungated_node(prog, calls, f, ip, T, consts=None, depth=0):
    """(bad node or None, number of right gates, wrong gates) for: every use of the instance / yield / descent in f is behind
    is_type(instance, T).  A node that only hands the instance on to a package helper is judged by the helper's own gate."""
    cfg = cfg_of(f)
    gates = [(n, is_type_test(calls, f, n.ast, ip, consts)) for n in cfg.live if n.kind == "test" and is_type_test(calls, f, n.ast, ip, consts)]
    right = [(n, t) for (n, t) in gates if t == T]
    wrong = [(n, t) for (n, t) in gates if t != T]
    gset = {n.id for (n, _t) in right}
    bad = None
    delegated = 0
    # `for error in _helper(validator, instance, ...): yield error`: what is yielded there was produced behind the helper's own gate
    forwarded = set()
    for n in cfg.live:
        if n.kind == "for" and isinstance(n.ast.target, ast.Name) and depth < 3:
            hb = _helper_binding(calls, f, n, ip)
            if hb is not None and hb[0].is_generator:
                sb, sright, swrong = ungated_node(prog, calls, hb[0], hb[1], T, hb[2], depth + 1)
                if sb is None and sright and not swrong:
                    forwarded.add(n.ast.target.id)
    seen_n, todo = set(), [cfg.entry]
    while todo and bad is None:
        n = todo.pop()
        if n.id in seen_n:
            continue
        seen_n.add(n.id)
        if n.kind == "yield" and isinstance(getattr(n.ast, "value", None), ast.Yield) and isinstance(n.ast.value.value, ast.Name) \
                and n.ast.value.value.id in forwarded:
            pass
        elif n.id not in gset:
            uses = any(isinstance(x, ast.Name) and x.id == ip for e in node_exprs(n) for x in walk_expr(e))
            effect = n.kind == "yield" or any(
                isinstance(c, ast.Call) and isinstance(c.func, ast.Attribute) and c.func.attr in ("descend", "is_valid", "iter_errors")
                for e in node_exprs(n) for c in walk_expr(e))
            if uses or effect:
                hb = _helper_binding(calls, f, n, ip) if depth < 3 else None
                if hb is not None:
                    g, sub, cs, call = hb
                    others = [x for e in node_exprs(n) for x in walk_expr(e) if isinstance(x, ast.Name) and x.id == ip
                              and not any(x is a for a in call.args)]
                    sb, sright, swrong = ungated_node(prog, calls, g, sub, T, cs, depth + 1)
                    if sb is None and sright and not swrong and not others:
                        delegated += 1
                    else:
                        bad = n
                        break
                else:
                    bad = n
                    break
        for (l, t) in n.succ:
            if n.id in gset and l == "true":
                continue
            todo.append(t)
    return bad, len(right) + delegated, wrong


def rule_type_gate(ctx, rid="R1.2"):
    prog = ctx.prog
    calls = calls_of(prog)
    r = ctx.rule(rid, "a keyword restricted to one JSON type touches the instance, descends or reports only behind is_type(instance, <that type>); "
                      "unrestricted keywords have no constant instance-type gate", floor=40)
    seen = set()
    for d in DRAFTS:
        for k, f in sorted(prog.tables.drafts[d].table.items()):
            T = spec.APPLIES_TO.get(k, "?")
            if (f, T) in seen:
                continue
            seen.add((f, T))
            if T == "?":
                continue    # not a keyword of any draft: R1.1 reports it
            cfg = cfg_of(f)
            ip = calls.param_with_role(f, "instance")
            gates = [(n, is_type_test(calls, f, n.ast, ip)) for n in cfg.live if n.kind == "test" and is_type_test(calls, f, n.ast, ip)]
            where = "%s [%s]" % (site(f), k)
            if T is not None:
                bad, nright, wrong = ungated_node(prog, calls, f, ip, T)
                for (n, t) in wrong:
                    r.fail("%s|%s|wrong-gate|%s" % (f.qual, k, t), site(f, n.ast), "keyword %r applies to %s, gate tests %r" % (k, T, t))
                if bad is not None:
                    r.fail("%s|%s|ungated|%s" % (f.qual, k, bad.text[:50]), site(f, bad.ast),
                           "keyword %r applies to %s only, but `%s` is reachable without passing is_type(instance, %r)" % (k, T, bad.text[:60], T))
                elif not nright:
                    r.fail("%s|%s|no-gate" % (f.qual, k), where, "keyword %r applies to %s only but has no is_type(instance, %r) gate" % (k, T, T))
                else:
                    r.ok(where, "every use of the instance / yield / descent is behind is_type(instance, %r)" % T)
                continue
            if T is None:
                if gates:
                    for (n, t) in gates:
                        r.fail("%s|%s|spurious-gate|%s" % (f.qual, k, t), site(f, n.ast),
                               "keyword %r applies to every instance, but the function tests is_type(instance, %r): instances of other types are silently accepted" % (k, t))
                else:
                    r.ok(where, "applies to any instance: no constant type gate")
                continue
            right = [(n, t) for (n, t) in gates if t == T]
            wrong = [(n, t) for (n, t) in gates if t != T]
            for (n, t) in wrong:
                r.fail("%s|%s|wrong-gate|%s" % (f.qual, k, t), site(f, n.ast), "keyword %r applies to %s, gate tests %r" % (k, T, t))
            gset = {n.id for (n, _t) in right}
            # walk without taking a true edge of a gate
            bad = None
            seen_n, todo = set(), [cfg.entry]
            while todo and bad is None:
                n = todo.pop()
                if n.id in seen_n:
                    continue
                seen_n.add(n.id)
                if n.id not in gset:
                    uses = any(isinstance(x, ast.Name) and x.id == ip for e in node_exprs(n) for x in walk_expr(e))
                    effect = n.kind == "yield" or any(
                        isinstance(c, ast.Call) and isinstance(c.func, ast.Attribute) and c.func.attr in ("descend", "is_valid", "iter_errors")
                        for e in node_exprs(n) for c in walk_expr(e))
                    if uses or effect:
                        bad = n
                        break
                for (l, t) in n.succ:
                    if n.id in gset and l == "true":
                        continue
                    todo.append(t)
            if bad is not None:
                r.fail("%s|%s|ungated|%s" % (f.qual, k, bad.text[:50]), site(f, bad.ast),
                       "keyword %r applies to %s only, but `%s` is reachable without passing is_type(instance, %r)" % (k, T, bad.text[:60], T))
            elif not right:
                r.fail("%s|%s|no-gate" % (f.qual, k), where, "keyword %r applies to %s only but has no is_type(instance, %r) gate" % (k, T, T))
            else:
                r.ok(where, "every use of the instance / yield / descent is behind is_type(instance, %r)" % T)
    return r


# --------------------------------------------------------------------------- R1.3
class RowEval:
    """Evaluate a loop-free keyword function under one row of the truth table (G, E, O)."""

    def __init__(self, prog, f, draft, keyword, G, E, O):
        self.prog = prog
        self.calls = calls_of(prog)
        self.f = f
        self.k = keyword
        self.G, self.E, self.O = G, E, O
        self.T = spec.APPLIES_TO[keyword]
        self.kind, _tbl = spec.relation(draft, keyword)
        self.mod = spec.MODIFIER.get(keyword) if draft in ("draft3", "draft4") else None
        self.ip = self.calls.param_with_role(f, "instance")
        self.vp = self.calls.param_with_role(f, "value")
        self.sp = self.calls.param_with_role(f, "schema")
        self.env = {}
        self.problem = None

    def term_kind(self, e):
        if isinstance(e, ast.Name) and e.id == self.ip:
            return "instance"
        if isinstance(e, ast.Name) and e.id == self.vp:
            return "value"
        if isinstance(e, ast.Call) and norm(e.func) == "len" and len(e.args) == 1 and isinstance(e.args[0], ast.Name) and e.args[0].id == self.ip:
            return "len"
        if isinstance(e, ast.Name) and e.id in self.env and isinstance(self.env[e.id], tuple) and self.env[e.id][0] == "term":
            return self.env[e.id][1]
        return None

    def ev(self, e):
        """-> True/False or None (unknown)."""
        if isinstance(e, ast.Constant):
            return bool(e.value)
        if isinstance(e, ast.Name):
            v = self.env.get(e.id)
            return v if isinstance(v, bool) else None
        if isinstance(e, ast.UnaryOp) and isinstance(e.op, ast.Not):
            v = self.ev(e.operand)
            return None if v is None else (not v)
        if isinstance(e, ast.BoolOp):
            vals = [self.ev(v) for v in e.values]
            if isinstance(e.op, ast.And):
                if any(v is False for v in vals):
                    return False
                return None if any(v is None for v in vals) else True
            if any(v is True for v in vals):
                return True
            return None if any(v is None for v in vals) else False
        if isinstance(e, ast.Call):
            if isinstance(e.func, ast.Attribute) and e.func.attr == "is_type" and len(e.args) == 2 and isinstance(e.args[0], ast.Name) \
                    and e.args[0].id == self.ip and isinstance(e.args[1], ast.Constant):
                if e.args[1].value == self.T:
                    return self.G
                self.problem = "gate tests %r" % e.args[1].value
                return None
            if isinstance(e.func, ast.Attribute) and e.func.attr == "get" and isinstance(e.func.value, ast.Name) and e.func.value.id == self.sp \
                    and e.args and isinstance(e.args[0], ast.Constant):
                if e.args[0].value == self.mod:
                    dflt = e.args[1] if len(e.args) > 1 else ast.Constant(value=None)
                    # absent -> default must be falsy
                    if not (isinstance(dflt, ast.Constant) and not dflt.value):
                        self.problem = "modifier default %s is not falsy" % norm(dflt)
                    return self.E
                self.problem = "reads %r" % e.args[0].value
                return None
            return None
        if isinstance(e, ast.Subscript) and isinstance(e.value, ast.Name) and e.value.id == self.sp and isinstance(e.slice, ast.Constant):
            if e.slice.value == self.mod:
                return self.E
            return None
        if isinstance(e, ast.Compare) and len(e.ops) == 1:
            l, rgt = self.term_kind(e.left), self.term_kind(e.comparators[0])
            op = e.ops[0]
            if not self.G:
                # the spec says nothing is compared for other instance types
                self.problem = "comparison evaluated although the instance is not a %s" % self.T
                return None
            if l == self.kind and rgt == "value":
                o = self.O
            elif l == "value" and rgt == self.kind:
                o = {"LT": "GT", "GT": "LT", "EQ": "EQ"}[self.O]
            else:
                self.problem = "compares %s with %s (expected %s with the keyword value)" % (norm(e.left), norm(e.comparators[0]), "len(instance)" if self.kind == "len" else "instance")
                return None
            table = {ast.Lt: {"LT"}, ast.LtE: {"LT", "EQ"}, ast.Gt: {"GT"}, ast.GtE: {"GT", "EQ"}, ast.Eq: {"EQ"}, ast.NotEq: {"LT", "GT"}}
            s = table.get(type(op))
            if s is None:
                return None
            return o in s
        return None

    def run(self):
        """True if some yield is reached, False if the function ends without one, None if undetermined."""
        cfg = cfg_of(self.f)
        n = cfg.entry
        steps = 0
        while steps < 200:
            steps += 1
            if n.kind == "exit":
                return False
            if n.kind == "yield":
                return True
            if n.kind == "test":
                v = self.ev(n.ast)
                if v is None:
                    return None
                nxt = [t for (l, t) in n.succ if l == ("true" if v else "false")]
            elif n.kind == "stmt" and isinstance(n.ast, ast.Assign) and len(n.ast.targets) == 1 and isinstance(n.ast.targets[0], ast.Name):
                tk = self.term_kind(n.ast.value)
                if tk:
                    self.env[n.ast.targets[0].id] = ("term", tk)
                else:
                    v = self.ev(n.ast.value) if isinstance(n.ast.value, (ast.Compare, ast.BoolOp, ast.UnaryOp, ast.Call, ast.Subscript, ast.Name)) else "opaque"
                    self.env[n.ast.targets[0].id] = v if v is not None else "opaque"
                nxt = [t for (l, t) in n.succ if l == "next"]
            elif n.kind in ("for", "with_enter"):
                self.problem = "loop in a scalar keyword"
                return None
            else:
                nxt = [t for (l, t) in n.succ if l not in ("exc", "close")]
            if not nxt:
                return False
            n = nxt[0]
        return None


JSON_KINDS = ("object", "array", "string", "number", "integer", "boolean", "null")


def scalar_rows_eval(prog, f, d, k):
    """The comparison table of a scalar keyword evaluated by sa/tokeval.py (follows helpers, function-valued arguments, any
    control flow): rows = JSON kind of the instance x trichotomy of the term against the keyword value x modifier.
    -> list of (row label, got, want) that differ, number of rows, or (None, why) when outside the fragment."""
    from ..tokeval import Ev, AbsVal, ValidatorStub, Undecided, PyRaise
    kind, tbl = spec.relation(d, k)
    T = spec.APPLIES_TO[k]
    mod = spec.MODIFIER.get(k)
    # Drafts 3/4: the sibling is a boolean modifier.  Later drafts: a sibling of that name is a number with a meaning of its own
    # and must not change this keyword's verdict.
    mods = (None, False, True) if d in ("draft3", "draft4") else (None, 7)
    bad, rows = [], 0
    for K in JSON_KINDS:
        G = K == T or (T == "number" and K == "integer")
        for O in ("LT", "EQ", "GT"):
            other = [m for kk, m in spec.MODIFIER.items() if kk != k] if mod else []
            for E, F in [(e, None) for e in (mods if mod else (None,))] + [(None, True)] * bool(other):
                rows += 1
                inst = AbsVal("instance", K, kind, O)
                val = AbsVal("value", "number", kind, O)
                schema = {k: val}
                if E is not None:
                    schema[mod] = E
                if F is not None:
                    schema[other[0]] = F        # the *other* bound's modifier: must not matter
                want = G and O in tbl[bool(E)]
                label = "instance is %s %s, term %s value, %s=%s%s" % ("a" if K != "object" and K != "array" and K != "integer" else "an", K, {"LT": "<", "EQ": "==", "GT": ">"}[O], mod or "-", E,
                                                                         (", %s=%s" % (other[0], F)) if F is not None else "")
                try:
                    res = Ev(prog, fuel=6000).call_func(f, [ValidatorStub({}), val, inst, schema], {})
                    got = bool(list(res)) if res is not None else False
                except Undecided as u:
                    return None, str(u)
                except PyRaise as pr:
                    bad.append((label, "raises %s" % pr.name, want))
                    continue
                if got != want:
                    bad.append((label, got, want))
    return bad, rows


def rule_scalar_relations(ctx, rid="R1.3"):
    prog = ctx.prog
    r = ctx.rule(rid, "scalar assertion keywords implement the specification's relation: truth table over (type gate, exclusive modifier, "
                      "trichotomy of instance vs keyword value) equals the draft's", floor=34)
    for d in DRAFTS:
        for k, f in sorted(prog.tables.drafts[d].table.items()):
            rel = spec.relation(d, k)
            if rel is None:
                continue
            kind, tbl = rel
            bad = []
            rows = 0
            for G in (True, False):
                for E in (False, True):
                    for O in ("LT", "EQ", "GT"):
                        rows += 1
                        ev = RowEval(prog, f, d, k, G, E, O)
                        got = ev.run()
                        want = G and (O in tbl[E])
                        if got is None:
                            if not G and ev.problem is None:
                                # undetermined under a failing gate counts as "may report": mismatch
                                pass
                            bad.append((G, E, O, "undetermined" + (" (%s)" % ev.problem if ev.problem else ""), want))
                        elif got != want:
                            bad.append((G, E, O, got, want))
            where = "%s [%s.%s]" % (site(f), d, k)
            # first the definitional interpreter (follows helpers, callable arguments, any control flow); the loop-free symbolic
            # walk above is consulted only for what lies outside its fragment (arithmetic or conversions on the operands)
            res = scalar_rows_eval(prog, f, d, k)
            if res[0] is not None:
                bad2, rows = res
                if not bad2:
                    r.ok(where, "%d rows agree (evaluated through helpers): error iff %s and outcome in %s" % (rows, spec.APPLIES_TO[k], sorted(tbl[False])))
                else:
                    label, got, want = bad2[0]
                    r.fail("%s|%s|%s|relation" % (d, k, f.qual), where,
                           "%s %r: when %s the function %s, the specification says %s [%d of %d rows differ]" % (
                               d, k, label, "reports an error" if got is True else ("reports nothing" if got is False else got),
                               "error" if want else "no error", len(bad2), rows))
                continue
            if not bad:
                r.ok(where, "%d rows agree: error iff %s and outcome in %s%s" % (
                    rows, spec.APPLIES_TO[k], sorted(tbl[False]), (" / with %s: %s" % (spec.MODIFIER.get(k), sorted(tbl[True]))) if tbl[True] != tbl[False] else ""))
            else:
                G, E, O, got, want = bad[0]
                r.fail("%s|%s|%s|relation" % (d, k, f.qual), where,
                       "%s %r: for (instance is %s: %s, %s truthy: %s, instance term %s keyword value) the function %s, the specification says %s [%d of %d rows differ]" % (
                           d, k, spec.APPLIES_TO[k], G, spec.MODIFIER.get(k, "modifier"), E, {"LT": "<", "EQ": "==", "GT": ">"}[O],
                           "reports an error" if got is True else ("reports nothing" if got is False else got),
                           "error" if want else "no error", len(bad), rows))
    return r


def rule_required_pattern(ctx, rid="R1.3b"):
    """required and pattern as tables evaluated by sa/tokeval.py: required over member sets (one error per missing name), pattern
    over (regex, string) pairs that tell search from match/fullmatch, plus instances of the other JSON types."""
    from ..tokeval import Ev, Tok, ValidatorStub, Undecided, PyRaise
    from . import applic
    prog = ctx.prog
    r = ctx.rule(rid, "required: one error per listed name that is not in the instance; pattern: error iff the regex does not match somewhere", floor=2)
    done = set()
    for d in DRAFTS:
        tb = prog.tables.drafts[d].table
        f = tb.get("required")
        if f is not None and d != "draft3" and f not in done:
            done.add(f)
            bad, und = None, None
            for row in applic.t_required(d, "required"):
                st, res = applic.run_row(prog, f, row)
                if st == "undecided":
                    und = res
                    break
                if st == "raises" or len(res) != len(row.expected):
                    bad = (row.label, res if st == "raises" else "%d errors, expected %d" % (len(res), len(row.expected)))
                    break
            if und is not None:
                r.ok(site(f) + " [required]", "NOT DECIDED: %s" % und)
                r.note(site(f), "required table not decided: %s" % und)
            elif bad is None:
                r.ok(site(f) + " [required]", "one error per listed name missing from the instance, none for other instance types")
            else:
                r.fail("%s|required-relation" % f.qual, site(f), "required does not report exactly the listed names that are missing from the instance (%s: %s)" % bad)
        f = tb.get("pattern")
        if f is not None and f not in done:
            done.add(f)
            rows = [("^a", "ab", False), ("^a", "ba", True), ("a", "ba", False), ("b$", "ab", False), ("^$", "", False), ("x", "", True), ("a|b", "cb", False)]
            others = [Tok("n", ("number",)), Tok("o", ("object",)), Tok("l", ("array",)), Tok("z", ("null",)), Tok("t", ("boolean",))]
            bad, und = None, None
            try:
                for pat, inst, want in rows:
                    out = list(Ev(prog, fuel=3000).call_func(f, [ValidatorStub({}), pat, inst, {"pattern": pat}], {}) or [])
                    if bool(out) != want:
                        bad = "pattern %r on %r: %s, expected %s" % (pat, inst, "error" if out else "no error", "error" if want else "no error")
                        break
                for t in others:
                    if bad:
                        break
                    out = list(Ev(prog, fuel=3000).call_func(f, [ValidatorStub({}), "^a", t, {"pattern": "^a"}], {}) or [])
                    if out:
                        bad = "a %s instance is reported" % sorted(t.kinds)[0]
            except Undecided as u:
                und = str(u)
            except PyRaise as pr:
                bad = "raises %s" % pr.name
            if und is not None:
                r.ok(site(f) + " [pattern]", "NOT DECIDED: %s" % und)
                r.note(site(f), "pattern table not decided: %s" % und)
            elif bad is None:
                r.ok(site(f) + " [pattern]", "error iff the regex matches nowhere in the string; other instance types pass")
            else:
                r.fail("%s|pattern-relation" % f.qual, site(f), "pattern does not report exactly when the regex finds nothing in the string (%s)" % bad)
    return r


# --------------------------------------------------------------------------- R1.4
def rule_regex_use(ctx, rid="R1.4"):
    prog = ctx.prog
    calls = calls_of(prog)
    eff = effects_of(prog)
    reach = calls.reachable(list(prog.tables.keyword_funcs()))
    r = ctx.rule(rid, "schema regular expressions are applied unanchored (re.search) and verbatim, one at a time", floor=3)
    for f in sorted(reach, key=lambda x: x.qual):
        if f.mod.name not in ("_validators", "_legacy_validators", "_utils"):
            continue
        roles = calls.roles(f)
        for n in walk_body(f):
            if not isinstance(n, ast.Call):
                continue
            tg = calls.callee(f, n)
            name = next((t.name for t in tg if t.kind == "ext" and t.name.startswith("re.")), None)
            if name is None:
                continue
            if not n.args:
                continue
            pat = n.args[0]
            tags = eff.expr_tags(f, pat)
            from_schema = any(t[0] == "P" and roles.get(t[1]) in ("value", "schema") or (t[0] == "EL" and t[1][0] == "P" and roles.get(t[1][1]) in ("value", "schema")) for t in tags)
            assembled = isinstance(pat, (ast.BinOp, ast.JoinedStr)) or (isinstance(pat, ast.Call) and isinstance(pat.func, ast.Attribute) and pat.func.attr in ("join", "format")) \
                or (isinstance(pat, ast.Name) and any(isinstance(v, ast.Call) and isinstance(v.func, ast.Attribute) and v.func.attr == "join"
                                                      for x in walk_body(f) if isinstance(x, ast.Assign) and any(isinstance(t, ast.Name) and t.id == pat.id for t in x.targets) for v in [x.value]))
            if not from_schema and not assembled:
                # a pattern that is not schema data (e.g. a constant): not a schema regex
                if isinstance(pat, ast.Constant):
                    continue
            where = site(f, n)
            if name != "re.search":
                r.fail("%s|anchored|%s" % (f.qual, norm(n)[:60]), where,
                       "schema regex applied with %s: ECMA 262 `test` is unanchored, %s anchors the pattern" % (name, name))
            elif assembled:
                r.fail("%s|assembled-pattern|%s" % (f.qual, norm(n)[:60]), where,
                       "the pattern handed to re.search is assembled from several schema patterns: concatenation renumbers groups and displaces inline flags")
            else:
                r.ok(where, "re.search(<verbatim schema pattern>, ...)")
    return r


# --------------------------------------------------------------------------- R1.5
def rule_whole_domain(ctx, rid="R1.5"):
    prog = ctx.prog
    calls = calls_of(prog)
    r = ctx.rule(rid, "applicators iterate the whole keyword value / instance (the only slice is additionalItems' instance[len(items):])", floor=20)
    V = calls.V
    sites = []
    for f in sorted(prog.tables.keyword_funcs(), key=lambda x: x.qual):
        for n in walk_body(f):
            if isinstance(n, ast.Call) and any(t.kind == "func" and t.func in (V.methods["descend"], V.methods["is_valid"]) for t in calls.callee(f, n)):
                sites.append((f, n))
    for f, call in sites:
        pv = Prov(prog, calls, f)
        loops = pv.enclosing_loops(call)
        if not loops:
            r.ok(site(f, call), "not in a loop")
            continue
        ip, vp = calls.param_with_role(f, "instance"), calls.param_with_role(f, "value")
        for lp in loops:
            it = lp.iter
            txt = norm(it)
            bad = None
            for sub in ast.walk(it):
                if isinstance(sub, ast.Subscript) and isinstance(sub.slice, ast.Slice):
                    # the spec'd slice: instance[len(items):]
                    lo, hi, st = sub.slice.lower, sub.slice.upper, sub.slice.step
                    base_ok = isinstance(sub.value, ast.Name) and sub.value.id == ip
                    lo_t = pv.term(lo, {}) if lo is not None else None
                    spec_ok = base_ok and hi is None and st is None and lo_t is not None and lo_t[0] == "len" and lo_t[1][0] == "elem" \
                        and lo_t[1][2] == ("const", "items")
                    if not spec_ok:
                        bad = "slice %s" % norm(sub)
                if isinstance(sub, ast.Call) and norm(sub.func).split(".")[-1] in ("islice", "next", "takewhile", "dropwhile"):
                    bad = "%s(...)" % norm(sub.func)
            if isinstance(it, ast.Name):
                # a local holding the iterable: its definition must not be a slice either
                for x in walk_body(f):
                    if isinstance(x, ast.Assign) and any(isinstance(t, ast.Name) and t.id == it.id for t in x.targets):
                        for sub in ast.walk(x.value):
                            if isinstance(sub, ast.Subscript) and isinstance(sub.slice, ast.Slice):
                                bad = "slice %s" % norm(sub)
                            if isinstance(sub, ast.Call) and norm(sub.func).split(".")[-1] in ("islice", "next"):
                                bad = "%s(...)" % norm(sub.func)
            if bad:
                r.fail("%s|partial-iteration|%s" % (f.qual, txt[:50]), site(f, lp.iter),
                       "the loop feeding %s iterates only part of its domain (%s): entries beyond it are never validated" % (norm(call.func), bad))
            else:
                r.ok(site(f, lp.iter), "for ... in %s" % txt[:60])
    return r


# --------------------------------------------------------------------------- R1.6
def _member_name_uses(prog, calls, h):
    """The table below fixes how the two tests combine; this fixes that there are only those two: every use of a variable that
    holds a member name of the instance is `name in/not in X`, the subject of re.search/re.compile(...).search, or the yielded
    value.  Returns the first other use, or None."""
    ip = calls.param_with_role(h, "instance") or (h.params[0] if h.params else None)
    names = set()
    for n in walk_body(h):
        if isinstance(n, (ast.For, ast.comprehension)) and isinstance(n.iter, ast.Name) and n.iter.id == ip and isinstance(n.target, ast.Name):
            names.add(n.target.id)
        if isinstance(n, (ast.For, ast.comprehension)) and isinstance(n.iter, ast.Call) and isinstance(n.iter.func, ast.Attribute) \
                and n.iter.func.attr in ("keys",) and norm(n.iter.func.value) == ip and isinstance(n.target, ast.Name):
            names.add(n.target.id)
    if not names:
        return None
    return _name_uses(prog, calls, h, names, 0)


def _name_uses(prog, calls, h, names, depth):
    """first use of one of `names` in h that is neither membership, a regex search subject, being yielded/collected, nor being
    handed to a package helper that itself uses it only so"""
    parents = {}
    for st in h.body:
        for a in ast.walk(st):
            for c in ast.iter_child_nodes(a):
                parents[id(c)] = a
    for n in walk_body(h):
        if not (isinstance(n, ast.Name) and n.id in names and isinstance(n.ctx, ast.Load)):
            continue
        par = parents.get(id(n))
        if isinstance(par, ast.Compare) and par.left is n and len(par.ops) == 1 and isinstance(par.ops[0], (ast.In, ast.NotIn)):
            continue
        if isinstance(par, ast.Call) and n in par.args and isinstance(par.func, ast.Attribute) and par.func.attr in ("search",):
            continue
        if isinstance(par, (ast.Yield, ast.Tuple, ast.List)) or (isinstance(par, ast.Call) and isinstance(par.func, ast.Attribute) and par.func.attr in ("append", "add") and n in par.args):
            continue
        if isinstance(par, (ast.ListComp, ast.SetComp, ast.GeneratorExp)) and par.elt is n:
            continue
        if isinstance(par, ast.Call) and n in par.args and depth < 2:
            tg = [t for t in calls.callee(h, par) if t.kind == "func" and t.func is not None and t.func.cls is None]
            if len(tg) == 1 and par.args.index(n) < len(tg[0].func.params):
                inner = _name_uses(prog, calls, tg[0].func, {tg[0].func.params[par.args.index(n)]}, depth + 1)
                if inner is None:
                    continue
        return par if par is not None else n
    return None


def _additional_eval(prog, h):
    """'' if the helper agrees with the complement rule on the table, a description of the first difference otherwise, None if
    the helper is outside the evaluated fragment."""
    import re
    from ..tokeval import Ev, Tok, Undecided, PyRaise
    S = Tok("S", ("object",))
    members_sets = [(), ("a",), ("a", "xa"), ("b", "ax", "c"), ("a", "b", "ab", "ba", ""), ("x.y", "xzy"), ("aa", "ab", "x-", "x-y", "A")]
    props_sets = [None, {}, {"a": S}, {"a": S, "": S}]
    # each pattern is a regular expression of its own: groups, back-references and inline flags of one say nothing about another
    pats_sets = [None, {}, {"^x": S}, {"a": S}, {"b$": S, "^a": S}, {"x.y": S}, {"^(x)-": S, "^(.)\\1$": S}, {"(?i)^a$": S, "^b": S}, {"^(?P<n>a)(?P=n)$": S, "^(x)": S}]
    try:
        for members in members_sets:
            inst = {m: Tok("v%d" % i, ("number",)) for i, m in enumerate(members)}
            for props in props_sets:
                for pats in pats_sets:
                    schema = {"additionalProperties": False}
                    if props is not None:
                        schema["properties"] = props
                    if pats is not None:
                        schema["patternProperties"] = pats
                    want = sorted(m for m in members if not (props and m in props) and not (pats and any(re.search(p, m) for p in pats)))
                    res = Ev(prog, fuel=8000).call_func(h, [inst, schema], {})
                    got = sorted(res)
                    if got != want:
                        return "members %s with properties %s and patternProperties %s: additional = %s, expected %s" % (
                            list(members), sorted(props) if props is not None else None, sorted(pats) if pats is not None else None, got, want)
    except Undecided:
        return None
    except PyRaise as pr:
        return "raises %s" % pr.name
    return ""


def rule_additional_complement(ctx, rid="R1.6"):
    prog = ctx.prog
    calls = calls_of(prog)
    r = ctx.rule(rid, "a property counts as additional unless it is named in `properties` or some patternProperties regex matches it", floor=2)
    ap = {d.table["additionalProperties"] for d in prog.tables.drafts.values()}
    helpers = set()
    for f in ap:
        for (_n, c, tg) in calls.calls_in(f):
            for t in tg:
                if t.kind == "func" and t.func.is_generator and t.func.cls is None:
                    helpers.add(t.func)
    if len(helpers) != 1:
        raise AnalysisError("cannot identify the additional-properties helper (found %s)" % [h.qual for h in helpers])
    h = helpers.pop()
    sem = _additional_eval(prog, h)
    other = _member_name_uses(prog, calls, h) if sem == "" else None
    if other:
        r.fail("%s|skips-other-members" % h.qual, site(h, other),
               "the member name is examined by `%s`, something other than membership in `properties` and a regex search: a member can be treated "
               "as not additional (or additional) for a reason the draft does not know" % norm(other)[:60])
        return r
    if sem is not None:
        # decided by evaluating the helper (sa/tokeval.py) on member sets x properties x patternProperties
        if sem == "":
            r.ok(site(h), "on the evaluated table the helper yields exactly the members neither named in properties nor matched (re.search) by a pattern")
            r.ok(site(h) + " [complement]", "members handled by properties/patternProperties are never yielded")
        else:
            r.fail("%s|skips-other-members" % h.qual, site(h), "the additional members are not the complement of properties and patternProperties: %s" % sem)
        return r
    cfg = cfg_of(h)
    ip = calls.param_with_role(h, "instance")
    loops = [n for n in cfg.live if n.kind == "for" and not n.loops]
    ys = [n for n in cfg.live if n.kind == "yield"]
    if len(loops) != 1 or len(ys) != 1 or norm(loops[0].ast.iter) != ip:
        r.fail("%s|shape" % h.qual, site(h), "helper does not loop once over the instance's members with a single yield")
        return r
    L, Y = loops[0], ys[0]
    lv = L.ast.target.id
    if not (isinstance(Y.ast.value, ast.Yield) and norm(Y.ast.value.value) == lv):
        r.fail("%s|yield-value" % h.qual, site(h, Y.ast), "the helper does not yield the member name itself")
    # every path from the iter edge that skips the yield passes a `name in properties` (true) or a search-hit edge
    props_reads = {}
    for n in walk_body(h):
        if isinstance(n, ast.Assign) and isinstance(n.targets[0], ast.Name) and isinstance(n.value, ast.Call) and isinstance(n.value.func, ast.Attribute) \
                and n.value.func.attr == "get" and n.value.args and isinstance(n.value.args[0], ast.Constant):
            props_reads[n.targets[0].id] = n.value.args[0].value

    def skip_edge(n, label):
        e = n.ast
        if n.kind != "test":
            return False
        if isinstance(e, ast.Compare) and len(e.ops) == 1 and norm(e.left) == lv and isinstance(e.comparators[0], ast.Name) \
                and props_reads.get(e.comparators[0].id) == "properties":
            return (isinstance(e.ops[0], ast.In) and label == "true") or (isinstance(e.ops[0], ast.NotIn) and label == "false")
        txt = norm(e)
        if "re.search(" in txt and lv in txt and label == "true":
            # any(re.search(pattern, name) for pattern in <patternProperties>)  or  re.search(p, name)
            names = {x.id for x in ast.walk(e) if isinstance(x, ast.Name)}
            return any(props_reads.get(nm) == "patternProperties" for nm in names)
        return False
    seen, todo, leak = set(), [x for (l, x) in L.succ if l == "iter"], None
    while todo:
        n = todo.pop()
        if n.id in seen or n is Y:
            continue
        seen.add(n.id)
        if n is L:
            leak = n
            break
        for (l, t) in n.succ:
            if l in ("exc", "close") or skip_edge(n, l):
                continue
            todo.append(t)
    if leak is None:
        r.ok(site(h), "a member is skipped only when named in properties or matched by a patternProperties regex")
    else:
        r.fail("%s|skips-other-members" % h.qual, site(h), "a member can be treated as not additional for a reason other than properties/patternProperties")
    # and the yield is not reachable through a skip edge only... i.e. a named property must be skipped
    seen, todo, reaches = set(), [], False
    for n in cfg.live:
        for (l, t) in n.succ:
            if skip_edge(n, l):
                todo.append(t)
    while todo:
        n = todo.pop()
        if n.id in seen or n is L:
            continue
        seen.add(n.id)
        if n is Y:
            reaches = True
        todo.extend(t for (l, t) in n.succ if l not in ("exc", "close"))
    if reaches:
        r.fail("%s|yields-handled-member" % h.qual, site(h, Y.ast), "a member handled by properties/patternProperties can still be reported as additional")
    else:
        r.ok(site(h, Y.ast), "handled members never reach the yield")
    want = {"properties", "patternProperties"}
    if set(props_reads.values()) != want:
        r.fail("%s|reads|%s" % (h.qual, sorted(props_reads.values())), site(h), "helper reads %s, expected properties and patternProperties" % sorted(props_reads.values()))
    return r


# --------------------------------------------------------------------------- R1.7
from collections import OrderedDict as _OD


class _ListSub(list):
    """an array as a parser hook may deliver it: a subclass of list (the library's type checks are isinstance tests)"""


REPRESENTATIVES = {
    # several members per value class: a predicate that is not uniform on a class is wrong on part of it
    "null": [None], "bool": [True, False], "int": [0, 1, -3, 2 ** 70, 10 ** 400], "intfloat": [0.0, 1.0, -2.0, 1e300],
    "float": [0.5, -1.5, 1e-9], "str": ["", "s", "1"], "list": [[], [1], _ListSub([1])], "dict": [{}, {"a": 1}, _OD([("a", 1)])],
}


def eval_type_fn_ex(prog, fn, cls):
    """Evaluate a type predicate (sa/tokeval.py: the function's AST is interpreted, isinstance/is_integer/identity are the
    only operations it can apply to the value) on the members of a value class.
    -> (True|False, "") | (None, "undecided: ...") | ("raises", name) | ("mixed", detail)"""
    from ..tokeval import Ev, Undecided, PyRaise
    seen = {}
    for v in REPRESENTATIVES[cls]:
        try:
            ev = Ev(prog, fuel=4000)
            if getattr(fn, "made_by", None):
                # a predicate made by a factory (`is_array = _is("array")`): make it the same way, then ask it
                from ..tokeval import _ModScope
                F, call, mod = fn.made_by
                made = ev.call_func(F, [ev.expr(a, {}, _ModScope(mod)) for a in call.args], {k.arg: ev.expr(k.value, {}, _ModScope(mod)) for k in call.keywords})
                res = made(object(), v)
            else:
                res = ev.call_func(fn, [object(), v], {})
        except Undecided as u:
            return None, "undecided: %s" % u
        except PyRaise as pr:
            return "raises", "%s on %r" % (pr.name, v if not isinstance(v, int) or abs(v) < 10 ** 30 else "10**400")
        if not isinstance(res, bool):
            try:
                res = bool(res)
            except Exception:
                return None, "undecided: non-boolean result"
        seen.setdefault(res, v)
    if len(seen) == 2:
        return "mixed", "%r -> %s but %r -> %s" % (seen[True], True, seen[False], False)
    return next(iter(seen)), ""


def eval_type_fn(prog, fn, cls, depth=0):
    """True/False when the predicate is decided and uniform on the class, else None."""
    v, _ = eval_type_fn_ex(prog, fn, cls)
    return v if v in (True, False) else None


def rule_type_predicates(ctx, rid="R1.7"):
    prog = ctx.prog
    r = ctx.rule(rid, "type predicates, evaluated abstractly over the 8 JSON value classes, agree with the draft (booleans are not numbers; "
                      "integral floats are integers from Draft 6)", floor=232)
    for d in DRAFTS:
        dr = prog.tables.drafts[d]
        want_names = set(spec.type_names(d))
        have = set(dr.types)
        for nm in sorted(want_names - have):
            r.fail("%s|type-missing|%s" % (d, nm), "jsonschema/_types.py %s" % dr.type_checker_name, "%s's type checker does not define %r" % (d, nm))
        for nm in sorted(have - want_names):
            r.fail("%s|type-extra|%s" % (d, nm), "jsonschema/_types.py %s" % dr.type_checker_name, "%s's type checker defines %r, which the draft does not have" % (d, nm))
        for nm in sorted(have & want_names):
            fn = dr.types[nm]
            truth = spec.type_truth(d, nm)
            for c in spec.CLASSES:
                got, detail = eval_type_fn_ex(prog, fn, c)
                want = c in truth
                where = "%s [%s %s on %s]" % (site(fn), d, nm, c)
                if got is None:
                    r.ok(where, "NOT DECIDED (%s)" % detail)
                    r.note(site(fn), "type predicate %s not decided on %s values: %s" % (fn.qual, c, detail))
                elif got == "raises":
                    r.fail("%s|%s|%s|raises" % (d, nm, c), where, "%s: type %r raises %s values: a type test must answer for every JSON value" % (d, nm, detail))
                elif got == "mixed":
                    r.fail("%s|%s|%s|wrong" % (d, nm, c), where, "%s: type %r is not uniform on %s values (%s); the draft says %s for all of them" % (d, nm, c, detail, want))
                elif got == want:
                    r.ok(where, str(got))
                else:
                    r.fail("%s|%s|%s|wrong" % (d, nm, c), where,
                           "%s: type %r is %s for %s values, the draft says %s" % (d, nm, got, {"intfloat": "integral float", "float": "non-integral float"}.get(c, c), want))
    return r


def _is_type_wiring_eval(prog, f, is_validator_method):
    """Abstract run (sa/tokeval.py) of an is_type method against a recording stub: the answer must be the stub's answer for
    exactly (instance, type name), asked again on every call, and an unknown name must raise the documented exception."""
    from ..tokeval import Ev, Obj, Tok, Undecided, PyRaise
    X = Tok("x", ("number",))
    answer = object()
    calls = []
    try:
        if is_validator_method:
            class TC:
                def is_type(self, instance, type):
                    calls.append((instance, type))
                    if type == "U":
                        raise PyRaise("UndefinedTypeCheck", type)
                    return answer
            recv = Obj(f.cls, {"TYPE_CHECKER": TC(), "schema": Tok("S")})
            want_calls = [(X, "T"), (X, "T")]
            want_exc = "UnknownType"
        else:
            def pred(checker, instance):
                calls.append((checker, instance))
                return answer
            recv = Obj(f.cls, {"_type_checkers": {"T": pred}})
            want_calls = [(recv, X), (recv, X)]
            want_exc = "UndefinedTypeCheck"
        ev = Ev(prog, fuel=4000)
        a1 = ev.call_func(f, [recv, X, "T"], {})
        a2 = ev.call_func(f, [recv, X, "T"], {})
        if a1 is not answer or a2 is not answer:
            return False, "the result is not the predicate's own answer"
        if calls != want_calls:
            return False, "the predicate is not asked once per call with this instance and type name (asked %d times in two calls)" % len(calls)
        try:
            ev.call_func(f, [recv, X, "U"], {})
            return False, "an unknown type name does not raise"
        except PyRaise as pr:
            if pr.name != want_exc:
                return False, "an unknown type name raises %s, not %s" % (pr.name, want_exc)
        return True, ""
    except Undecided as u:
        return None, str(u)
    except PyRaise as pr:
        return False, "raises %s" % pr.name


def rule_is_type_wiring(ctx, rid="R1.7b"):
    """is_type is a pure function of (instance, type name): Validator.is_type returns TYPE_CHECKER.is_type(instance, type),
    which returns the registered predicate applied to the instance; nothing is remembered between calls."""
    from ..effects import effects_of
    prog = ctx.prog
    calls = calls_of(prog)
    eff = effects_of(prog)
    r = ctx.rule(rid, "is_type is the draft's predicate applied to this very instance (no caching, no other input)", floor=2)
    vm = calls.V.methods["is_type"]
    tm = prog.cls("_types.TypeChecker").methods["is_type"]
    for f in (vm, tm):
        ws = eff.nonlocal_writes(f)
        for w, t in ws:
            r.fail("%s|state|%s" % (f.qual, w.text[:40]), site(f, w.node), "%s remembers something between calls: %s" % (f.name, w.text[:50]))
        ok, why = _is_type_wiring_eval(prog, f, f is vm)
        if ok is None:
            r.ok(site(f), "NOT DECIDED (%s)" % why)
            r.note(site(f), "is_type wiring not decided: %s" % why)
        elif ok and not ws:
            r.ok(site(f), "returns the predicate's answer for (instance, type), asked afresh on every call; unknown names raise")
        elif not ok:
            r.fail("%s|wiring" % f.qual, site(f), "%s does not simply return the registered predicate's answer for this instance and type name: %s" % (f.qual, why))
    return r


def rule_schema_not_a_condition(ctx, rid="R1.9"):
    """A subschema is data, never a condition: `false` (rejects everything) and `{}` (accepts everything) are both falsy."""
    from ..interp import Interp, obj
    from ..kinds import ANY
    from .c03 import run_entry
    prog = ctx.prog
    r = ctx.rule(rid, "no keyword function decides by the truthiness of a subschema (the boolean schema false is falsy, yet must be applied)", floor=60)
    seen = {}
    for d in ("draft6", "draft7"):
        I = Interp(prog, d)
        for k, f in sorted(prog.tables.drafts[d].table.items()):
            I.schema_truthiness = []
            run_entry(I, f, [obj("Validator"), I.shapes.keyword(k), ANY, I.schema_av.only(["dict"])])
            if not I.schema_truthiness:
                r.ok("%s [%s.%s]" % (site(f), d, k), "no subschema is used as a condition")
            for (fn, node, desc) in I.schema_truthiness:
                key = "%s|schema-truthiness|%s" % (fn.qual, norm(node)[:40])
                if key in seen:
                    continue
                seen[key] = True
                r.fail(key, site(fn, node),
                       "`%s` (%s) is tested for truthiness: with the boolean schema `false` the test fails and the subschema is treated as absent, "
                       "so an instance it must reject is accepted (%s %r)" % (norm(node)[:50], desc, d, k))
    return r


def rule_instance_not_a_condition(ctx, rid="R1.11"):
    """A member of the instance is data, never a condition: null, false, 0, "", [] and {} are values like any other, and a
    member holding one of them is *present*.  (Presence is `name in instance`; emptiness is len().)"""
    from ..prov import Prov
    prog = ctx.prog
    calls = calls_of(prog)
    r = ctx.rule(rid, "no keyword function (or helper on the instance) branches on the truthiness of an instance member", floor=40)
    funcs = {}
    for f in prog.tables.keyword_funcs():
        funcs[f] = calls.param_with_role(f, "instance")
    # helpers that receive the instance
    for f in list(funcs):
        for (_n, call, tg) in calls.calls_in(f):
            for t in tg:
                if t.kind == "func" and t.func is not None and t.func.cls is None and t.func not in funcs and t.func.mod.name in ("_utils", "_validators", "_legacy_validators"):
                    ip = funcs[f]
                    for i, a in enumerate(call.args):
                        if isinstance(a, ast.Name) and a.id == ip and i < len(t.func.params):
                            funcs[t.func] = t.func.params[i]

    def rooted(t, ip):
        while isinstance(t, tuple) and t and t[0] == "elem":
            if t[1] == ("param", ip):
                return True
            t = t[1]
        return False
    for f, ip in sorted(funcs.items(), key=lambda x: x[0].qual):
        if ip is None:
            continue
        pv = Prov(prog, calls, f)
        conds = []
        cfg = cfg_of(f)
        for n in cfg.live:
            if n.kind == "test":
                conds.append(n.ast)
        for n in walk_body(f):
            if isinstance(n, ast.IfExp):
                conds.append(n.test)
            elif isinstance(n, ast.comprehension):
                conds.extend(n.ifs)
            elif isinstance(n, ast.While):
                conds.append(n.test)
        atoms = []
        def split(e):
            if isinstance(e, ast.UnaryOp) and isinstance(e.op, ast.Not):
                split(e.operand)
            elif isinstance(e, ast.BoolOp):
                for v in e.values:
                    split(v)
            else:
                atoms.append(e)
        for c in conds:
            split(c)
        bad = 0
        for a in atoms:
            if isinstance(a, ast.Compare) and len(a.ops) == 1 and isinstance(a.ops[0], (ast.Is, ast.IsNot, ast.Eq, ast.NotEq)) \
                    and isinstance(a.comparators[0], ast.Constant) and a.comparators[0].value is None \
                    and isinstance(a.left, (ast.Name, ast.Subscript, ast.Call)) \
                    and not (isinstance(a.left, ast.Call) and not (isinstance(a.left.func, ast.Attribute) and a.left.func.attr == "get")):
                # `instance.get(name) is None` / `value is None`: JSON null is a value; a member holding it is present
                t = pv.term(a.left, pv.env_at(a.left))
                if rooted(t, ip):
                    bad += 1
                    r.fail("%s|instance-member-is-none|%s" % (f.qual, norm(a)[:40]), site(f, a),
                           "`%s`: a member of the instance is compared with None -- JSON null is a value like any other, so a member holding "
                           "null is taken for an absent one (presence is `name in instance`)" % norm(a)[:60])
                continue
            if isinstance(a, (ast.Compare, ast.Constant)):
                continue
            if isinstance(a, ast.Call) and not (isinstance(a.func, ast.Attribute) and a.func.attr == "get"):
                continue
            if not isinstance(a, (ast.Name, ast.Subscript, ast.Call)):
                continue
            t = pv.term(a, pv.env_at(a))
            if rooted(t, ip):
                bad += 1
                r.fail("%s|instance-member-truthiness|%s" % (f.qual, norm(a)[:40]), site(f, a),
                       "`%s` is tested for truthiness: a member holding null, false, 0, \"\", [] or {} is treated as absent (or a "
                       "non-empty one as a verdict), so presence-dependent keywords misjudge such instances" % norm(a)[:50])
        if not bad:
            r.ok(site(f), "%d conditions, none is the truthiness of an instance member" % len(atoms))
    return r


def run(ctx):
    ctx.explanation = (
        "C01, necessary structural conditions of agreement with the specification: R1.1 keyword tables = draft vocabularies; "
        "R1.2 CFG must-pass-through of the type gate for every type-restricted keyword (and no constant gate on unrestricted "
        "ones); R1.3 scalar assertions reduced to a finite truth table over (gate, modifier, trichotomy) by abstract evaluation "
        "of the loop-free function on each of the 12 rows, compared with the draft's table for every (draft, keyword) binding; "
        "R1.3b required/pattern relations; R1.4 schema regexes searched unanchored and verbatim; R1.5 applicators iterate their "
        "whole domain; R1.6 additional-property complement; R1.7 type predicates evaluated abstractly over the 8 value classes. "
        "R1.9/R1.11 neither a subschema nor an instance member is used as a condition. "
        "R1.12 applicators (allOf/anyOf/oneOf/not/if/contains/items/properties/dependencies/...) evaluated abstractly over "
        "tables of sub-verdicts (bounded sizes) against the draft's combination rule. Not decided: agreement on concrete (schema, instance) pairs.")
    ctx.assume("specification tables in sa/spec.py (DESIGN Appendix B)")
    ctx.assume("Python ordering comparison of int/float is exact; re.search is ECMA 262 `test` on the agreed regex subset")
    tables.rule_table_vocab(ctx, "R1.1")
    rule_type_gate(ctx)
    rule_scalar_relations(ctx)
    rule_required_pattern(ctx)
    rule_regex_use(ctx)
    rule_whole_domain(ctx)
    rule_additional_complement(ctx)
    rule_type_predicates(ctx)
    rule_is_type_wiring(ctx)
    rule_schema_not_a_condition(ctx)
    rule_instance_not_a_condition(ctx)
    # R1.12: combination semantics of the applicators, as a truth table over sub-verdicts (sa/rules/applic.py)
    from .applic import rule_applicators
    rule_applicators(ctx, "R1.12", "verdict")
    # R1.13: integers of any size are in this property's domain: multipleOf with an integer divisor decides by exact integer `%`
    from .c09 import rule_integer_path
    rule_integer_path(ctx, "R1.13")
    # R1.10: a keyword's verdict may depend on exactly the sibling names the draft gives it (necessary for spec agreement)
    from .c10 import rule_read_set
    rule_read_set(ctx, "R1.10")
    # R1.14: enum, const and uniqueItems are assertion keywords like the others: what they accept is JSON equality, on the value
    # table of C08 (look-alikes 1 / true / 1.0, containers, long arrays)
    from .c08 import eq_functions, rule_relation_table
    roots, _helpers = eq_functions(ctx.prog)
    rule_relation_table(ctx, roots, "R1.14")
    # R1.15: what counts as a number / string / array / object is the type checker's decision alone (Decimal, OrderedDict, ...)
    from .c05 import rule_carriers
    rule_carriers(ctx, "R1.15")
    # R1.16: no behaviour changes at a number fixed in the source (sizes, depths, counts, magnitudes are unbounded in the property's domain)
    from . import scope as _scope
    _scope.rule_no_size_thresholds(ctx, 'R1.16', ('_validators', '_legacy_validators', '_utils', '_types'), 'the keyword functions and their helpers')
    _scope.rule_no_value_identity(ctx, 'R1.17', ('_validators', '_legacy_validators', '_utils', '_types'), 'the keyword functions and their helpers')
