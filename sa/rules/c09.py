"""C09 - numeric keywords are exact for any magnitude and never raise (partial)."""
import ast

from ..prog import norm, walk_body, AnalysisError, DRAFTS
from ..cfg import cfg_of, reaching_defs, node_exprs, walk_expr
from ..calls import calls_of
from ..interp import Interp, obj
from ..kinds import AV
from ..report import site
from .c03 import run_entry

NUMERIC_KEYWORDS = ["minimum", "maximum", "exclusiveMinimum", "exclusiveMaximum", "multipleOf", "divisibleBy"]
COMPARISON_KEYWORDS = ["minimum", "maximum", "exclusiveMinimum", "exclusiveMaximum"]


def numeric_bindings(prog):
    out = []
    for d in DRAFTS:
        for k in NUMERIC_KEYWORDS:
            f = prog.tables.drafts[d].table.get(k)
            if f is not None:
                out.append((d, k, f))
    return out


def rule_never_raise(ctx, rid="R9.1"):
    prog = ctx.prog
    r = ctx.rule(rid, "no finite number, as instance or as bound/divisor, can make a numeric keyword raise (numeric exception-effect analysis)", floor=16)
    found = {}
    interps = {}
    for d, k, f in numeric_bindings(prog):
        I = interps.setdefault(d, Interp(prog, d))
        val = I.shapes.keyword(k)
        inst = AV(["int", "float"], big=True)
        sch = I.schema_av.only(["dict"])
        eff = run_entry(I, f, [obj("Validator"), val, inst, sch])
        esc = [x for x in eff if x.exc not in ("RefResolutionError", "UnknownType")]
        label = "%s [%s.%s: instance %s, value %s]" % (site(f), d, k, inst.describe(), val.describe())
        if not esc:
            r.ok(label, "no exception effect escapes")
        else:
            r.pending(label, "escapes: %s" % sorted({x.exc for x in esc}))
        for x in esc:
            found.setdefault(x.key(), {"x": x, "where": []})["where"].append("%s.%s" % (d, k))
    for key, ent in sorted(found.items()):
        x = ent["x"]
        r.findings.append({"rule": r.id, "key": "%s|%s" % (r.id, key), "site": site(x.func, x.node),
                           "msg": "%s can be raised by a numeric keyword: %s%s" % (x.exc, x.op, (" -- operands %s" % x.operand) if x.operand else ""),
                           "detail": {"arises_under": ", ".join(sorted(set(ent["where"])))}})
    return r


def rule_raw_comparison(ctx, rid="R9.2"):
    prog = ctx.prog
    calls = calls_of(prog)
    r = ctx.rule(rid, "comparison keywords compare the unmodified instance with the unmodified bound (no float(), round(), subtraction)", floor=6)
    seen = set()
    for d in DRAFTS:
        for k in COMPARISON_KEYWORDS:
            f = prog.tables.drafts[d].table.get(k)
            if f is None or f in seen:
                continue
            seen.add(f)
            # first: the function evaluated on abstract operands that support ordering against each other and nothing else -- any
            # float()/round()/arithmetic applied to them leaves the fragment (then the structural reading below decides)
            from .c01 import scalar_rows_eval
            try:
                res = scalar_rows_eval(prog, f, d, k)
            except RecursionError:
                res = (None, "recursion")
            if res[0] is not None:
                bad, rows = res
                if not bad:
                    r.ok(site(f), "[semantic] %s.%s: %d rows decided by ordering the unmodified operands alone (through any helper or operator function)" % (d, k, rows))
                else:
                    r.fail("%s|relation|%s" % (f.qual, k), site(f), "%s.%s: when %s the function gives %s, expected %s" % (d, k, bad[0][0], bad[0][1], bad[0][2]))
                continue
            ip, vp = calls.param_with_role(f, "instance"), calls.param_with_role(f, "value")
            cmps = [n for n in walk_body(f) if isinstance(n, ast.Compare) and any(isinstance(o, (ast.Lt, ast.LtE, ast.Gt, ast.GtE)) for o in n.ops)]
            if not cmps:
                r.fail("%s|no-comparison" % f.qual, site(f), "no ordering comparison in the function bound to %r" % k)
            for c in cmps:
                ops = [c.left] + list(c.comparators)
                raw = all(isinstance(o, ast.Name) and o.id in (ip, vp) for o in ops) and {o.id for o in ops} == {ip, vp}
                if raw:
                    r.ok(site(f, c), "%s on the raw operands" % norm(c))
                else:
                    r.fail("%s|cooked-comparison|%s" % (f.qual, norm(c)[:60]), site(f, c),
                           "`%s` does not compare the raw instance with the raw bound: a conversion or arithmetic step loses exactness beyond 2**53" % norm(c))
            # and nothing arithmetic is done with the operands elsewhere
            for n in walk_body(f):
                if isinstance(n, (ast.BinOp,)) and not isinstance(n.op, ast.Mod) and any(isinstance(x, ast.Name) and x.id in (ip, vp) for x in ast.walk(n)):
                    r.fail("%s|arithmetic|%s" % (f.qual, norm(n)[:50]), site(f, n), "arithmetic on the operands of a comparison keyword: %s" % norm(n)[:60])
                if isinstance(n, ast.Call) and norm(n.func) in ("float", "round", "int", "abs") and any(isinstance(x, ast.Name) and x.id in (ip, vp) for x in ast.walk(n)):
                    r.fail("%s|conversion|%s" % (f.qual, norm(n)[:50]), site(f, n), "lossy conversion of an operand: %s" % norm(n)[:60])
    return r


def _mtable(ctx, f, keyword):
    """the concrete-number table of sa/rules/numsem.py for one multipleOf/divisibleBy function, once per run"""
    from . import numsem
    key = "_mtable:%s" % f.qual
    if key not in ctx.extra:
        try:
            ctx.extra[key] = numsem.multiple_eval(ctx.prog, f, keyword)
        except RecursionError:
            ctx.extra[key] = (None, "recursion", 0)
    return ctx.extra[key]


def _unrecognised(ctx, r, f, where, key, what):
    """The structural reading does not apply to this shape (the operation sits in a helper, behind a callable, in a nested def).
    That is not evidence of a defect: the concrete-number table decides what it can, the rest is recorded as not decided."""
    kw = where[0].split(".")[-1]
    res = _mtable(ctx, f, kw)
    if res[0] is None:
        r.ok(site(f) + " %s" % where, "NOT DECIDED: %s; the number table is outside the evaluated fragment (%s)" % (what, res[1]))
        r.note(site(f), "%s not decided for %s: %s" % (r.id, f.qual, what))
        return
    bad = [(c, m) for c, m in sorted(res[0].items()) if m is not None]
    if bad:
        r.fail("%s|table|%s" % (f.qual, bad[0][0]), site(f), "%s; on the number table: %s" % (what, bad[0][1]))
    else:
        r.ok(site(f) + " %s" % where, "shape not recognised (%s); decided on the number table only: %d pairs evaluated, %d with an exact verdict, all agree, none raises" % (
            what, res[1], res[2]))


def rule_number_table(ctx, rid="R9.6"):
    """Companion to R9.2-R9.5: the functions evaluated on concrete numbers (sa/rules/numsem.py), compared with exact rational arithmetic."""
    from . import numsem
    from .. import spec
    prog = ctx.prog
    r = ctx.rule(rid, "on a table of number pairs (huge integers, floats at both ends of the exponent range, 2**53 neighbours, signed zeros) every numeric "
                      "keyword answers as exact rational arithmetic does where the property claims a verdict, and raises nowhere", floor=10)
    for f, where in sorted(multiple_of_funcs(prog).items(), key=lambda kv: kv[0].qual):
        for w in where:
            kw = w.split(".")[-1]
            res = numsem.multiple_eval(prog, f, kw) if "_mtable:%s" % f.qual not in ctx.extra or kw != where[0].split(".")[-1] else ctx.extra["_mtable:%s" % f.qual]
            if kw == where[0].split(".")[-1]:
                ctx.extra["_mtable:%s" % f.qual] = res
            label = "%s [%s]" % (site(f), w)
            if res[0] is None:
                r.ok(label, "NOT DECIDED: outside the evaluated fragment (%s)" % res[1])
                continue
            for clause, msg in sorted(res[0].items()):
                if msg is None:
                    r.ok(label + " " + clause, "%d pairs, %d with an exact verdict" % (res[1], res[2]))
                else:
                    r.fail("%s|table|%s" % (f.qual, clause), site(f), "%s: %s" % (w, msg))
    seen = set()
    for d in DRAFTS:
        for k in COMPARISON_KEYWORDS:
            f = prog.tables.drafts[d].table.get(k)
            if f is None:
                continue
            rel = spec.relation(d, k)
            if rel is None or (f, k, d in ("draft3", "draft4")) in seen:
                continue
            seen.add((f, k, d in ("draft3", "draft4")))
            try:
                res = numsem.bounds_eval(prog, f, d, k, rel[1], spec.MODIFIER.get(k))
            except RecursionError:
                res = (None, "recursion")
            label = "%s [%s.%s]" % (site(f), d, k)
            if res[0] is None:
                r.ok(label, "NOT DECIDED: outside the evaluated fragment (%s)" % res[1])
                continue
            for clause, msg in sorted(res[0].items()):
                if msg is None:
                    r.ok(label + " " + clause, "%d rows" % res[1])
                else:
                    r.fail("%s|table|%s|%s" % (f.qual, k, clause), site(f), "%s.%s: %s" % (d, k, msg))
    return r


def multiple_of_funcs(prog):
    out = {}
    for d in DRAFTS:
        for k in ("multipleOf", "divisibleBy"):
            f = prog.tables.drafts[d].table.get(k)
            if f is not None:
                out.setdefault(f, []).append("%s.%s" % (d, k))
    return out


def rule_integer_path(ctx, rid="R9.3"):
    prog = ctx.prog
    calls = calls_of(prog)
    r = ctx.rule(rid, "with an integer divisor the verdict comes from `%` on the raw operands (exact integer arithmetic for int/int)", floor=1)
    for f, where in multiple_of_funcs(prog).items():
        cfg = cfg_of(f)
        ip, vp = calls.param_with_role(f, "instance"), calls.param_with_role(f, "value")
        tests = [n for n in cfg.live if n.kind == "test" and isinstance(n.ast, ast.Call) and norm(n.ast.func) == "isinstance" and len(n.ast.args) == 2
                 and norm(n.ast.args[0]) == vp and norm(n.ast.args[1]) == "float"]
        if not tests:
            _unrecognised(ctx, r, f, where, "no-float-test", "no `isinstance(<divisor>, float)` branch in the keyword function itself")
            continue
        t = tests[0]
        # nodes reachable from the false edge before the join with the true edge
        seen, todo = set(), [x for (l, x) in t.succ if l == "false"]
        true_reach = cfg.reachable([(t, "true")], skip_labels=("exc",))
        mods = []
        bad = []
        while todo:
            n = todo.pop()
            if n.id in seen:
                continue
            seen.add(n.id)
            for e in node_exprs(n):
                for sub in walk_expr(e):
                    if isinstance(sub, ast.BinOp) and isinstance(sub.op, ast.Mod) and norm(sub.left) == ip and norm(sub.right) == vp:
                        mods.append((n, sub))
                    elif isinstance(sub, ast.BinOp) and isinstance(sub.op, (ast.Div, ast.FloorDiv, ast.Mult)) and n.id not in true_reach \
                            and not any(wh == "handler" for (_t, wh) in n.trys):
                        bad.append((n, sub))
                    elif isinstance(sub, ast.Call) and norm(sub.func) in ("float", "round") and n.id not in true_reach:
                        bad.append((n, sub))
            if n.id in true_reach and not any(wh in ("body", "handler") for (_t, wh) in n.trys):
                continue
            todo.extend(y for (l, y) in n.succ if l != "exc" or any(wh == "body" for (_t, wh) in n.trys))
        # the float quotient may only be formed when the divisor itself is a float
        from .c02 import only_via_edge
        for n in cfg.live:
            for e in node_exprs(n):
                for sub in walk_expr(e):
                    if isinstance(sub, ast.BinOp) and isinstance(sub.op, ast.Div) and norm(sub.left) == ip and norm(sub.right) == vp:
                        if not only_via_edge(cfg, n, [(t, "true")], True):
                            bad.append((n, sub))
        first = [m for m in mods if not any(wh == "handler" for (_t, wh) in m[0].trys)]
        if first and not bad:
            r.ok(site(f, first[0][1]) + " %s" % where, "integer-divisor path: %s" % norm(first[0][0].ast)[:60])
        elif bad:
            r.fail("%s|float-detour|%s" % (f.qual, norm(bad[0][1])[:40]), site(f, bad[0][1]), "the integer-divisor path goes through %s" % norm(bad[0][1])[:60])
        else:
            # the operation may be hidden behind a callable chosen at run time (remainder = operator.mod; remainder(instance, dB)):
            # that is not evidence of a float detour, and this rule cannot see through it
            local_callables = {n.targets[0].id for n in walk_body(f) if isinstance(n, ast.Assign) and len(n.targets) == 1 and isinstance(n.targets[0], ast.Name)
                               and isinstance(n.value, (ast.Name, ast.Attribute, ast.Lambda))}
            indirect = [n for n in walk_body(f) if isinstance(n, ast.Call) and isinstance(n.func, ast.Name) and n.func.id in local_callables
                        and [norm(a) for a in n.args] == [ip, vp]]
            if indirect:
                _unrecognised(ctx, r, f, where, "indirect", "the verdict comes from `%s`, a callable chosen at run time" % norm(indirect[0]))
            else:
                _unrecognised(ctx, r, f, where, "no-integer-mod", "no `instance % divisor` on the integer-divisor path of the keyword function itself")
    return r


def rule_verdict_depends(ctx, rid="R9.4"):
    prog = ctx.prog
    calls = calls_of(prog)
    r = ctx.rule(rid, "every definition of the divisibility verdict depends on both the instance and the divisor", floor=1)
    for f, where in multiple_of_funcs(prog).items():
        cfg = cfg_of(f)
        rd = reaching_defs(cfg)
        ip, vp = calls.param_with_role(f, "instance"), calls.param_with_role(f, "value")
        ys = [n for n in cfg.live if n.kind == "yield"]
        if len(ys) != 1:
            _unrecognised(ctx, r, f, where, "yields", "%d yields instead of one" % len(ys))
            continue
        preds = ys[0].pred
        tv = None
        for (l, p) in preds:
            if p.kind == "test" and isinstance(p.ast, ast.Name):
                tv = (p, p.ast.id, l)
        if tv is None:
            _unrecognised(ctx, r, f, where, "verdict-test", "the yield is not directly guarded by a test of a verdict variable")
            continue
        p, var, lab = tv
        defs = [cfg.nodes[d] for d in rd[p.id].get(var, ())]

        def deps(e, node, depth=0):
            names = set()
            for x in ast.walk(e):
                if isinstance(x, ast.Name):
                    if x.id in (ip, vp):
                        names.add(x.id)
                    elif depth < 4:
                        for d in rd[node.id].get(x.id, ()):
                            dn = cfg.nodes[d]
                            if dn.kind == "stmt" and isinstance(dn.ast, ast.Assign):
                                names |= deps(dn.ast.value, dn, depth + 1)
            return names
        for dn in defs:
            if not (dn.kind == "stmt" and isinstance(dn.ast, ast.Assign)):
                r.fail("%s|verdict-def|%s" % (f.qual, dn.text[:40]), site(f, dn.ast), "unrecognised definition of the verdict")
                continue
            got = deps(dn.ast.value, dn)
            if got == {ip, vp}:
                r.ok(site(f, dn.ast), "%s depends on instance and divisor" % norm(dn.ast)[:70])
            else:
                r.fail("%s|verdict-constant|%s" % (f.qual, norm(dn.ast)[:50]), site(f, dn.ast),
                       "`%s` does not depend on %s: on this path the answer still varies with the operands (1e308 is a multiple of 0.5 although the quotient overflows)" % (
                           norm(dn.ast)[:60], sorted({ip, vp} - got)))
        if lab != "true":
            r.fail("%s|verdict-polarity" % f.qual, site(f, ys[0].ast), "the error is yielded when the verdict variable is falsy")
    return r


def rule_overflow_reaches_fallback(ctx, rid="R9.5"):
    """On the float path the quotient may be infinite; the fast verdict must go through an operation that raises on +-inf
    (int(), math.floor/ceil/trunc) inside the try whose OverflowError handler computes the exact verdict, or be guarded by an
    explicit isinf/isfinite test."""
    prog = ctx.prog
    calls = calls_of(prog)
    r = ctx.rule(rid, "a float quotient that overflowed to infinity reaches the exact (Fraction) fallback instead of deciding the verdict", floor=1)
    for f, where in multiple_of_funcs(prog).items():
        cfg = cfg_of(f)
        rd = reaching_defs(cfg)
        ip, vp = calls.param_with_role(f, "instance"), calls.param_with_role(f, "value")
        qdefs = [n for n in cfg.live if n.kind == "stmt" and isinstance(n.ast, ast.Assign) and isinstance(n.ast.value, ast.BinOp)
                 and isinstance(n.ast.value.op, ast.Div) and isinstance(n.ast.targets[0], ast.Name)]
        if not qdefs:
            r.ok(site(f), "no float quotient is formed")
            continue
        for qd in qdefs:
            q = qd.ast.targets[0].id
            users = [n for n in cfg.live if n is not qd and qd.id in rd[n.id].get(q, ()) and any(
                isinstance(x, ast.Name) and x.id == q for e in node_exprs(n) for x in walk_expr(e))]
            for u in users:
                txt = " ".join(norm(e) for e in node_exprs(u))
                raising = any(isinstance(c, ast.Call) and norm(c.func) in ("int", "math.floor", "math.ceil", "math.trunc", "floor", "ceil", "trunc", "round")
                              and c.args and norm(c.args[0]) == q for e in node_exprs(u) for c in walk_expr(e))
                guarded = any(isinstance(c, ast.Call) and norm(c.func).split(".")[-1] in ("isinf", "isfinite") for e in node_exprs(u) for c in walk_expr(e))
                trys = [t for (t, wh) in u.trys if wh == "body"]
                handled = any(h.type is not None and any(nm in ("OverflowError", "ArithmeticError", "Exception") for nm in [norm(x).split(".")[-1] for x in (h.type.elts if isinstance(h.type, ast.Tuple) else [h.type])])
                              for t in trys for h in t.handlers)
                if (raising and handled) or guarded:
                    r.ok(site(f, u.ast), "`%s`: int() of an infinite quotient raises OverflowError into the exact fallback" % txt[:60])
                else:
                    r.fail("%s|infinite-quotient-decides|%s" % (f.qual, txt[:50]), site(f, u.ast),
                           "`%s` decides from a quotient that may have overflowed to infinity without raising: the exact fallback is never reached "
                           "(1e308 is a multiple of 0.5, the float quotient is inf)" % txt[:70])
    return r


def run(ctx):
    ctx.explanation = (
        "C09 structural clauses: R9.1 the kind interpreter restricted to numeric operands ({int of unbounded size, finite float} "
        "for the instance, the metaschema's numeric shape for the bound/divisor): every / % * float() int() whose operands can "
        "mix an unbounded int with a float must be covered by an OverflowError handler, every division needs a divisor known "
        "positive; R9.2 comparison keywords compare the raw operands; R9.3 the integer-divisor path of multipleOf is `%` on the "
        "raw operands; R9.4 every definition of the divisibility verdict depends on both operands. Not decided: exactness of "
        "IEEE arithmetic on the property's exact sub-domain.")
    ctx.assume("Python int/float comparison is exact; int % int is exact; Fraction arithmetic is exact and cannot overflow")
    ctx.assume("the metaschemas require multipleOf/divisibleBy > 0")
    rule_never_raise(ctx)
    rule_raw_comparison(ctx)
    rule_integer_path(ctx)
    rule_verdict_depends(ctx)
    rule_overflow_reaches_fallback(ctx)
    rule_number_table(ctx)
    # R9.7: no behaviour changes at a number fixed in the source (sizes, depths, counts, magnitudes are unbounded in the property's domain)
    from . import scope as _scope
    _scope.rule_no_size_thresholds(ctx, 'R9.7', ('_validators', '_legacy_validators'), 'the numeric keywords')
    # R9.8: each draft binds minimum / maximum / exclusive* to the functions with that draft's relation (Draft 6/7 keeping the Draft 4 functions
    # read exclusiveMinimum as a flag) (C09-r7m2)
    from .c01 import rule_scalar_relations
    rule_scalar_relations(ctx, "R9.8")
